"""C11 — four-counter distributed termination detection is safe and live."""
import os, re, pv
PROP = 'C11'
LEAN_MODULE = 'ParsecVerif.Props.C11'
DRIVERS = ['pv_C11']
THEOREMS = ['ParsecVerif.C11.C11_safe', 'ParsecVerif.C11.C11_once', 'ParsecVerif.C11.C11_agree',
            'ParsecVerif.C11.C11_agree_progress', 'ParsecVerif.C11.C11_live_partial', 'ParsecVerif.C11.C11_asserts',
            'ParsecVerif.C11.C11_ready_reach']
IMPL = 'parsec/mca/termdet/fourcounter/termdet_fourcounter_module.c'
ENGINE = 'lean-seq'
LEVEL = 'other'
LEVEL_TEXT = ('Lean 4 theorems over a model that mirrors termdet_fourcounter_module.c handler by handler, for ANY number of processes, ANY sequence of '
              'module API calls by the application and ANY delivery order of control and application messages (superset of FIFO channels): '
              'C11_safe — if any process is TERMINATED then every process has no work, an idle/terminated monitor, no application message is in flight or '
              'half received and the global sent/received counters agree (Mattern four-counter argument as an inductive invariant with history variables); '
              'C11_once — the termination callback ran exactly once on terminated processes; C11_agree — after the first termination every delivery terminates '
              'exactly one more process and when no delivery is possible all have terminated; C11_asserts — the assertions of msg_up/msg_down cannot fire; '
              'C11_live_partial — from a quiescent reachable state the control protocol is never stuck before all processes terminated and deliveries keep '
              'the state quiescent (deadlock freedom). The bound on the length of control-only runs (full liveness, def C11_live) is NOT a theorem: it is '
              'validated by exhaustive exploration of the compiled model from sampled quiescent states with n <= 5 (labelled exploration). Tie: n real monitors '
              'driven through the exported module functions with parsec_ce.send_am stubbed, PRNG-chosen operations and delivery order, compared state by state '
              'with the compiled Lean model after every operation (ASan/UBSan, module assertions enabled), plus an independent oracle of the property on the '
              'implementation transcripts.')
LEVEL_NOTE = ('Proved for all n, all schedules: safety, exactly-once callback, agreement, assertion freedom, deadlock freedom from quiescent states. '
              'Explored, not proved: termination bound of the control-only protocol (n <= 5, sampled quiescent states). Each module call is one atomic '
              'transition (the real functions run under the monitor write lock; the lock-free fast path of addto_nb_tasks is treated as atomic). '
              'Application discipline assumed (guards of the model, respected by the harness): a process sends only while it has work; work appears on a '
              'workless process only before taskpool_ready or between incoming_message_start and _end. uint32 counters modelled as naturals (no wrap-around). '
              'Real multi-rank runs: one PTG program compiled with --dynamic-termdet on 1..4 ranks (task counts and return of parsec_context_wait), not trace-checked against the model. Trusted: Lean kernel, propext/Classical.choice/Quot.sound, harness, '
              'differential testing as tie.')
TECHNIQUE = 'Lean 4 proof (inductive invariant with history variables, edge-local protocol invariant, counting argument) + differential correspondence with the real module + model exploration for the liveness bound'
ASSUMPTIONS = ['module API calls are atomic w.r.t. each other (monitor write lock)',
               'application discipline: send only with work; work appears only before ready or while an incoming message is being processed',
               'counters do not wrap (fewer than 2^32-1 messages per process and in total)',
               'no process sends a remote-dependency message to itself']

STATE_RE = re.compile(r'^r(\d+) (\w+) ms=(\d+) mr=(\d+) ncl=(-?\d+) acc=(\d+)/(\d+) last=(-?\d+)/(-?\d+) nt=(-?\d+) npa=(-?\d+) opn=(\d+) cb=(\d+) \| \[(.*)\]$')


def oracle(ops, impl):
    """The property statement evaluated on the implementation's transcript of one case, independent of the model.
    Returns (failures, facts)."""
    fails = []
    n = 0
    ranks = {}
    app_flight = 0
    ctl = []          # control messages in flight, as printed
    facts = {'terminated': False, 'app_msgs': 0, 'ranks': 0, 'waves': 0, 'held': 0, 'final_all_term': False, 'quiescent_end': False}
    first_term_reported = False
    for o, r in zip(ops, impl):
        w = o.split()
        if not w or r in ('rejected', 'bad-op', '<no-result>'):
            continue
        if w[0] == 'init' and r == 'ok':
            n = int(w[1]); facts['ranks'] = n
            ranks = {q: dict(st='NR', ms=0, mr=0, nt=0, npa=0, opn=0, cb=0) for q in range(n)}
            app_flight = 0; ctl = []
            continue
        if w[0] in ('case', 'dump'):
            continue
        if r == 'held':
            facts['held'] += 1
            continue
        m = STATE_RE.match(r)
        if not m:
            fails.append('%s: unparsable result %r' % (o, r)); continue
        q = int(m.group(1))
        ranks[q] = dict(st=m.group(2), ms=int(m.group(3)), mr=int(m.group(4)), nt=int(m.group(10)), npa=int(m.group(11)),
                        opn=int(m.group(12)), cb=int(m.group(13)))
        newp = m.group(14).split()
        if w[0] == 'send':
            app_flight += 1; facts['app_msgs'] += 1
        elif w[0] == 'rstart':
            app_flight -= 1
        if any(p.startswith('D0>') for p in newp):
            facts['waves'] += 1
        # ---- safety: somebody terminated => all idle, nothing in transit
        if any(v['st'] == 'T' for v in ranks.values()):
            facts['terminated'] = True
            bad = []
            for k, v in ranks.items():
                if v['nt'] + v['npa'] != 0: bad.append('rank %d has work (nt=%d npa=%d)' % (k, v['nt'], v['npa']))
                if v['opn'] != 0: bad.append('rank %d is processing %d incoming messages' % (k, v['opn']))
                if v['st'] not in ('IC', 'IP', 'T'): bad.append('rank %d monitor state %s is not idle' % (k, v['st']))
            if app_flight != 0: bad.append('%d application messages in flight' % app_flight)
            if sum(v['ms'] for v in ranks.values()) != sum(v['mr'] for v in ranks.values()):
                bad.append('sent %d != received %d' % (sum(v['ms'] for v in ranks.values()), sum(v['mr'] for v in ranks.values())))
            if bad and not first_term_reported:
                first_term_reported = True
                fails.append('%s: a process is TERMINATED but %s' % (o, '; '.join(bad[:3])))
        for k, v in ranks.items():
            if v['cb'] != (1 if v['st'] == 'T' else 0):
                fails.append('%s: rank %d state %s but termination callback ran %d times' % (o, k, v['st'], v['cb']))
                break
    # ---- liveness / agreement at the end of a drained case (last op is a dump showing the network)
    if ops and ops[-1] == 'dump' and n and impl and ' | ' in impl[-1]:
        sts, net = impl[-1].split(' | ', 1)
        sts = sts.split()
        netl = net.strip('[]').split()
        deliverable = [p for p in netl if not p.endswith('h') or p[0] == 'A']
        quiet = all(v['nt'] + v['npa'] == 0 and v['opn'] == 0 and v['st'] in ('IC', 'IP', 'T') for v in ranks.values()) and app_flight == 0
        facts['quiescent_end'] = quiet
        facts['final_all_term'] = all(x == 'T' for x in sts)
        if quiet and not deliverable and not facts['final_all_term']:
            fails.append('end of run: all processes idle, nothing in transit, no control message left, but states are %s' % ' '.join(sts))
        if any(x == 'T' for x in sts) and not deliverable and not facts['final_all_term']:
            fails.append('end of run: some process TERMINATED, no message left, but states are %s' % ' '.join(sts))
    return fails, facts


OPS1 = ['ready', 'rstart', 'rend', 'deliver']
OPS2 = ['sett', 'setpa', 'addt', 'addpa', 'send']


def gen_wild(rng, length):
    """Unstructured scripts: exercise the rejection rules and odd orders (many ops are rejected on both sides)."""
    n = rng.range(1, 5)
    ops = ['init %d' % n]
    for _ in range(length):
        r = rng.below(100)
        if r < 45:
            ops.append('%s %d' % (rng.choice(OPS1), rng.below(n + 1)))
        elif r < 90:
            o = rng.choice(OPS2)
            v = rng.range(-2, 3) if o.startswith('add') else rng.below(3) if o != 'send' else rng.below(n + 1)
            ops.append('%s %d %d' % (o, rng.below(n + 1), v))
        elif r < 95:
            ops.append('dump')
        else:
            ops.append(rng.choice(['init 0', 'init 65', 'ready', 'sett 0', 'deliver -1', 'frob 1', 'addt 0 x', 'send 0 0 0', 'addt 0 2000000']))
    return ops


def load_corpus():
    cs = []
    d = os.path.join(pv.ROOT, 'corpus', PROP)
    if os.path.isdir(d):
        for f in sorted(os.listdir(d)):
            if f.endswith('.case'):
                cs.append([l.strip() for l in open(os.path.join(d, f)) if l.strip() and not l.startswith('#')])
    return cs


def split_raw(out):
    """Raw harness output -> list of cases [(ops, impl, xp_index)], stats, viols."""
    cases, stats, viols = [], {}, []
    cur = None
    for ln in out.splitlines():
        if not ln.strip():
            continue
        if ln.startswith('!viol'):
            viols.append(ln[5:].strip()); continue
        if ln.startswith('#'):
            w = ln.split()
            if w[0] == '#stat' and len(w) >= 3:
                stats[w[1]] = stats.get(w[1], 0) + int(w[2])
            elif w[0] == '#xp' and cur is not None:
                cur['xp'] = len(cur['ops'])
            continue
        a, b = (ln.split(' => ', 1) + ['<no-result>'])[:2]
        if a.startswith('case'):
            cur = {'ops': [], 'impl': [], 'xp': None}
            cases.append(cur)
            continue
        if cur is not None:
            cur['ops'].append(a.strip()); cur['impl'].append(b.strip())
    return cases, stats, viols


def check_case(ctx, res, exe, env, ops, impl, model, tag, dist):
    for o in ops:
        k = o.split()[0]
        dist['op_histogram'][k] = dist['op_histogram'].get(k, 0) + 1
    dist['rejected_calls'] += impl.count('rejected')
    fails, facts = oracle(ops, impl)
    if fails:
        def bad(sub):
            rs = pv.run_script(exe, 'pv_C11', [sub], env=env, use_driver=False, timeout=60)[0][0]
            return rs['crashed'] or bool(oracle(sub, rs['impl'])[0])
        small = pv.ddmin(ops, bad, max_tests=200)
        rs = pv.run_script(exe, 'pv_C11', [small], env=env, use_driver=False, timeout=60)[0][0]
        sf = oracle(small, rs['impl'])[0] or fails
        kind = 'C11-live' if sf[0].startswith('end of run') else 'C11-callback' if 'callback' in sf[0] else 'C11-safe'
        res.violations.append({'key': kind + ': ' + ' ; '.join(small), 'what': sf[0], 'case': small, 'all_failures': sf[:5]})
    if model is not None and impl != model:
        small = pv.ddmin(ops, lambda sub: pv.case_disagrees(exe, 'pv_C11', sub, env=env), max_tests=200)
        rs = pv.run_script(exe, 'pv_C11', [small], env=env, timeout=60)[0][0]
        res.disagreements.append({'case': small, 'impl': rs['impl'], 'model': rs['model'], 'from': tag})
    if facts['terminated'] and facts['ranks'] >= 2:
        res.nontrivial(' ; '.join(ops))
    dist['terminated_cases'] += 1 if facts['final_all_term'] else 0
    dist['cases_with_app_messages'] += 1 if facts['app_msgs'] else 0
    dist['held_deliveries'] += facts['held']
    dist['root_decisions'] += facts['waves']
    dist['ranks_histogram'][str(facts['ranks'])] = dist['ranks_histogram'].get(str(facts['ranks']), 0) + 1
    return facts


def build_ptg(ctx):
    """Generate (parsec-ptgpp --dynamic-termdet), compile and link the real PTG program of harness/C11_ptg.jdf."""
    ptgpp = os.path.join(ctx.build, 'parsec', 'interfaces', 'ptg', 'ptg-compiler', 'parsec-ptgpp')
    d = ctx.path('ptg')
    os.makedirs(d, exist_ok=True)
    rc, out, err = pv.sh([ptgpp, '--dynamic-termdet', '--noline', '-E', '-i', os.path.join(pv.ROOT, 'harness', 'C11_ptg.jdf'), '-o', 'C11_ptg'], cwd=d, timeout=300)
    if rc != 0 or not os.path.exists(os.path.join(d, 'C11_ptg.c')):
        return None, 'parsec-ptgpp failed: ' + (out + err)[-1500:]
    exe = os.path.join(d, 'C11_ptg')
    ok, log = pv.cc_harness(os.path.join(d, 'C11_ptg.c'), exe, ctx.build, extra=['-I' + d, '-w'], sanitize=False)
    return (exe, '') if ok else (None, 'compile of generated code failed: ' + log[-1500:])


def run_ptg(ctx, res, dist, runs=None):
    """Tie (b): real multi-rank runs of a PTG program whose completion is detected by the four-counter module."""
    exe, log = build_ptg(ctx)
    if exe is None:
        res.infra_errors.append('C11_ptg: ' + log); return
    env = {'OMPI_ALLOW_RUN_AS_ROOT': '1', 'OMPI_ALLOW_RUN_AS_ROOT_CONFIRM': '1'}
    if runs is None:
        runs = [(2, 0)] if ctx.quick else [(1, 0), (2, 0), (3, 0), (4, 0), (2, 1)]
    dist['ptg_runs'] = []
    for ranks, late in runs:
        e = dict(env); e['C11_LATE_TASKPOOL'] = str(late)
        tmo = 150 if late else 240 if ctx.quick else 300
        rc, out, err = pv.sh(['timeout', '-s', 'KILL', str(tmo), 'mpiexec', '-x', 'C11_LATE_TASKPOOL', '-n', str(ranks), '--oversubscribe', exe], env=e, timeout=tmo + 60)
        lines = [l for l in out.splitlines() if l.startswith('C11_ptg rank')]
        good = rc == 0 and len(lines) == ranks and all(re.search(r'total (\d+) expected \1$', l) for l in lines)
        dist['ptg_runs'].append({'ranks': ranks, 'taskpool_after_context_start': bool(late), 'rc': rc, 'ok': good, 'report': lines[:4]})
        res.evaluations += 1
        if good:
            res.traces_validated += 1
            continue
        if rc in (137, -9, 124):
            key = 'C11-live-real: dynamic-termdet PTG, taskpool created %s parsec_context_start' % ('after' if late else 'before')
            what = ('real run on %d ranks (%s): every task ran but parsec_context_wait never returned within %d s: the termination is never detected '
                    '(four-counter UP/DOWN messages are never received)' % (ranks, 'taskpool created after parsec_context_start' if late else 'taskpool created before parsec_context_start', tmo))
        else:
            key = 'C11-safe-real: dynamic-termdet PTG on %d ranks' % ranks
            what = 'real run on %d ranks exited with %d; reports: %s; stderr: %s' % (ranks, rc, lines[:4], err[-400:])
        res.violations.append({'key': key, 'what': what, 'case': ['mpiexec -n %d C11_ptg (C11_LATE_TASKPOOL=%d)' % (ranks, late)]})


def run(ctx, res, cases=None):
    exe = ctx.path('C11')
    ok, log = pv.cc_harness(os.path.join(pv.ROOT, 'harness', 'C11.c'), exe, ctx.build, sanitize=True)
    if not ok:
        res.infra_errors.append('harness compile failed: ' + log[-2500:]); return
    env = {'ASAN_OPTIONS': 'detect_leaks=0', 'VERIF_SEED': str(ctx.seed)}
    rng = pv.Rng(ctx.seed)
    dist = {'op_histogram': {}, 'rejected_calls': 0, 'terminated_cases': 0, 'cases_with_app_messages': 0, 'held_deliveries': 0,
            'root_decisions': 0, 'ranks_histogram': {}, 'explored_states': 0, 'explored_start_states': 0, 'explore_longest_by_n': {}}
    corpus = load_corpus()
    scripted = list(cases) if cases is not None else corpus + [gen_wild(rng.fork(k), rng.range(5, 60)) for k in range(120 if ctx.quick else 1500)]
    # ---- scripted cases (corpus, replayed cases, unstructured scripts)
    results, stats, viols, (rc, err) = pv.run_script(exe, 'pv_C11', scripted, env=env, use_driver=ctx.driver_ok)
    for v in viols:
        res.violations.append({'key': 'harness: ' + v, 'what': v})
    for k, r in enumerate(results):
        res.evaluations += len(r['ops'])
        if r['crashed']:
            res.violations.append({'key': 'crash: ' + ' ; '.join(r['ops'][:len(r['impl']) + 1]),
                                   'what': 'real code crashed / assertion / sanitizer abort (rc=%s) after %d ops: %s' % (r.get('rc'), len(r['impl']), r.get('stderr', '')[-500:]),
                                   'case': r['ops'][:len(r['impl']) + 1]})
            break
        check_case(ctx, res, exe, env, r['ops'], r['impl'], r['model'] if ctx.driver_ok else None, 'script', dist)
        if len(res.violations) + len(res.disagreements) >= 5:
            break
    res.traces_validated = len(results)
    samples = [{'ops': r['ops'][:14], 'impl': r['impl'][:14]} for r in results[:2]]
    if cases is not None:
        res.samples = samples; res.extra['input_distribution'] = dist
        return
    # ---- generated cases: the harness chooses among the operations enabled in the REAL state
    ngen, maxn, length = (500, 9, 220) if ctx.quick else (7000, 24, 400)
    rc, out, err = pv.sh([exe, 'gen', str(ngen), str(maxn), str(length)], env=env, timeout=3000)
    gcases, gstats, gviols = split_raw(out)
    for v in gviols:
        res.violations.append({'key': 'harness: ' + v, 'what': v})
    if rc != 0:
        last = list(gcases[-1]['ops']) if gcases else []
        if gcases and gcases[-1]['ops']:      # the last line may be cut by the abort
            gcases[-1]['ops'].pop(); gcases[-1]['impl'].pop()
        small = last
        res.violations.append({'key': 'crash: ' + ' ; '.join(small[-40:]), 'what': 'real code crashed / assertion / sanitizer abort (rc=%d) in generated case %d after %d ops: %s' % (rc, len(gcases) - 1, len(last), err[-500:]), 'case': small})
    flat = []
    for k, c in enumerate(gcases):
        flat.append('case %d' % k); flat += c['ops']
    model = []
    if ctx.driver_ok and flat:
        rcd, model, derr = pv.run_driver('pv_C11', flat, timeout=3000)
        if rcd != 0:
            res.disagreements.append({'op': '<driver>', 'impl': '', 'model': 'driver exit %d: %s' % (rcd, derr[-300:])})
    pos = 0
    explore = []
    for k, c in enumerate(gcases):
        pos += 1
        m = model[pos:pos + len(c['ops'])] if ctx.driver_ok else None
        pos += len(c['ops'])
        res.evaluations += len(c['ops'])
        facts = check_case(ctx, res, exe, env, c['ops'], c['impl'], m, 'gen', dist)
        if c['xp'] is not None and facts['ranks'] <= 5 and len(explore) < (400 if ctx.quick else 4000):
            explore.append((facts['ranks'], c['ops'][:c['xp']]))
        if len(res.violations) + len(res.disagreements) >= 5:
            break
    res.traces_validated += len(gcases)
    samples += [{'ops': c['ops'][:20], 'impl': c['impl'][:20]} for c in gcases[3:5]]
    # ---- exploration (NOT proof): every control-only run from the sampled quiescent states, compiled model
    if ctx.driver_ok and explore:
        lines = []
        for k, (n, ops) in enumerate(explore):
            lines += ['case %d' % k] + ops + ['explore']
        rcd, mout, derr = pv.run_driver('pv_C11', lines, timeout=3000)
        i = 0
        for k, (n, ops) in enumerate(explore):
            i += 1 + len(ops)
            r = mout[i] if i < len(mout) else '<missing>'
            i += 1
            if r == 'rejected':      # a monitor is stuck busy: not a quiescent state
                continue
            mm = re.match(r'longest=(\d+) allterm=(\d) states=(\d+)', r)
            if not mm:
                res.disagreements.append({'op': 'explore', 'impl': '', 'model': r}); continue
            dist['explored_start_states'] += 1
            dist['explored_states'] += int(mm.group(3))
            dist['explore_longest_by_n'][str(n)] = max(dist['explore_longest_by_n'].get(str(n), 0), int(mm.group(1)))
            bound = 7 * (n - 1)
            if mm.group(2) != '1' or int(mm.group(1)) > bound:
                res.violations.append({'key': 'C11-live-explore: ' + ' ; '.join(ops), 'what': 'model exploration from a quiescent state: %s (bound %d)' % (r, bound), 'case': ops + ['explore']})
    run_ptg(ctx, res, dist)
    res.rule = ('corpus cases, then unstructured scripts (rejection rules), then cases generated by the harness from the real state: 1..%d processes, startup work, '
                'PRNG choice among enabled operations (ready / workload changes / send / incoming start / end / control delivery in arbitrary order, held messages), '
                'then drain; every operation compared with the Lean model; distinct = distinct op sequence; non-trivial = at least 2 processes and termination detected; plus real mpiexec runs of a --dynamic-termdet PTG program (2 ranks quick; 1..4 ranks and the late-taskpool order thorough)' % maxn)
    res.samples = samples
    dist.update({k: v for k, v in gstats.items()})
    res.extra['input_distribution'] = dist
    res.extra['exploration'] = {'label': 'exploration, not proof', 'start_states': dist['explored_start_states'], 'states': dist['explored_states'],
                                'longest_control_only_run_by_n': dist['explore_longest_by_n'], 'claimed_bound': '7(n-1)'}


def replay(ctx, res, data):
    cases = [v['case'] for v in data.get('violations', []) if 'case' in v] + [d['case'] for d in data.get('disagreements', []) if 'case' in d]
    real = [c for c in cases if c and c[0].startswith('mpiexec')]
    cases = [[o for o in c if o != 'explore'] for c in cases if not (c and c[0].startswith('mpiexec'))]
    if cases or not real:
        run(ctx, res, cases=cases or None)
    if real:
        runs = []
        for c in real:
            m = re.match(r'mpiexec -n (\d+) C11_ptg \(C11_LATE_TASKPOOL=(\d)\)', c[0])
            if m:
                runs.append((int(m.group(1)), int(m.group(2))))
        dist = {}
        run_ptg(ctx, res, dist, runs=runs)
        res.extra.setdefault('input_distribution', {}).update(dist)
