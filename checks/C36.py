"""C36 — the red-black tree keeps order and balance."""
import os, itertools, pv
PROP = 'C36'
LEAN_MODULE = 'ParsecVerif.Props.C36'
DRIVERS = ['pv_C36']
THEOREMS = ['ParsecVerif.C36.bst', 'ParsecVerif.C36.rb', 'ParsecVerif.C36.height_bound', 'ParsecVerif.C36.find_correct',
            'ParsecVerif.C36.find_or_larger_correct', 'ParsecVerif.C36.contents', 'ParsecVerif.C36.ids_nodup',
            'ParsecVerif.C36.insert_spec', 'ParsecVerif.C36.remove_spec', 'ParsecVerif.C36.update_spec']
IMPL = 'parsec/class/parsec_rbtree.c'
ENGINE = 'lean-seq'
LEVEL = 'proof'
LEVEL_TEXT = ('Lean 4 theorems for EVERY sequence of parsec_rbtree_insert (duplicate keys included, as the code accepts them), parsec_rbtree_remove and '
              'parsec_rbtree_update_node calls, all keys, all node identities: the in-order traversal stays sorted (binary search tree), the root is black, no red node has a red '
              'child, every root-to-sentinel path of every subtree has the same number of black nodes (so height <= 2 log2(n+1)); insert adds exactly the new (key,node), remove '
              'takes out exactly the given node (insert and delete fix-up proved case by case, including the red-sibling / double-rotation deletes); update_node answers EXISTS '
              'exactly when another node carries the new key and otherwise re-keys exactly that node on both its in-place and its remove+insert path; find returns a node with '
              'the key iff the key is stored; find_or_larger returns a node with the least stored key >= the query, NULL iff there is none. The model is a functional mirror of the '
              'pointer code (same comparisons, rotations, recolourings, successor choice, neighbour walks) and is tied to the current source on every run: random, exhaustive-small '
              'and corpus histories run on the real API under ASan/UBSan, and after every call the real structure (colour, key, node identity in preorder) is compared with the '
              'model tree; parent pointers and the sentinel are checked by the harness; an independent oracle of the property statement is evaluated on the real outputs.')
LEVEL_NOTE = ('Sequential use only (the tree has no internal locking; zone_malloc calls it under its own lock). Keys are unbounded integers in the model; the code only compares them. '
              'Parent pointers are not part of the algebraic model: their consistency on the real tree is checked by the harness walk on every run (sampled, not a theorem). '
              'Branches of the model that stand for reads through the sentinel (sibling = nil in delete fix-up, red root in insert fix-up) are proved unreachable-in-effect only '
              'through the invariants (valid trees never reach them). Calls outside the API precondition (remove/update of a node that is not in the tree) are not issued. '
              'Trusted: Lean kernel, propext/Classical.choice/Quot.sound, the harness, differential testing as the tie.')
TECHNIQUE = ('Lean 4 proof (inductive invariants over all call sequences; fix-up cases by exhaustive structural case analysis; refinement of the tree to its sorted in-order list) '
             'on a functional mirror of the pointer code, tied by full structural differential comparison with the real tree after every call')
ASSUMPTIONS = ['calls are sequential (external locking by the caller, as in zone_malloc)',
               'remove / update_node are only called on nodes currently in the tree; nodes are not shared between trees',
               'keys are C ints compared with <, ==; no arithmetic on keys']

EXE = None
ENV = {'ASAN_OPTIONS': 'detect_leaks=0'}
INT_MIN, INT_MAX = -2147483648, 2147483647


# ------------------------------------------------------------------ oracle (written from the property statement)
class Bad(Exception):
    pass


def parse_tree(toks):
    """toks: preorder tokens.  Returns (root, nodes) with nodes = dict id -> (color, key, parent_id, left_id, right_id);
    raises Bad on a malformed walk or a harness-side structural flag."""
    nodes = {}
    pos = [0]
    for t in toks:
        if t.startswith('!'):
            raise Bad('harness structural check failed: ' + t[1:])

    def rec(parent):
        if pos[0] >= len(toks):
            raise Bad('truncated tree walk')
        t = toks[pos[0]]; pos[0] += 1
        if t == '-':
            return None
        if t[0] not in 'RB' or ':' not in t:
            raise Bad('unexpected token %r in tree walk' % t)
        k, i = t[1:].split(':')
        k, i = int(k), int(i)
        if i in nodes:
            raise Bad('node %d occurs twice in the tree' % i)
        nodes[i] = None
        l = rec(i)
        r = rec(i)
        nodes[i] = (t[0], k, parent, l, r)
        return i
    root = rec(None)
    if pos[0] != len(toks):
        raise Bad('trailing tokens after tree walk')
    return root, nodes


def check_shape(root, nodes):
    """BST order (non-strict), root black, no red-red, equal black heights.  Returns in-order [(key,id)]."""
    if root is not None and nodes[root][0] != 'B':
        raise Bad('root is red')
    order = []

    def rec(i):
        if i is None:
            return 0
        c, k, p, l, r = nodes[i]
        if c == 'R':
            for ch in (l, r):
                if ch is not None and nodes[ch][0] == 'R':
                    raise Bad('red node %d has red child %d' % (i, ch))
        hl = rec(l)
        order.append((k, i))
        hr = rec(r)
        if hl != hr:
            raise Bad('black heights differ below node %d (%d vs %d)' % (i, hl, hr))
        return hl + (1 if c == 'B' else 0)
    rec(root)
    for a, b in zip(order, order[1:]):
        if a[0] > b[0]:
            raise Bad('in-order keys not sorted: %d (node %d) before %d (node %d)' % (a[0], a[1], b[0], b[1]))
    return order


def pair(s):
    k, i = s.split(':')
    return int(k), int(i)


def oracle(ops, impl, stats=None):
    """The property itself on the implementation's outputs.  Reference = dict id -> key kept from the
    operations alone.  Returns list of failure descriptions (first failure per op)."""
    fails = []
    live = {}
    nid = 0
    prev = None          # previous (root, nodes)
    for o, r in zip(ops, impl):
        w = o.split()
        try:
            if r == 'bad-op' or r == '<no-result>':
                continue
            if w[0] in ('ins', 'rm', 'upd'):
                if r == 'rejected':
                    if w[0] == 'ins' or int(w[1]) in live:
                        raise Bad('call was refused by the harness although node is stored')
                    continue
                rt = r.split()
                if w[0] == 'ins':
                    i = int(rt[0]); rt = rt[1:]
                    if i != nid:
                        raise Bad('harness id %d, expected %d' % (i, nid))
                    live[nid] = int(w[1]); nid += 1
                elif w[0] == 'rm':
                    i = int(w[1])
                    if i not in live:
                        raise Bad('remove issued on a node that is not stored')
                    del live[i]
                else:
                    i, k = int(w[1]), int(w[2])
                    if i not in live:
                        raise Bad('update issued on a node that is not stored')
                    other = any(v == k for j, v in live.items() if j != i)
                    if rt[0] == 'exists':
                        if not other:
                            raise Bad('update_node answered EXISTS but no other node carries key %d' % k)
                    elif rt[0] == 'ok':
                        if other:
                            raise Bad('update_node succeeded although another node carries key %d' % k)
                        live[i] = k
                    else:
                        raise Bad('update_node returned %s' % rt[0])
                    rt = rt[1:]
                root, nodes = parse_tree(rt)
                order = check_shape(root, nodes)
                if sorted(order) != sorted((k, i) for i, k in live.items()):
                    raise Bad('tree content differs from what was inserted/removed/updated: tree %s, expected %s' % (sorted(order)[:8], sorted((k, i) for i, k in live.items())[:8]))
                if stats is not None:
                    account(stats, w[0], prev, (root, nodes), rt0=r.split()[0])
                prev = (root, nodes)
            elif w[0] == 'find':
                q = int(w[1])
                if r == 'none':
                    if q in live.values():
                        raise Bad('find(%d) returned NULL but the key is stored' % q)
                else:
                    k, i = pair(r)
                    if k != q or live.get(i) != q:
                        raise Bad('find(%d) returned %s which is not a stored node with that key' % (q, r))
            elif w[0] == 'fol':
                q = int(w[1])
                ge = [v for v in live.values() if v >= q]
                if r == 'none':
                    if ge:
                        raise Bad('find_or_larger(%d) returned NULL but key %d is stored' % (q, min(ge)))
                else:
                    k, i = pair(r)
                    if not ge or k != min(ge) or live.get(i) != k:
                        raise Bad('find_or_larger(%d) returned %s, smallest stored key >= query is %s' % (q, r, min(ge) if ge else None))
            elif w[0] == 'min':
                if r == 'rejected':
                    if live:
                        raise Bad('minimum refused on a non-empty tree')
                else:
                    k, i = pair(r)
                    if k != min(live.values()) or live.get(i) != k:
                        raise Bad('minimum returned %s, smallest stored key is %d' % (r, min(live.values())))
            elif w[0] == 'each':
                items = [pair(x) for x in r.strip('[]').split()]
                if any(a[0] > b[0] for a, b in zip(items, items[1:])):
                    raise Bad('foreach visits keys out of order: %s' % r)
                if sorted(items) != sorted((k, i) for i, k in live.items()):
                    raise Bad('foreach does not visit exactly the stored nodes: %s' % r)
        except Bad as e:
            fails.append('%s: %s' % (o, e))
            break
        except (ValueError, IndexError) as e:
            fails.append('%s: unparsable result %r (%s)' % (o, r, e))
            break
    return fails


def account(stats, op, prev, cur, rt0):
    """input-distribution accounting: what the operation did to the structure"""
    root, nodes = cur
    n = len(nodes)
    b = 0 if n == 0 else 1 if n < 4 else 2 if n < 8 else 3 if n < 32 else 4 if n < 256 else 5
    stats['size_bucket_%s' % ['0', '1-3', '4-7', '8-31', '32-255', '256+'][b]] = stats.get('size_bucket_%s' % ['0', '1-3', '4-7', '8-31', '32-255', '256+'][b], 0) + 1
    if prev is None:
        return
    pn = prev[1]
    common = [i for i in nodes if i in pn]
    recol = sum(1 for i in common if nodes[i][0] != pn[i][0])
    relink = sum(1 for i in common if nodes[i][2] != pn[i][2])
    if op == 'upd':
        kind = 'upd_exists' if rt0 == 'exists' else ('upd_inplace' if relink == 0 and recol == 0 and all(nodes[i][3:] == pn[i][3:] for i in common) else 'upd_reinsert')
        stats[kind] = stats.get(kind, 0) + 1
        return
    if op == 'rm':
        gone = [i for i in pn if i not in nodes]
        if gone:
            g = pn[gone[0]]
            stats['rm_%s_%dchild' % ('black' if g[0] == 'B' else 'red', (g[3] is not None) + (g[4] is not None))] = stats.get('rm_%s_%dchild' % ('black' if g[0] == 'B' else 'red', (g[3] is not None) + (g[4] is not None)), 0) + 1
    key = '%s_recolour%s_relink%s' % (op, min(recol, 3), '0' if relink == 0 else '1-2' if relink <= 2 else '3+')
    stats[key] = stats.get(key, 0) + 1


# ------------------------------------------------------------------ generators
def gen_random(rng, length, dom, mix):
    """mostly-valid histories: ids of live nodes are tracked; `mix` = (ins, rm, upd, query) weights per phase"""
    ops, live, nid = [], [], 0
    special = [INT_MIN, INT_MAX, INT_MIN + 1, INT_MAX - 1, 0, -1]

    def key():
        if dom == 'extreme':
            return rng.choice(special) if rng.chance(1, 2) else rng.range(-3, 3)
        return rng.range(-dom, dom)
    phase = 0
    for n in range(length):
        if n % max(8, length // 4) == 0:
            phase = rng.below(len(mix))
        wi, wr, wu, wq = mix[phase]
        r = rng.below(wi + wr + wu + wq)
        if r < wi or not live:
            ops.append('ins %d' % key()); live.append(nid); nid += 1
        elif r < wi + wr:
            i = live.pop(rng.below(len(live)))
            ops.append('rm %d' % i)
        elif r < wi + wr + wu:
            ops.append('upd %d %d' % (rng.choice(live), key()))
        else:
            q = rng.below(20)
            if q < 7:
                ops.append('find %d' % key())
            elif q < 15:
                ops.append('fol %d' % key())
            elif q < 17:
                ops.append('min')
            elif q < 18:
                ops.append('each')
            elif q < 19:
                ops.append('rm %d' % rng.range(-1, nid))       # possibly stale: must be rejected on both sides
            else:
                ops.append('upd %d %d' % (rng.range(-1, nid), key()))
    ops.append('each')
    return ops


MIXES = [[(6, 2, 2, 2)], [(5, 1, 1, 1), (1, 6, 1, 1)], [(3, 3, 3, 1)], [(8, 0, 1, 1), (0, 8, 1, 1)], [(2, 1, 6, 2)]]


def gen_unique_discipline(rng, length, dom):
    """the zone allocator's discipline: find before insert, no duplicate keys"""
    ops, live, nid = [], {}, 0
    for _ in range(length):
        r = rng.below(10)
        k = rng.range(0, dom)
        if r < 4:
            ops.append('find %d' % k)
            if k not in live.values():
                ops.append('ins %d' % k); live[nid] = k; nid += 1
        elif r < 6 and live:
            i = rng.choice(sorted(live)); del live[i]; ops.append('rm %d' % i)
        elif r < 9 and live:
            i = rng.choice(sorted(live))
            ops.append('upd %d %d' % (i, k))
            if k not in [v for j, v in live.items() if j != i]:
                live[i] = k
        else:
            ops.append('fol %d' % k)
    return ops


def exhaustive_small(n_keys, depth):
    """every sequence of `depth` calls over the alphabet {ins k | k in 1..n_keys} + {rm of the oldest / newest live node}
    + {upd oldest -> k}: complete enumeration of a finite space of short histories"""
    alpha = ['i%d' % k for k in range(1, n_keys + 1)] + ['ro', 'rn'] + ['u%d' % k for k in range(1, n_keys + 1)]
    cases = []
    for seq in itertools.product(alpha, repeat=depth):
        ops, live, nid, ok = [], [], 0, True
        for a in seq:
            if a[0] == 'i':
                ops.append('ins %s' % a[1:]); live.append(nid); nid += 1
            elif not live:
                ok = False; break
            elif a == 'ro':
                ops.append('rm %d' % live.pop(0))
            elif a == 'rn':
                ops.append('rm %d' % live.pop())
            else:
                ops.append('upd %d %s' % (live[0], a[1:]))
        if ok:
            cases.append(ops)
    return cases


def perms_then_each_single_op(n, rng, sample=None):
    """insert every permutation of n keys (10,20,..); for each distinct resulting shape (decided on the real tree),
    every single removal and every update of every node to every gap / existing key"""
    keys = [10 * (i + 1) for i in range(n)]
    perms = list(itertools.permutations(keys))
    if sample and len(perms) > sample:
        perms = [perms[rng.below(len(perms))] for _ in range(sample)]
    base = [['ins %d' % k for k in p] for p in perms]
    results, _, _, _ = pv.run_script(EXE, 'pv_C36', base, env=ENV, use_driver=False, timeout=600)
    shapes = {}
    for b, r in zip(base, results):
        if r['impl'] and len(r['impl']) == len(b):
            shapes.setdefault(' '.join(t.split(':')[0] for t in r['impl'][-1].split()[1:]), b)     # colours + keys, node ids ignored
    cases = []
    for shape, b in sorted(shapes.items()):
        for i in range(n):
            cases.append(b + ['rm %d' % i, 'each'])
            for k in range(5, 10 * n + 10, 5):
                cases.append(b + ['upd %d %d' % (i, k), 'fol %d' % (k - 1)])
        for i in range(n):
            for j in range(n):
                if i != j:
                    cases.append(b + ['rm %d' % i, 'rm %d' % j])
    return base, cases, len(shapes)


def load_corpus():
    cs = []
    d = os.path.join(pv.ROOT, 'corpus', PROP)
    if os.path.isdir(d):
        for f in sorted(os.listdir(d)):
            if f.endswith('.case'):
                cs.append([l.strip() for l in open(os.path.join(d, f)) if l.strip() and not l.startswith('#')])
    return cs


def impl_only(ops):
    return pv.run_script(EXE, 'pv_C36', [ops], env=ENV, use_driver=False, timeout=120)[0][0]


def oracle_fails_on(ops):
    r = impl_only(ops)
    return r['crashed'] or bool(oracle(r['ops'], r['impl']))


def many_oracle_fail(cands):
    rs = pv.run_script(EXE, 'pv_C36', cands, env=ENV, use_driver=False, timeout=300)[0]
    return [r['crashed'] or bool(oracle(r['ops'], r['impl'])) for r in rs]


def many_crash(cands):
    rs = pv.run_script(EXE, 'pv_C36', cands, env=ENV, use_driver=False, timeout=300)[0]
    return [r['crashed'] for r in rs]


def many_disagree(cands):
    rs = pv.run_script(EXE, 'pv_C36', cands, env=ENV, use_driver=True, timeout=300)[0]
    return [r['crashed'] or r['impl'] != (r['model'] or [])[:len(r['impl'])] or len(r['impl']) != len(r['ops']) for r in rs]


def ddmin_batch(items, failing_many, max_rounds=80):
    """delta debugging with all candidates of a round executed in one harness process (one `case` each)"""
    cur, n, rounds = list(items), 2, 0
    while len(cur) >= 2 and rounds < max_rounds:
        chunk = max(1, len(cur) // n)
        subsets = [cur[i:i + chunk] for i in range(0, len(cur), chunk)]
        cands = [[x for j, sset in enumerate(subsets) if j != i for x in sset] for i in range(len(subsets))]
        cands = [c for c in cands if c]
        rounds += 1
        hit = next((c for c, f in zip(cands, failing_many(cands)) if f), None)
        if hit is not None:
            cur, n = hit, max(n - 1, 2)
        elif n >= len(cur):
            break
        else:
            n = min(len(cur), n * 2)
    return cur


# ------------------------------------------------------------------ run
def run(ctx, res, cases=None):
    global EXE
    EXE = ctx.path('C36')
    ok, log = pv.cc_harness(os.path.join(pv.ROOT, 'harness', 'C36.c'), EXE, ctx.build, sanitize=True)
    if not ok:
        res.infra_errors.append('harness compile failed: ' + log[-1500:]); return
    rng = pv.Rng(ctx.seed)
    corpus = load_corpus()
    dist = {}
    exhaustive_note = ''
    if cases is None:
        cases = list(corpus)
        ex = exhaustive_small(2, 5 if ctx.quick else 6) + exhaustive_small(3, 4 if ctx.quick else 5)
        dist['exhaustive_short_histories'] = len(ex)
        cases += ex
        for n in ((4, 5, 6, 7) if ctx.quick else (4, 5, 6, 7, 8, 9)):
            base, pc, nshapes = perms_then_each_single_op(n, rng.fork(100 + n), sample=None if n <= 8 else 40000)
            dist['perm%d_shapes' % n] = nshapes
            dist['perm%d_cases' % n] = len(base) + len(pc)
            cases += base + pc
        nrand = 1500 if ctx.quick else 12000
        for k in range(nrand):
            r = rng.fork(k)
            dom = r.choice([2, 3, 5, 8, 16, 40, 100, 1000, 'extreme'])
            ln = r.range(3, 120 if ctx.quick else 400)
            if r.chance(1, 5):
                cases.append(gen_unique_discipline(r, ln, dom if dom != 'extreme' else 30))
            else:
                cases.append(gen_random(r, ln, dom, r.choice(MIXES)))
        # a few long histories on large trees
        for k in range(2 if ctx.quick else 12):
            r = rng.fork(10000 + k)
            cases.append(gen_random(r, 1500 if ctx.quick else 4000, r.choice([200, 100000]), [(6, 1, 1, 1), (1, 5, 2, 1)]))
        exhaustive_note = ('every call sequence of length %d over {ins 1,2; rm oldest/newest; upd oldest->1,2} and of length %d over 3 keys; '
                           'every insertion order of 4..%d distinct keys, then for every distinct resulting shape every single removal, every pair of removals and every update of every node to every gap/existing key; '
                           % ((5, 4, 7) if ctx.quick else (6, 5, 8)))
    results, stats, viols, (rc, err) = pv.run_script(EXE, 'pv_C36', cases, env=ENV, use_driver=ctx.driver_ok, timeout=1500)
    hist = {}
    nops = 0
    for k, r in enumerate(results):
        res.evaluations += 1
        nops += len(r['ops'])
        for o in r['ops']:
            hist[o.split()[0]] = hist.get(o.split()[0], 0) + 1
        if r['crashed']:
            pre = r['ops'][:len(r['impl']) + 1]
            small = ddmin_batch(pre, many_crash) if len(pre) < 2000 else pre
            res.violations.append({'key': 'crash:' + ' ; '.join(small[:40]), 'what': 'real code crashed / sanitizer abort / hang (rc=%s) in case %d after %d ops: %s' % (
                r.get('rc'), k, len(r['impl']), r.get('stderr', '')[-600:]), 'case': small})
            break
        fails = oracle(r['ops'], r['impl'], dist)
        if fails:
            small = ddmin_batch(r['ops'], many_oracle_fail)
            rs = impl_only(small)
            sf = oracle(rs['ops'], rs['impl']) or fails
            res.violations.append({'key': ' ; '.join(small), 'what': sf[0], 'case': small, 'impl': rs['impl'][-3:]})
        if ctx.driver_ok and r['impl'] != r['model']:
            small = ddmin_batch(r['ops'], many_disagree)
            rs = pv.run_script(EXE, 'pv_C36', [small], env=ENV, timeout=120)[0][0]
            first = next(({'op': o, 'impl': a, 'model': m} for o, a, m in zip(rs['ops'], rs['impl'], rs['model'] or []) if a != m), None)
            res.disagreements.append({'case': small, 'first_difference': first})
            # correspondence broke: does the property itself fail on this (shrunk) input?
            if oracle_fails_on(small) and not fails:
                sf = oracle(rs['ops'], rs['impl'])
                res.violations.append({'key': ' ; '.join(small), 'what': sf[0] if sf else 'oracle failure', 'case': small})
        muts = [x for o, x in zip(r['ops'], r['impl']) if o.split()[0] in ('ins', 'rm', 'upd') and x != 'rejected']
        if len(muts) >= 4 and any(x.count(':') >= 4 for x in muts):
            res.nontrivial(' ; '.join(r['ops']))
        if len(res.violations) + len(res.disagreements) >= 4:
            break
    for v in viols[:3]:
        if not res.violations:
            res.violations.append({'key': 'harness:' + v, 'what': v})
    if rc != 0 and not res.violations:
        res.violations.append({'key': 'harness-exit-%d' % rc, 'what': 'harness exited with %d: %s' % (rc, err[-600:])})
    # correspondence broken but no failing input yet: search harder (more seeds, long free-running histories)
    if res.disagreements and not res.violations:
        extra = []
        for k in range(300):
            r = pv.Rng(ctx.seed * 7919 + 17).fork(k)
            extra.append(gen_random(r, r.range(20, 600), r.choice([3, 8, 40, 1000]), r.choice(MIXES)))
        xr, _, _, _ = pv.run_script(EXE, 'pv_C36', extra, env=ENV, use_driver=False, timeout=900)
        for r in xr:
            res.evaluations += 1
            if r['crashed'] or oracle(r['ops'], r['impl']):
                pre = r['ops'][:len(r['impl']) + 1] if r['crashed'] else r['ops']
                small = ddmin_batch(pre, many_oracle_fail)
                rs = impl_only(small)
                sf = oracle(rs['ops'], rs['impl'])
                res.violations.append({'key': ' ; '.join(small), 'what': sf[0] if sf else 'crash of the real code', 'case': small})
                break
    res.traces_validated = len(results)
    res.rule = ('corpus cases first; then ' + exhaustive_note + 'then random histories (3..120 calls quick / 3..400 thorough; key domains 2..1000 and INT_MIN/INT_MAX; op mixes with grow/shrink phases, '
                'duplicate keys, stale node ids, and the allocator discipline find-before-insert) and a few long histories on large trees; all on the real API under ASan+UBSan, full tree '
                'compared after every call. distinct = distinct op sequence; non-trivial = at least 4 mutating calls took effect and the tree reached >= 4 nodes')
    rnd = [r for r in results if len(r['ops']) > 12]
    res.samples = [{'ops': r['ops'][:10], 'impl': r['impl'][:10]} for r in rnd[:2]] + [{'ops': r['ops'], 'impl': r['impl']} for r in results[:1]]
    dist.update({'op_histogram': hist, 'calls': nops, 'corpus_cases': len(corpus),
                 'rejected_calls': sum(r['impl'].count('rejected') for r in results)})
    res.extra['input_distribution'] = dist
    res.extra['exhaustive'] = False


def replay(ctx, res, data):
    cases = [v['case'] for v in data.get('violations', []) if 'case' in v] + [d['case'] for d in data.get('disagreements', []) if 'case' in d]
    run(ctx, res, cases=cases or None)
