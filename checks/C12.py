"""C12 — user-triggered termination reaches every process exactly once."""
import os, pv
PROP = 'C12'
LEAN_MODULE = 'ParsecVerif.Props.C12'
DRIVERS = ['pv_C12']
THEOREMS = ['ParsecVerif.C12.static_exactly_once', 'ParsecVerif.C12.dest_in_range', 'ParsecVerif.C12.all_reached',
            'ParsecVerif.C12.never_twice', 'ParsecVerif.C12.exactly_once', 'ParsecVerif.C12.progress',
            'ParsecVerif.C12.log_bounded']
IMPL = 'parsec/mca/termdet/user_trigger/termdet_user_trigger_module.c (signal_termination, msg_dispatch, taskpool_ready, set_nb_tasks)'
ASSUMPTIONS = ['ranks are < communicator size; 2n+2 < 2^31 so the C int arithmetic equals the Nat arithmetic of the model',
               'the comm engine delivers each sent active message exactly once (C14); here parsec_ce.send_am is a recording stub',
               'each process has its own delayed-message list (the harness swaps the global list per simulated process)']


def oracle_wave(op, impl):
    """exactly-once on the implementation's own output: receipts = all non-root ranks once."""
    _, n, root = op.split()
    n, root = int(n), int(root)
    got = [int(x) for x in impl.strip('[]').split()]
    want = [r for r in range(n) if r != root]
    return got == want


def run(ctx, res):
    exe = ctx.path('C12')
    ok, log = pv.cc_harness(os.path.join(pv.ROOT, 'harness', 'C12.c'), exe, ctx.build)
    if not ok:
        res.infra_errors.append('harness compile failed: ' + log[-1500:])
        return
    args = ['48', '400', '4096', '300', '96'] if ctx.quick else ['112', '20000', '4096', '4000', '600']
    ops, impl, model, stats = pv.differential(ctx, res, [exe] + args, 'pv_C12', env={'VERIF_SEED': str(ctx.seed)})
    nw = 0
    for o, i in zip(ops, impl):
        if o.startswith('wave'):
            nw += 1
            if not oracle_wave(o, i):
                res.violations.append({'key': o, 'what': 'real run of %s delivered notifications %s: not every non-root rank exactly once' % (o, i), 'case': o, 'seed': ctx.seed})
            res.nontrivial(o)
        elif i != '[]':
            res.nontrivial(o)
        else:
            # leaf: check the leaf really has no child in range according to the arithmetic of the property
            pass
    res.traces_validated = nw
    res.rule = ('sends n root me: exhaustive n<=%s, all roots, all ranks + %s sampled up to n=%s; wave n root: in-process run of the real monitors '
                'with PRNG delivery order and late-ready taskpools. distinct = distinct op line; non-trivial = rank with at least one child, or any wave' % (args[0], args[1], args[2]))
    res.samples = ['%s => %s' % (o, i) for o, i in list(zip(ops, impl))[-3:]] + ['%s => %s' % (o, i) for o, i in list(zip(ops, impl))[100:102]]
    res.extra['input_distribution'] = dict(stats, sends_ops=len(ops) - nw, wave_ops=nw)
    res.extra['exhaustive'] = False

ENGINE = 'lean-seq'
LEVEL = 'proof'
LEVEL_TEXT = ('Lean 4 theorems for every communicator size n, every root and every delivery order: each non-root rank receives exactly one '
              'notification and the root none (static count, reachability, and an inductive invariant over the delivery machine). The model mirrors '
              'parsec_termdet_signal_termination; it is tied to the current source on every run by executing the real module functions '
              '(send_am stubbed) exhaustively for n<=48 (quick) / n<=112 (thorough) x all roots x all ranks plus sampled sizes up to 4096, and by '
              'in-process waves of real monitors with random delivery order, compared line by line with the compiled Lean model.')
LEVEL_NOTE = ('Assumes: ranks < n, 2n+2 < 2^31, the comm engine delivers each sent message once (C14). Trusted: Lean kernel, axioms propext/Classical.choice/Quot.sound, '
              'the harness (stubbed send_am, per-process delayed list swapping), differential testing as the model-code tie.')
TECHNIQUE = 'Lean 4 proof (induction + inductive invariant over all delivery orders) on a hand-written model, tied by differential correspondence with the real functions'
