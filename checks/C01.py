"""C01 — every PTG task instance runs exactly once (enumeration / counting half + whole-program runs).

Structure (for the lead, who extends this plugin with the dataflow-machine theorems):
  * THEOREMS: append the new theorem names;
  * ACCEPTORS: list of functions (ctx, prog, g, cfg, ops, impl) -> list of disagreement dicts.  `model_acceptor` replays the
    transcript of a run (count, begin/end events, end) on the compiled Lean model pv_PTG; a trace acceptor over the generic
    dataflow machine is added by appending another function (the transcript format is in docs/notes/PTG.md);
  * ORACLES: list of functions (prog, g, cfg, ops, impl) -> list of failure strings: independent, written from the property text.
"""
import os, json, concurrent.futures
import pv, pvptg, ptg_gen, pvptgrt
PROP = 'C01'
LEAN_MODULE = 'ParsecVerif.Props.C01'
DRIVERS = ['pv_PTG', 'pv_PTGRT']
THEOREMS = ['ParsecVerif.C01.C01_space_nodup', 'ParsecVerif.C01.C01_instances_nodup', 'ParsecVerif.C01.C01_space_eq_constraints',
            'ParsecVerif.C01.C01_count', 'ParsecVerif.C01.C01_local_instances_nodup', 'ParsecVerif.C01.C01_local_partition',
            'ParsecVerif.C01.C01_startup_partial', 'ParsecVerif.C01.C01_startup_full_false', 'ParsecVerif.C01.negstep_startup_creates_nothing',
            'ParsecVerif.C01.negstep0_startup_diverges', 'ParsecVerif.C01.negstep_target_dropped',
            'ParsecVerif.Ptg.nodup_enumSem', 'ParsecVerif.Ptg.mem_enumSem_iff', 'ParsecVerif.Ptg.startupSem_eq',
            # runtime half: the abstract runtime (generic dataflow machine) on the task graph of the program
            'ParsecVerif.C01.C01_graph_wf', 'ParsecVerif.C01.C01_exactly_once', 'ParsecVerif.C01.C01_never_twice', 'ParsecVerif.C01.C01_no_deadlock',
            'ParsecVerif.C01.C01_terminates', 'ParsecVerif.PtgRt.graphOf_WF', 'ParsecVerif.PtgRt.log_nodes_lt',
            'ParsecVerif.Runtime.completes_at_most_once', 'ParsecVerif.Runtime.quiescent_all_once', 'ParsecVerif.Runtime.maximal_run_is_quiescent',
            'ParsecVerif.Runtime.deadlock_free', 'ParsecVerif.Runtime.step_decreases', 'ParsecVerif.Runtime.only_graph_nodes_run']
IMPL = ('parsec/interfaces/ptg/ptg-compiler/jdf2c.c (jdf_generate_internal_init, jdf_generate_startup_tasks, jdf_generate_direct_input_conditions, successor iterator) '
        '+ the runtime executing the generated programs (parsec/parsec.c, parsec/scheduling.c)')
ENGINE = 'lean-trace'
LEVEL = 'proof'
LEVEL_TEXT = ('Lean 4 theorems, for every program of the JDF AST and arbitrary range functions. Enumeration half: the execution space enumerated by the generated internal_init has no duplicates (within and '
              'across classes), equals the set of local assignments satisfying the range constraints, the announced number of tasks equals the number of local instances for every rank / process count, '
              'every instance is local to exactly one rank, and — with positive steps — the generated startup function creates exactly the startup instances, once each. Runtime half: the task graph '
              'graphOf p of every WellFormed program (decidable: startup function = startup subset of the space, out-edges of the successor iterators = in-edges named by the consumers, inside the space, '
              'forward in enumeration order) is a well-formed dataflow graph (C01_graph_wf), hence for EVERY scheduler choice, worker count, AGAIN pattern and interleaving of the abstract runtime '
              '(ready / running / ended, one release transition per dependency): in every maximal run every instance of the space has completed exactly once and every event of the trace belongs to an '
              'instance of the space (C01_exactly_once); at no moment has an instance completed twice (C01_never_twice); a run that is not complete can be extended (C01_no_deadlock) and every transition '
              'decreases a natural measure (C01_terminates). The UNRESTRICTED statement is proved FALSE of the generated code for negative steps (C01_startup_full_false and witnesses, replayed on the real '
              'code on every run; known finding): such programs are outside WellFormed. Tie: whole-program runs of generated programs; every trace is replayed on the model (pv_PTG) and accepted step by '
              'step by the dataflow machine of graphOf p (pv_PTGRT).')
LEVEL_NOTE = ('Theorem: enumeration / counting / startup enumeration, and exactly-once for all schedules of the ABSTRACT runtime on the program\'s graph. The per-dependency-word step "exactly one release sees '
              'the word complete" is C07\'s theorem; the chunked startup re-entry is C16_startup_chunks. Sampling: every run of the real runtime (schedules are whatever the OS gives; 3 configurations x 2 '
              'chunk settings in the quick tier). Not covered: user-defined startup/make_key functions, local-index definitions, %option, GPU chores, recursive tasks, multi-rank runs (C05). '
              'Trusted: Lean kernel, propext/Classical.choice/Quot.sound, generator (JDF text and AST from one value; validated per case), harness/ptg_rt.c.')
TECHNIQUE = 'Lean 4 proofs about the enumeration semantics of the generated code + differential whole-program runs with a begin/end trace acceptor'
ASSUMPTIONS = ['task bodies terminate and are test-owned (they only log and move small integers)', 'values fit int32', 'single process (multi-rank is C05)']

KNOWN_NEGSTEP_KEY = 'negative-step-range-never-scheduled'


# ------------------------------------------------------------------ acceptors and oracles
def model_acceptor(ctx, prog, g, cfg, ops, impl):
    m = pvptg.Model(prog, g)
    model = m.ask(ops) if ops else []
    return pv.compare(ops, impl, model)[:5]


def oracle_exactly_once(prog, g, cfg, ops, impl):
    """the property statement on the implementation's own trace: every instance of the declared execution space (all local on one
    process) ran exactly once, nothing else ran, the announced count is the size of the space, the taskpool completed, and every
    instance began only after all the producers it names had ended"""
    fails = []
    evs = pvptg.events_of(ops)
    begun, ended = {}, {}
    order = {}
    for i, (k, c, env, th) in enumerate(evs):
        d = begun if k == 'B' else ended
        d[(c, env)] = d.get((c, env), 0) + 1
        order[(k, c, ptg_gen.params_of(prog, c, env))] = i
    decl = set()
    for c in range(len(prog.classes)):
        decl |= {(c, e) for e in ptg_gen.declared_space(prog, g, c)}
    for t in decl:
        if begun.get(t, 0) != 1 or ended.get(t, 0) != 1:
            fails.append('%s ran %d time(s) (ended %d)' % (ptg_gen.inst_name(prog, t[0], t[1]), begun.get(t, 0), ended.get(t, 0)))
            if len(fails) > 3:
                break
    extra = [t for t in begun if t not in decl]
    if extra:
        fails.append('%d executed instance(s) outside the declared space, e.g. class %d locals %s' % (len(extra), extra[0][0], list(extra[0][1])))
    for o, r in zip(ops, impl):
        if o.startswith('count') and int(r) != len(decl):
            fails.append('announced %s local tasks, the declared space has %d' % (r, len(decl)))
        if o == 'end' and r != 'complete':
            fails.append('taskpool did not complete: ' + r)
    for (c, env) in decl:
        bi = order.get(('B', c, ptg_gen.params_of(prog, c, env)))
        if bi is None:
            continue
        for (pc, pp) in ptg_gen.declared_preds(prog, g, c, env):
            ei = order.get(('E', pc, pp))
            if ei is None or ei > bi:
                fails.append('%s began before its producer %s%s ended' % (ptg_gen.inst_name(prog, c, env), prog.classes[pc]['name'], list(pp)))
                break
    return fails


def rt_acceptor(ctx, prog, g, cfg, ops, impl):
    """the begin / end trace must be accepted step by step by the dataflow machine of graphOf p (every start enabled: the node is
    ready after saturating the releases of the nodes that have ended; every end of a running node; quiescent at the end)"""
    if has_nonpositive_const_step(prog):
        return []          # outside WellFormed (known finding): the machine theorem does not speak about these programs
    tr = pvptgrt.parse_events('\n'.join('%s => %s' % (o, r) for o, r in zip(ops, impl)))
    c = {'iter': cfg[2], 'chunk': cfg[3]}
    rops, rimpl = pvptgrt.rt_ops(prog, g, tr, c, with_data=False)
    return pvptgrt.compare_rt(rops, rimpl, strip_data=True)[:5]


ACCEPTORS = [model_acceptor, rt_acceptor]
ORACLES = [oracle_exactly_once]


# ------------------------------------------------------------------ cases
def load_corpus():
    d = os.path.join(pv.ROOT, 'corpus', PROP)
    out = []
    if os.path.isdir(d):
        for f in sorted(os.listdir(d)):
            if f.endswith('.case'):
                p = ptg_gen.Program.from_case(open(os.path.join(d, f)).read())
                p.name = 'c' + f[:3]
                out.append(p)
    return out


def has_derived_param(p):
    return any(l['kind'] == 'D' and l['param'] for c in p.classes for l in c['locals'])


def has_nonpositive_const_step(p):
    return any(l['kind'] == 'R' and l['step'][0] == 'c' and l['step'][1] <= 0 for c in p.classes for l in c['locals'])


def configs(ctx, rng):
    """(scheduler, threads, startup_iter, startup_chunk)"""
    if ctx.quick:
        base = [('lfq', 4), ('ap', 1), ('rnd', 16)]
        chunks = [(64, 256), (1, 1)]
        return [(s, t, i, c) for (s, t) in base for (i, c) in chunks]
    out = []
    for s in pvptg.SCHEDS:
        for t in (1, 2, 4, 16):
            i, c = rng.choice([(64, 256), (1, 1), (2, 2), (7, 3), (1, 256), (256, 1)])
            out.append((s, t, i, c))
    return out


def one_run(ctx, prog, g, exe, backend, cfg):
    sched, threads, it, ch = cfg
    expect_neg = has_nonpositive_const_step(prog)
    r = {'fails': [], 'dis': [], 'crash': None, 'n': 0, 'known': []}
    rc, out, err = pvptg.run_exe(exe, g, threads=threads, sched=sched, timeout_ms=700 if expect_neg else 20000,
                                 extra_env={'PARSEC_MCA_task_startup_iter': str(it), 'PARSEC_MCA_task_startup_chunk': str(ch), 'PTG_FAST_EXIT': '1'})
    ops, impl, stats, viols = pv.parse_transcript(out)
    r['n'] = len(ops)
    if rc not in (0, 3) or not ops:
        msg = 'exit %s after %d transcript lines: %s' % (rc, len(ops), err[-500:])
        if expect_neg:       # e.g. corpus 003 under index-array: the runaway startup loop creates T(-1), T(-2).. outside the dependency array
            r['known'] = ['negative-step program crashed: ' + msg]
            return r
        # a crash of a valid program: re-run the same configuration to see whether it reproduces (a violation with its
        # reproduction rate) or was a one-off on a loaded machine (reported in the evidence, full stderr kept)
        again = 0
        tries = 6
        for _ in range(tries):
            rc2, out2, err2 = pvptg.run_exe(exe, g, threads=threads, sched=sched, timeout_ms=20000,
                                            extra_env={'PARSEC_MCA_task_startup_iter': str(it), 'PARSEC_MCA_task_startup_chunk': str(ch), 'PTG_FAST_EXIT': '1'})
            again += rc2 not in (0, 3)
            if again:
                break
        log = os.path.join(os.path.dirname(exe), 'crash-%s-%s.stderr' % (sched, threads))
        open(log, 'w').write(err)
        if again:
            r['crash'] = msg + ' [reproduced %d/%d]' % (again, tries)
        else:
            r['oneoff'] = 'rc=%s %s threads=%s chunk=%s/%s, not reproduced in %d re-runs; stderr in %s: %s' % (rc, sched, threads, it, ch, tries, log, err[-300:])
        return r
    if len(ops) > 3000:      # a runaway program (corpus 003): keep the prefix
        ops, impl = ops[:3000] + [ops[-1]], impl[:3000] + [impl[-1]]
    for acc in ACCEPTORS:
        r['dis'] += acc(ctx, prog, g, cfg, ops, impl)
    for orc in ORACLES:
        r['fails'] += orc(prog, g, cfg, ops, impl)
    if expect_neg and r['fails']:
        # the known finding explains: instances that never ran, no completion, runaway instances outside the space;
        # anything else (e.g. a wrong announced count) stays a failure of its own
        kn = [f for f in r['fails'] if ' ran 0 time(s)' in f or f.startswith('taskpool did not complete') or 'outside the declared space' in f]
        r['known'], r['fails'] = kn, [f for f in r['fails'] if f not in kn]
        # what the model says about a negative-step program is still compared, except the final verdict line
        r['dis'] = [d for d in r['dis'] if d.get('op') != 'end' and not str(d.get('model', '')).startswith('bad:not-in-space')]
    return r


def run(ctx, res, cases=None):
    rng = pv.Rng(ctx.seed)
    corpus = load_corpus()
    if cases is None:
        n = 10 if ctx.quick else 30
        k = (n * 2) // 5
        progs = corpus + ptg_gen.gen_programs(rng, n - k, 'full', 'p') + ptg_gen.gen_programs(rng.fork(4242), k, 'full', 'q', derived_params=False)
    else:
        progs = cases
    # the index-array back-end cannot hold parameters defined by expressions (compile error / assertion in find_deps: docs/notes/PTG.md)
    wanted = [(p, b) for p in progs for b in pvptg.BACKENDS if b == pvptg.BACKENDS[0] or not has_derived_param(p)]
    pv.mpi_flags()
    built = pvptgrt.build_all(ctx, wanted)      # compiled programs are cached under .work/ptgcache (shared with C02 / C16)
    cfgs = configs(ctx, rng)
    work = []
    wf_count = {'true': 0, 'false': 0}
    stats_lines = []
    for p in progs:
        for g in (p.gvecs[:2] if ctx.quick else p.gvecs):
            m = pvptg.Model(p, g)
            wf, st = m.ask(['wf', 'stats'] + ['hyps %d' % c for c in range(len(p.classes))])[:2]
            wf_count[wf] = wf_count.get(wf, 0) + 1
            stats_lines.append(st)
            if wf != 'true' and not has_nonpositive_const_step(p):
                res.disagreements.append({'op': 'wf', 'impl': 'generator claims validity by construction', 'model': 'WellFormed = false',
                                          'case': json.loads(p.to_case({'gvecs': [list(g)]}))})
            for (pp, b) in wanted:
                if pp is not p:
                    continue
                exe, log = built[(p.name, b)]
                if exe is None:
                    res.infra_errors.append('program %s does not build with %s: %s' % (p.name, b, log[-600:]))
                    continue
                sel = cfgs if (ctx.quick or len(cfgs) <= 6) else [cfgs[(rng.below(len(cfgs)))] for _ in range(4)]
                if ctx.quick and b != pvptg.BACKENDS[0]:
                    sel = sel[:2]
                for cfg in sel:
                    work.append((p, g, exe, b, cfg))
    # the re-entry logic of the startup generator on a class with MORE startup tasks than task_startup_chunk:
    # iter in {0,1,2,3} x chunk in {1,2,3,7} on corpus/C16/001 (30 startup instances); a restarted / skipped enumeration shows up
    # as instances that ran twice / never in oracle_exactly_once and as a rejected event in both acceptors
    if cases is None:
        try:
            sp = pvptgrt.many_startup_program()
            sexe, slog = pvptgrt.build_cached(ctx, sp, pvptg.BACKENDS[0])
            if sexe is None:
                res.infra_errors.append('startup-sweep program does not build: ' + slog[-400:])
            else:
                progs = progs + [sp]
                work = [(sp, sp.gvecs[0], sexe, pvptg.BACKENDS[0], (c['sched'], c['threads'], c['iter'], c['chunk'])) for c in pvptgrt.startup_sweep()] + work
        except Exception as e:
            res.infra_errors.append('startup sweep: %r' % e)
    results = []
    bad = 0
    with concurrent.futures.ThreadPoolExecutor(max_workers=5) as ex:
        futs = [ex.submit(one_run, ctx, p, g, exe, b, cfg) for (p, g, exe, b, cfg) in work]
        for w, f in zip(work, futs):
            if bad >= 6:            # enough failing runs to report: do not start the remaining ones
                f.cancel()
                continue
            try:
                r = f.result()
                results.append((w, r))
                bad += bool(r['crash'] or r['fails'] or r['dis'])
            except concurrent.futures.CancelledError:
                pass
            except Exception as e:
                res.infra_errors.append('run %s %s %s raised %r' % (w[0].name, w[1], w[4], e))
    hist = {'sched': {}, 'threads': {}, 'chunk': {}, 'backend': {}}
    known_n = 0
    for (p, g, exe, b, cfg), r in results:
        res.evaluations += r['n']
        case = json.loads(p.to_case({'gvecs': [list(g)], 'config': list(cfg), 'backend': b}))
        for k, v in (('sched', cfg[0]), ('threads', cfg[1]), ('chunk', '%d/%d' % (cfg[2], cfg[3])), ('backend', b)):
            hist[k][str(v)] = hist[k].get(str(v), 0) + 1
        if r.get('oneoff'):
            res.extra.setdefault('unreproduced_crashes', []).append({'program': p.ser(g)[:200], 'what': r['oneoff']})
            res.notes.append('one unreproduced crash of a generated program (see coverage.unreproduced_crashes)')
            continue
        if r['crash']:
            res.violations.append({'key': 'crash:%s' % p.ser(g)[:300], 'what': 'generated program crashed: ' + r['crash'], 'case': case})
            continue
        for d in r['dis']:
            d = dict(d); d['case'] = case
            res.disagreements.append(d)
        if r['fails']:
            res.violations.append({'key': 'C01:%s:%s' % (cfg, p.ser(g)[:300]), 'what': r['fails'][0], 'all_failures': r['fails'][:5], 'case': case})
        if r['known']:
            known_n += 1
            if not any(v['key'] == KNOWN_NEGSTEP_KEY for v in res.violations):
                res.violations.append({'key': KNOWN_NEGSTEP_KEY, 'what': r['known'][0], 'all_failures': r['known'][:5], 'case': case})
        if not r['dis'] and not r['fails']:
            res.traces_validated += 1
        if r['n'] > 6:
            res.nontrivial('%s|%s|%s|%s' % (p.ser(g), b, cfg, ''))
        if len(res.violations) + len(res.disagreements) > 12:
            break
    feat = {}
    for p in progs:
        for k, v in p.features().items():
            feat[k] = feat.get(k, 0) + v
    res.rule = ('corpus programs first, then random valid programs (gen/ptg_gen.py mode "full": 1-4 classes, 1-3 range parameters, constant and expression steps, derived locals and '
                'parameters, guards, data and CTL chains, cross-class fan-out ranges, NEW/NULL, priorities; 40% without expression-defined parameters so that the index-array back-end '
                'is exercised too), each compiled by the current ptgpp and run with 3 vectors of globals under (scheduler, threads, startup_iter, startup_chunk) configurations; '
                'one evaluation = one transcript line (announced count, one begin or end event, completion); distinct = distinct (program, globals, back-end, configuration); '
                'non-trivial = at least 3 task instances executed')
    res.samples = [{'program': w[0].ser(w[1])[:300], 'globals': list(w[1]), 'backend': w[3], 'config': list(w[4]), 'transcript_lines': r['n']} for w, r in results[:4]]
    res.extra['input_distribution'] = {'programs': len(progs), 'corpus': len(corpus), 'runs': len(results), 'wellformed': wf_count, 'features': feat,
                                       'configurations': hist, 'model_stats_first': stats_lines[:6], 'runs_reproducing_known_negstep_finding': known_n}


def replay(ctx, res, data):
    cases = []
    for v in data.get('violations', []) + data.get('disagreements', []):
        if 'case' in v:
            p = ptg_gen.Program.from_case(v['case'])
            p.name = 'r%d' % len(cases)
            cases.append(p)
    run(ctx, res, cases=cases or None)
