"""C28 — the zone allocator is a correct best-fit allocator."""
import os, json, pv
PROP = 'C28'
LEAN_MODULE = 'ParsecVerif.Props.C28'
DRIVERS = ['pv_C28']
THEOREMS = ['ParsecVerif.C28.C28_inv', 'ParsecVerif.C28.C28_walk', 'ParsecVerif.C28.C28_in_zone_aligned',
            'ParsecVerif.C28.C28_disjoint', 'ParsecVerif.C28.C28_fails_only_if_no_run', 'ParsecVerif.C28.C28_best_fit',
            'ParsecVerif.C28.C28_free_merges', 'ParsecVerif.C28.C28_in_use', 'ParsecVerif.C28.C28_free_accepted',
            'ParsecVerif.C28.C28_refused_free_noop', 'ParsecVerif.C28.C28_bytes',
            'ParsecVerif.C28.C28_truncated_request_succeeds_buggy', 'ParsecVerif.C28.C28_huge_request_null']
IMPL = 'parsec/utils/zone_malloc.c'
ENGINE = 'lean-seq'
LEVEL = 'proof'
LEVEL_TEXT = ('Lean 4 theorems for every zone size, every unit size and every sequence of zone_malloc / zone_free calls (frees of live allocations, plus the frees the code itself refuses): '
              'inductive invariant C28_inv (the walked segment table tiles the zone, back-pointers are consistent, no two adjacent free segments, the free lists hold exactly the free '
              'segments keyed by size in a strictly sorted map with non-empty lists, the FULL segments are exactly the allocations handed out and not yet freed) and its consequences: '
              'returned blocks lie inside the zone at a multiple of the unit and are pairwise disjoint from every live allocation, zone_malloc fails only if NO window of the requested '
              'number of units is free of live allocations (completeness, uses the coalescing invariant), it picks a free run of the smallest sufficient size (best fit), zone_in_use equals '
              'unit * sum of live units, refused frees change nothing.  The model mirrors zone_malloc.c branch by branch (split, in-place re-keying of an emptied chunk list vs retire, '
              'prev/next merge with reuse_fl) including stale interior table entries; it is tied to the current source on every run: the real allocator on a host buffer under ASan/UBSan, '
              'every returned offset, zone_in_use, the walked segment table and the in-order free lists compared line by line with the compiled Lean model, on an exhaustive breadth-first '
              'exploration of all reachable states/transitions of small zones and on random histories; an independent ledger-based oracle of the property statement is evaluated on the '
              'implementation outputs.  The byte-level statement (C28_bytes) holds for every request size since the repair 6e3ff3b of a genuine defect found by this check (int truncation of the unit count); the pre-repair computation is kept as reqUnitsBuggy with its witness theorem.')
LEVEL_NOTE = ('The rb-tree is abstracted as a sorted association list (find / find_or_larger / insert / remove / update_node have their '
              'sorted-map meaning; that is property C36); the pool of retired tree nodes (rbtree_free_list) is not modelled.  Calls are atomic (each runs under the zone lock); '
              'concurrent use is covered only through that lock.  Frees of addresses that are neither live, nor outside the table, nor marked EMPTY are outside the API precondition and are not issued. '
              'Trusted: Lean kernel, propext/Classical.choice/Quot.sound, the harness, differential testing as tie.')
TECHNIQUE = 'Lean 4 proof (refinement of the table + free lists to a list of runs, inductive invariant over all call histories) on a hand-written model, tied by differential correspondence with the real allocator'
ASSUMPTIONS = ['calls are atomic w.r.t. each other (zone lock)', 'zone_free is called with live allocation bases or with addresses the code itself refuses',
               'max_segment >= 1, unit_size >= 1, size < 2^64']


# ---------------------------------------------------------------- the property statement as an executable oracle
def oracle(ops, impl):
    """Ledger-based check of the property statement on the implementation's outputs.
    Returns list of (class, text)."""
    fails = []
    N = U = None
    live = {}     # unit index -> (units needed, size)

    def gaps():
        g, t = [], 0
        for a in sorted(live):
            if a > t:
                g.append((t, a - t))
            t = max(t, a + live[a][0])
        if N is not None and t < N:
            g.append((t, N - t))
        return g

    for o, r in zip(ops, impl):
        w = o.split()
        if r in ('rejected', 'bad-op', '<no-result>') or not w:
            continue
        if w[0] == 'init':
            if r == 'ok':
                N, U, live = int(w[1]), int(w[2]), {}
            continue
        if N is None:
            continue
        rw = r.split()
        if w[0] == 'malloc':
            size = int(w[1])
            need = (size + U - 1) // U
            gs = gaps()
            if rw[0] == 'null':
                if need > 0 and any(l >= need for _, l in gs):
                    fails.append(('fail-with-room', '%s: returned NULL although a free run of %d units exists (free runs %s)' % (o, need, gs)))
            else:
                off = int(rw[0])
                if size == 0:
                    fails.append(('zero', '%s: zero-size request returned a block' % o))
                if off % U != 0:
                    fails.append(('align', '%s: offset %d not a multiple of the unit %d' % (o, off, U)))
                if off + size > N * U:
                    fails.append(('outside', '%s: block [%d,%d) of %d units not inside the zone of %d bytes' % (o, off, off + size, need, N * U)))
                    need = min(need, N)     # keep the ledger usable
                a = off // U
                for b, (l, _) in live.items():
                    if a < b + l and b < a + need:
                        fails.append(('overlap', '%s: block at unit %d (+%d) overlaps the live allocation at unit %d (+%d)' % (o, a, need, b, l)))
                inside = [(s, l) for s, l in gs if s <= a and a + need <= s + l]
                if inside:
                    best = min(l for _, l in gs if l >= need)
                    if inside[0][1] != best:
                        fails.append(('best-fit', '%s: took a free run of %d units while one of %d units suffices (free runs %s)' % (o, inside[0][1], best, gs)))
                live[a] = (need, size)
        elif w[0] in ('free', 'freei'):
            off = int(w[1]) if w[0] == 'free' else int(rw[1])
            if rw[0] == 'ok':
                if off % U == 0 and off // U in live:
                    del live[off // U]
                else:
                    fails.append(('free', '%s: harness freed offset %d which the ledger does not hold' % (o, off)))
        if w[0] in ('malloc', 'free', 'freei'):
            use = int(rw[rw.index('use') + 1])
            want = U * sum(l for l, _ in live.values())
            if use != want:
                fails.append(('in-use', '%s: zone_in_use = %d, live allocations sum to %d bytes' % (o, use, want)))
        if w[0] == 'dump':
            segpart, flpart = r.split('|')
            segs = [tuple(int(x) for x in e.split(':')) for e in segpart.split()[1:] if e != 'stuck']
            if 'stuck' in segpart:
                fails.append(('table', '%s: table walk does not terminate: %s' % (o, segpart)))
            t, pv_, prev_status = 0, 1, None
            for (tid, st, un, pr) in segs:
                if tid != t or un <= 0 or st not in (1, 2) or pr != pv_:
                    fails.append(('table', '%s: segment table inconsistent at %d:%d:%d:%d (expected tid %d, prev %d)' % (o, tid, st, un, pr, t, pv_)))
                    break
                if st == 1 and prev_status == 1:
                    fails.append(('unmerged', '%s: two adjacent free segments at unit %d: %s' % (o, tid, segpart.strip())))
                t, pv_, prev_status = tid + un, un, st
            else:
                if t != N:
                    fails.append(('table', '%s: segments cover %d units of %d' % (o, t, N)))
            full = {tid: un for (tid, st, un, pr) in segs if st == 2}
            if full != {a: l for a, (l, _) in live.items()}:
                fails.append(('table', '%s: FULL segments %s differ from the live allocations %s' % (o, full, {a: l for a, (l, _) in live.items()})))
            fl, keys = [], []
            body = flpart.strip()[2:].strip()
            if body:
                for ent in body.replace('] ', ']\n').split('\n'):
                    k, lst = ent.split(':')
                    keys.append(int(k))
                    ids = lst.strip('[]').split()
                    if not ids:
                        fails.append(('freelist', '%s: empty chunk list left in the tree for size %s' % (o, k)))
                    fl += [(int(k), int(x)) for x in ids]
            if keys != sorted(set(keys)):
                fails.append(('freelist', '%s: tree keys not strictly increasing: %s' % (o, keys)))
            if sorted(fl) != sorted((un, tid) for (tid, st, un, pr) in segs if st == 1):
                fails.append(('freelist', '%s: free lists %s differ from the free segments of the table %s' % (o, sorted(fl), segpart.strip())))
    return fails


# ---------------------------------------------------------------- generators
UNITS = [1, 1, 2, 3, 4, 8, 16, 64, 512]


def gen_case(rng, length, big):
    r = rng.below(10)
    if big and r < 3:
        n = rng.range(64, 2000)
    elif r < 6:
        n = rng.range(1, 16)
    else:
        n = rng.range(8, 64)
    u = rng.choice(UNITS)
    ops = ['init %d %d' % (n, u), 'dump']
    every = 1 if n <= 64 else rng.range(2, 9)
    maxneed = max(1, n // rng.choice([1, 2, 3, 4, 6, 8]))
    fill = rng.range(30, 75)     # percentage of mallocs among malloc/free
    for i in range(length):
        r = rng.below(1000)
        if r < 10 * fill:
            q = rng.below(100)
            if q < 84:
                need = rng.range(1, maxneed)
            elif q < 88:
                need = 0
            elif q < 94:
                need = rng.range(n, n + 2)
            elif q < 97:
                need = rng.choice([1, 2, n])
            elif q < 99:
                need = 2 ** 32 * rng.range(1, 3) + rng.range(1, 3)    # int truncation of the unit count
            else:
                need = rng.choice([2 ** 31 - 1, 2 ** 31, 2 ** 31 + 1, 2 ** 32 - 1, 2 ** 32, (2 ** 64 - 1) // u])   # once negative as an int
            size = need * u - (rng.below(u) if need > 0 else 0)
            if size >= 2 ** 64:
                size = 2 ** 64 - 1 - rng.below(u)
            ops.append('malloc %d' % size)
        elif r < 950:
            ops.append('freei %d' % rng.below(12))
        else:
            q = rng.below(4)
            off = rng.range(0, n + 1) * u if q else rng.range(0, (n + 1) * u)
            ops.append('free %d' % off)      # mostly not live: refused by the code, or outside the precondition
        if (i + 1) % every == 0:
            ops.append('dump')
    ops.append('dump')
    return ops


def load_corpus():
    cs = []
    d = os.path.join(pv.ROOT, 'corpus', PROP)
    if os.path.isdir(d):
        for f in sorted(os.listdir(d)):
            if f.endswith('.case'):
                cs.append([l.strip() for l in open(os.path.join(d, f)) if l.strip() and not l.startswith('#')])
    return cs


def judge(ctx, res, exe, env, r, hist, shrink=True, fast=None):
    """compare one executed case with the model and the oracle; returns False when the case crashed"""
    res.evaluations += 1
    for o in r['ops']:
        hist[o.split()[0]] = hist.get(o.split()[0], 0) + 1
    if r['crashed']:
        res.violations.append({'key': 'crash:' + ' ; '.join(r['ops'][:len(r['impl']) + 1]),
                               'what': 'real code crashed / sanitizer abort (rc=%s) after %d ops: %s' % (r.get('rc'), len(r['impl']), r.get('stderr', '')[-400:]),
                               'case': r['ops'][:len(r['impl']) + 1]})
        return False
    fails = oracle(r['ops'], r['impl'])
    other = fails
    fast = fast or exe      # shrinking runs the un-instrumented build: process start-up of the ASan build is ~1 s
    if other:
        def bad(ops):
            rr = pv.run_script(fast, 'pv_C28', [ops], env=env, use_driver=False, timeout=60)[0][0]
            return rr['crashed'] or bool(oracle(ops, rr['impl']))
        small = pv.ddmin(r['ops'], bad, max_tests=200) if shrink else r['ops']
        rr = pv.run_script(exe, 'pv_C28', [small], env=env, use_driver=False, timeout=60)[0][0]
        sf = oracle(small, rr['impl']) or other
        res.violations.append({'key': ' ; '.join(small), 'what': sf[0][1], 'case': small, 'all_failures': [f[1] for f in sf[:5]]})
    if ctx.driver_ok and r['impl'] != r['model']:
        small = pv.ddmin(r['ops'], lambda ops: pv.case_disagrees(fast, 'pv_C28', ops, env=env), max_tests=120) if shrink else r['ops']
        rs = pv.run_script(exe, 'pv_C28', [small], env=env, timeout=60)[0][0]
        res.disagreements.append({'case': small, 'impl': rs['impl'], 'model': rs['model']})
    return True


def bfs_all(ctx, res, exe_plain, exe_san, env, plans, hist):
    """Exhaustive breadth-first exploration of the reachable states of small zones: from every state
    reached, every malloc of 0..n+1 units and every free of a unit-aligned offset 0..n*u (live, refused or
    rejected) is executed on the real code (one case = path + op + dump).  States are identified by the
    dump (walked table + free lists), which determines the live set.  The exploration itself runs the
    un-instrumented build of the harness (process start-up of the ASan build dominates otherwise), all plans
    level by level in one process per level; afterwards EVERY explored transition is re-executed in one
    run of the ASan/UBSan build and judged there (model comparison + oracle)."""
    st = [{'n': n, 'u': u, 'depth': d, 'max': ms, 'frontier': [['init %d %d' % (n, u)]], 'seen': set(),
           'states': 0, 'transitions': 0, 'complete': True, 'done': False} for (n, u, d, ms) in plans]
    allcases = []
    depth = 0
    while any(not p['done'] for p in st):
        cases, owner = [], []
        for pi, p in enumerate(st):
            if p['done']:
                continue
            n, u = p['n'], p['u']
            if depth == 0:
                cases.append(p['frontier'][0] + ['dump']); owner.append(pi)
            for path in p['frontier']:
                for need in range(0, n + 2):
                    cases.append(path + ['malloc %d' % (need * u - (u - 1 if need and (need + len(path)) % 2 else 0)), 'dump']); owner.append(pi)
                for t in range(0, n + 1):
                    cases.append(path + ['free %d' % (t * u), 'dump']); owner.append(pi)
            p['frontier'] = []
        if not cases:
            break
        results = pv.run_script(exe_plain, 'pv_C28', cases, env=env, use_driver=False, timeout=600)[0]
        allcases += cases
        for r, pi in zip(results, owner):
            p = st[pi]
            p['transitions'] += 1
            if r['crashed'] or len(r['impl']) < 2:
                p['complete'] = False
                continue
            last = r['impl'][-2]
            if last.startswith('rejected') or last.startswith('null') or last.startswith('noop'):
                continue
            key = r['impl'][-1]
            if key not in p['seen']:
                p['seen'].add(key)
                p['states'] += 1
                res.nontrivial('bfs n=%d u=%d %s' % (p['n'], p['u'], key))
                if len(r['ops']) > 2:
                    p['frontier'].append(r['ops'][:-1])
        depth += 1
        for p in st:
            if p['done']:
                continue
            if not p['frontier']:
                p['done'] = True
            elif depth > p['depth'] or p['states'] > p['max']:
                p['done'] = True
                p['complete'] = False
    # every explored transition once more, instrumented, judged against the model and the oracle
    results = pv.run_script(exe_san, 'pv_C28', allcases, env=env, use_driver=ctx.driver_ok, timeout=1500)[0]
    for r in results:
        if not judge(ctx, res, exe_san, env, r, hist, fast=exe_plain):
            break
        res.traces_validated += 1
        if len(res.violations) + len(res.disagreements) >= 5:
            break
    return [{'units': p['n'], 'unit_size': p['u'], 'depth_bound': p['depth'], 'states': p['states'],
             'transitions': p['transitions'], 'complete_state_space': p['complete']} for p in st]


def run(ctx, res, cases=None):
    exe = ctx.path('C28')
    ok, log = pv.cc_harness(os.path.join(pv.ROOT, 'harness', 'C28.c'), exe, ctx.build, sanitize=True)
    if not ok:
        res.infra_errors.append('harness compile failed: ' + log[-1500:]); return
    exe_plain = ctx.path('C28-plain')
    ok, log = pv.cc_harness(os.path.join(pv.ROOT, 'harness', 'C28.c'), exe_plain, ctx.build, sanitize=False)
    if not ok:
        res.infra_errors.append('harness compile failed: ' + log[-1500:]); return
    env = {'ASAN_OPTIONS': 'detect_leaks=1', 'UBSAN_OPTIONS': 'print_stacktrace=1'}
    rng = pv.Rng(ctx.seed)
    hist = {}
    corpus = load_corpus()
    replaying = cases is not None
    if cases is None:
        n = 250 if ctx.quick else 3000
        cases = corpus + [gen_case(rng.fork(k), rng.range(10, 120 if ctx.quick else 600), not ctx.quick or k % 10 == 0) for k in range(n)]
    results, stats, viols, (rc, err) = pv.run_script(exe, 'pv_C28', cases, env=env, use_driver=ctx.driver_ok, timeout=900)
    for v in viols:
        res.violations.append({'key': 'harness: ' + v, 'what': v})
    if rc != 0 and not any(r['crashed'] for r in results):
        res.violations.append({'key': 'harness-exit-%d' % rc, 'what': 'harness exited with %d: %s' % (rc, err[-600:])})
    sizes = {}
    for k, r in enumerate(results):
        if not judge(ctx, res, exe, env, r, hist, fast=exe_plain):
            break
        res.traces_validated += 1
        if sum(1 for x in r['impl'] if x.startswith('ok')) >= 1 and sum(1 for x in r['impl'] if x[:1].isdigit()) >= 2:
            res.nontrivial(' ; '.join(r['ops']))
        if r['ops'] and r['ops'][0].startswith('init'):
            b = int(r['ops'][0].split()[1])
            b = '1-16' if b <= 16 else '17-64' if b <= 64 else '65+'
            sizes[b] = sizes.get(b, 0) + 1
        if len(res.violations) + len(res.disagreements) >= 5:
            break
    explored = []
    if not replaying and len(res.violations) + len(res.disagreements) < 5:
        plan = [(1, 1, 8, 10 ** 6), (2, 1, 10, 10 ** 6), (3, 2, 12, 10 ** 6), (4, 1, 14, 10 ** 6), (5, 3, 7, 1500), (6, 1, 5, 700), (8, 1, 3, 300)] if ctx.quick else \
               [(1, 1, 8, 10 ** 6), (2, 3, 10, 10 ** 6), (3, 1, 12, 10 ** 6), (4, 2, 14, 10 ** 6), (5, 1, 16, 10 ** 6), (6, 4, 18, 10 ** 6),
                (7, 1, 20, 60000), (8, 1, 9, 30000), (10, 2, 7, 20000), (12, 1, 5, 20000), (16, 1, 4, 20000)]
        explored = bfs_all(ctx, res, exe_plain, exe, env, plan, hist)
    res.rule = ('corpus cases first; random histories (10..120 ops quick / 10..600 thorough) on zones of 1..64 units (some up to 2000), unit sizes 1..512, requests mostly 1..n/k units with byte sizes '
                'not multiples of the unit, zero, over-size and >= 2^32-unit requests, frees by live index, frees of arbitrary aligned/unaligned offsets; then breadth-first exploration of ALL '
                'reachable states of small zones (every malloc of 0..n+1 units and every free of offset 0..n from every state, state = walked table + free lists; see breadth_first); '
                'all on the real allocator under ASan+UBSan with leak check, compared with the Lean model after every operation; '
                'non-trivial = random history with >= 2 successful mallocs and >= 1 successful free, or a distinct reachable state of the exploration')
    res.samples = [{'ops': r['ops'][:14], 'impl': r['impl'][:14]} for r in results[len(corpus):len(corpus) + 2]] + [{'ops': r['ops'], 'impl': r['impl']} for r in results[:1]]
    res.extra['input_distribution'] = {'op_histogram': hist, 'corpus_cases': len(corpus), 'zone_units_histogram': sizes,
                                       'rejected_calls': sum(r['impl'].count('rejected') for r in results),
                                       'null_returns': sum(1 for r in results for x in r['impl'] if x.startswith('null')),
                                       'refused_frees': sum(1 for r in results for x in r['impl'] if x.startswith('noop'))}
    res.extra['breadth_first'] = explored
    res.extra['states'] = sum(e['states'] for e in explored)
    res.extra['transitions'] = sum(e['transitions'] for e in explored)


def replay(ctx, res, data):
    cases = [v['case'] for v in data.get('violations', []) if 'case' in v] + [d['case'] for d in data.get('disagreements', []) if 'case' in d]
    run(ctx, res, cases=cases or None)
