"""C10 — local termination detection is exact."""
import os, subprocess, pv
PROP = 'C10'
LEAN_MODULE = 'ParsecVerif.Props.C10'
DRIVERS = ['pv_C10']
THEOREMS = ['ParsecVerif.TermdetLocal.inv_step', 'ParsecVerif.TermdetLocal.inv_reach',
            'ParsecVerif.C10.C10_safe', 'ParsecVerif.C10.C10_safe_forever', 'ParsecVerif.C10.C10_once', 'ParsecVerif.C10.C10_state_call',
            'ParsecVerif.C10.C10_live', 'ParsecVerif.C10.C10_live_progress', 'ParsecVerif.C10.C10_refcount',
            'ParsecVerif.C10.C10_boundary', 'ParsecVerif.C10.C10_refcount_dip']
IMPL = 'parsec/mca/termdet/local/termdet_local_module.c (module functions through parsec_termdet_local_module.module.*)'
ENGINE = 'lean-coop'
LEVEL = 'proof'
LEVEL_TEXT = ('Lean 4 theorems for ANY number of threads, ANY scripts of taskpool_ready / addto_nb_tasks / addto_runtime_actions / set_nb_tasks / set_runtime_actions / '
              'taskpool_state calls and EVERY interleaving at the granularity of the atomic operations of termdet_local_module.c (fetch_add, the conditional fetch_inc/fetch_dec on a '
              'zero crossing, read+CAS loops of the set_* functions, plain read of the monitor in the step of the preceding atomic, CAS BUSY->TERMINATING, callback, CAS ->TERMINATED, '
              'OBJ_RETAIN/RELEASE), counters crossing zero any number of times, under the usage protocol stated as enabling conditions of the transitions: '
              'safety (monitor TERMINATING/TERMINATED implies ready happened, nb_tasks = nb_pending_actions = 0, no thread inside the counter part of an update, no unit outstanding; '
              'and this holds for ever after), exactly-once callback, taskpool_state returns TERMINATED only after the callback with both counters 0, liveness (no reachable state with all '
              'calls returned has BUSY with nb_pending_actions = 0 or TERMINATING; whenever BUSY with nb_pending_actions = 0 a committed thread reaches TERMINATING in at most two of its own steps), '
              'reference-count balance. Proof: inductive invariant over sums of per-thread weights (any thread count), preservation by linear arithmetic per program point. '
              'The model is tied to the current source on every run: the real module functions run on a fabricated taskpool under a deterministic cooperative scheduler hooked at every '
              'atomic primitive; every executed schedule is replayed step by step on the compiled Lean machine (park point with target word, monitor, both counters, callback count, '
              'reference count, return value) - exhaustively (DFS) for small scripts, randomly for 2-4 thread scripts; an independent oracle written from the property text is evaluated on '
              'the real executions that respect the protocol.')
LEVEL_NOTE = ('The usage protocol is a hypothesis (ghost ownership of units: a counter is raised only by a thread that itself holds an accounted unit or the set-up token; a thread releases only '
              'units it holds; ready is called by the token holder). Outside it the detector is unsound by design: theorem C10_boundary gives the schedule and it is replayed on the real code on every run '
              '(corpus/C10/010). PARSEC_RUNTIME_RESERVED_NB_TASKS (negative nb_tasks) and monitor/unmonitor re-arming are not modelled. Sequentially consistent interleavings of atomic operations only. '
              'Observation inside the protocol (theorem C10_refcount_dip, corpus/C10/011): ready publishes BUSY before OBJ_RETAIN, so another thread can run the RELEASE first. '
              'Trusted: Lean kernel, propext/Classical.choice/Quot.sound, the cooperative scheduler and hook H1.')
TECHNIQUE = 'Lean 4 proof (inductive invariant over all interleavings and thread counts, weight-sum abstraction) on a small-step model; tie = step-by-step schedule replay of the real code under a cooperative scheduler'
ASSUMPTIONS = ['sequential consistency at the granularity of parsec_atomic_* operations; a plain read executes in the step of the preceding atomic operation',
               'usage protocol of the detector (explicit enabling conditions okStep of the model): counters never negative, units released only by their holder, raises only by a thread holding a unit or the set-up token, ready by the token holder',
               'a thread may be pre-empted between two API calls (harness park point "idle"), which subsumes back-to-back calls']

KINDS = 'TAK'


# ------------------------------------------------------------------ generators
def gen_conf(rng, nth):
    """Scripts that respect the protocol in EVERY interleaving (holdings are per thread and change only by the thread's own ops;
    a failed take ends the thread).  Returns (scripts, pre)."""
    hold = [dict(T=0, A=0, K=0) for _ in range(nth)]
    sc = [[] for _ in range(nth)]
    s0 = sc[0]
    s0.append('gK1'); hold[0]['K'] = 1
    ntot, atot = rng.range(0, 4), rng.range(0, 3)
    if ntot == 0 and atot == 0:
        atot = 1
    order = ['T', 'A'] if rng.chance(1, 2) else ['A', 'T']
    nt_now = 0
    for c in order:
        if c == 'T' and ntot:
            s0.append(('T+%d' if rng.chance(2, 3) else 'ST%d') % ntot); hold[0]['T'] = ntot; nt_now = ntot
        if c == 'A' and atot:
            if nt_now == 0 and rng.chance(1, 3):
                s0.append('SA%d' % atot)
            else:
                s0.append('A+%d' % atot)
            hold[0]['A'] = atot
    ready_done = False
    if rng.chance(1, 4):
        s0.append('R'); hold[0]['K'] = 0; ready_done = True
    pool = dict(T=0, A=0, K=0)
    for c in 'TA':
        k = rng.range(0, hold[0][c]) if nth > 1 else 0
        if k:
            s0.append('p%s%d' % (c, k)); hold[0][c] -= k; pool[c] += k
    if not ready_done and nth > 1 and rng.chance(1, 5):
        s0.append('pK1'); hold[0]['K'] = 0; pool['K'] = 1
    pre = len(s0)
    for t in range(nth):
        s, h = sc[t], hold[t]
        if t > 0:
            want = []
            if pool['K'] and rng.chance(1, 2):
                want.append('K')
            want += [c for c in 'TA' if pool[c] and rng.chance(3, 4)]
            if not want:
                want = [rng.choice('TA')]
            for c in want:
                k = 1 if c == 'K' else rng.range(1, max(1, min(2, pool[c])))
                s.append('g%s%d' % (c, k)); h[c] += k
        for _ in range(rng.range(1, 6)):
            can = h['T'] + h['A'] + h['K'] >= 1
            r = rng.below(100)
            if r < 22 and can:
                k = rng.range(1, 2); s.append('T+%d' % k); h['T'] += k
            elif r < 44 and h['T']:
                k = rng.range(1, h['T']); s.append('T-%d' % k); h['T'] -= k
            elif r < 54 and can:
                k = rng.range(1, 2); s.append('A+%d' % k); h['A'] += k
            elif r < 68 and h['A']:
                k = rng.range(1, h['A']); s.append('A-%d' % k); h['A'] -= k
            elif r < 74 and (h['T'] or h['A']):
                c = rng.choice([c for c in 'TA' if h[c]]); k = rng.range(1, h[c]); s.append('p%s%d' % (c, k)); h[c] -= k
            elif r < 80:
                c = rng.choice('TA'); s.append('g%s1' % c); h[c] += 1
            elif r < 86:
                s.append('Q')
            elif r < 92 and h['K']:
                s.append('R'); h['K'] = 0
            elif r < 95:
                s.append(rng.choice(['T+0', 'A+0']))
            elif can and h['T'] and rng.chance(1, 2):
                pass
        tail = []
        if rng.chance(9, 10):
            while h['T']:
                k = rng.range(1, h['T']); tail.append('T-%d' % k); h['T'] -= k
            while h['A']:
                k = rng.range(1, h['A']); tail.append('A-%d' % k); h['A'] -= k
        if h['K'] and rng.chance(9, 10):
            tail.insert(rng.range(0, len(tail)), 'R'); h['K'] = 0
        s += tail
        if rng.chance(1, 3):
            s.append('Q')
    return sc, pre


FREE_TOK = ['R', 'T+1', 'T+2', 'T-1', 'T-2', 'A+1', 'A+2', 'A-1', 'A-2', 'ST0', 'ST1', 'ST2', 'ST3', 'SA0', 'SA1', 'SA2', 'Q',
            'pT1', 'pA1', 'gT1', 'gA1', 'T+0', 'A+0', 'T+1', 'T-1', 'A+1', 'A-1', 'ST0', 'SA0', 'SA1']


def gen_free(rng, nth):
    """Arbitrary scripts (no regard for the protocol): model/implementation correspondence, CAS retry loops, negative counters."""
    sc = []
    for t in range(nth):
        s = ['gK1'] if (t == 0 and rng.chance(4, 5)) else []
        s += [rng.choice(FREE_TOK) for _ in range(rng.range(1, 6))]
        if t == 0 and rng.chance(1, 2) and 'R' not in s:
            s.insert(rng.range(1, len(s)), 'R')
        sc.append(s)
    return sc, (1 if sc[0][:1] == ['gK1'] else 0)


DFS_CONF = [   # (scripts, pre): small protocol-respecting scripts, every schedule after the set-up
    ('gK1 A+1 pA1 R / gA1 A-1', 3),
    ('gK1 T+1 pT1 R / gT1 T-1', 3),
    ('gK1 A+1 R A-1 / Q Q', 2),
    ('gK1 A+2 pA1 T+1 T-1 / gA1 T+1 T-1', 3),
    ('gK1 T+2 pT1 R T-1 / gT1 T-1', 3),
    ('gK1 A+1 pK1 pA1 / gK1 R / gA1 A-1', 4),
    ('gK1 A+2 pA1 R A-1 / gA1 A-1', 3),
    ('gK1 ST2 SA3 pA1 R ST0 A-1 / gA1 A-1', 4),
    ('gK1 T+2 A+1 pA1 pT1 R T-1 / gA1 gT1 T+1 T-2 A-1', 5),
]
DFS_CONF_THOROUGH = [
    ('gK1 A+2 pA1 R T+1 T-1 A-1 / gA1 T+1 T-1 A-1', 3),
    ('gK1 T+2 A+1 pT1 pA1 R T-1 / gT1 T-1 / gA1 A-1', 5),
    ('gK1 A+3 pA2 R A-1 / gA1 T+1 T-1 A-1 / gA1 A-1 Q', 3),
]
DFS_FREE = [
    ('gK1 ST2 pT1 R ST0 / gT1 T-1', 3),
    ('gK1 A+1 R SA0 / SA1 A-1', 2),
    ('gK1 T+1 R ST0 / ST2 ST0', 2),
]
STRESS = [('gK1 A+2 pA1 R T+1 T-1 T+1 T-1 A-1 / gA1 T+1 T-1 T+1 T-1 A-1', 3),
          ('gK1 T+3 pT2 R T-1 / gT1 T+1 T-1 T-1 / gT1 T-1', 3),
          ('gK1 A+1 T+2 pT2 pA1 R / gT1 T-1 / gT1 T-1 / gA1 A-1', 5),
          ('gK1 A+3 pA2 pK1 A-1 / gK1 R / gA1 T+2 T-2 A-1 / gA1 A-1', 4),
          ('gK1 A+1 pA1 R / gA1 A-1', 3),
          ('gK1 T+1 pT1 R Q / gT1 T-1 Q', 3)]


def load_corpus():
    out = []
    d = os.path.join(pv.ROOT, 'corpus', PROP)
    if os.path.isdir(d):
        for f in sorted(os.listdir(d)):
            if f.endswith('.case'):
                for l in open(os.path.join(d, f)):
                    l = l.strip()
                    if l and not l.startswith('#') and ' ; ' in l:
                        cls, rest = l.split(' ; ', 1)
                        out.append((cls.strip(), rest.strip(), f))
    return out


def gen_cases(ctx):
    """list of (class, 'scripts | policy', origin)"""
    rng = pv.Rng(ctx.seed)
    cases = [(c, (l if ctx.quick else l.replace('dfs 300', 'dfs 25000')), f) for c, l, f in load_corpus()]
    lim = 300 if ctx.quick else 25000
    for s, pre in DFS_CONF + ([] if ctx.quick else DFS_CONF_THOROUGH):
        cases.append(('conf', '%s | pre %d ; dfs %d' % (s, pre, lim), 'dfs'))
    for s, pre in DFS_FREE:
        cases.append(('free', '%s | pre %d ; dfs %d' % (s, pre, lim), 'dfs'))
    for k in range(250 if ctx.quick else 6000):
        r = rng.fork(k)
        nth = r.range(2, 4)
        sc, pre = gen_conf(r, nth)
        cases.append(('conf', '%s | pre %d ; rng %d' % (' / '.join(' '.join(s) for s in sc), pre, r.next() % 1000000007), 'rng'))
    for k in range(100 if ctx.quick else 2500):
        r = rng.fork(100000 + k)
        sc, pre = gen_free(r, r.range(2, 4))
        if any(not s for s in sc):
            continue
        cases.append(('free', '%s | pre %d ; rng %d' % (' / '.join(' '.join(s) for s in sc), pre, r.next() % 1000000007), 'rng'))
    return cases


# ------------------------------------------------------------------ the property, evaluated on the implementation's outputs
def parse_step(r):
    w = r.split()
    d = {'park': w[0]}
    for x in w[1:]:
        k, v = x.split('=')
        d[k] = int(v)
    return d


def oracle_run(scripts, sched, impl_steps, endline):
    """Property C10 (from its statement) on one real execution.  Returns (failure text, step index) or None."""
    nth = len(scripts)
    cur = [0] * nth          # index of the op a thread is executing / about to begin
    inside = [False] * nth
    seen_busy = False
    exp_nt, exp_a, acct, ready_done, stepped = 0, 0, True, False, set()   # what the counters MEAN: units added minus units released
    for i, (t, r) in enumerate(zip(sched, impl_steps)):
        d = parse_step(r)
        m, nt, npa, cb = d['m'], d['nt'], d['npa'], d['cb']
        op = scripts[t][cur[t]] if cur[t] < len(scripts[t]) else None
        stepped.add(t)
        if not inside[t]:
            inside[t] = True
        completed = d['park'] in ('idle', 'done')
        if m in (3, 0):
            if not seen_busy:
                return 'reported terminated (monitor=%d) without the taskpool ever having been BUSY (ready)' % m, i
            if nt != 0 or npa != 0:
                return 'reported terminated (monitor=%d) while nb_tasks=%d nb_pending_actions=%d' % (m, nt, npa), i
            if cb != 1:
                return 'monitor=%d but the termination callback ran %d times' % (m, cb), i
        else:
            if cb != 0:
                return 'termination callback ran %d time(s) but monitor=%d' % (cb, m), i
        if cb > 1:
            return 'termination callback ran %d times' % cb, i
        if nt < 0 or npa < 0:
            return 'a counter went negative under the protocol: nb_tasks=%d nb_pending_actions=%d' % (nt, npa), i
        if completed:
            if op == 'Q':
                want = {0: 4, 1: 1, 2: 2, 3: 2}.get(m)
                if d['ret'] != want:
                    return 'taskpool_state returned %d with monitor=%d' % (d['ret'], m), i
                if d['ret'] == 4 and (nt != 0 or npa != 0 or cb != 1):
                    return 'taskpool_state reported TERMINATED with nb_tasks=%d nb_pending_actions=%d callbacks=%d' % (nt, npa, cb), i
            if op and op[0] in 'TA' and op[1] in '+-':
                if op[0] == 'T':
                    exp_nt += int(op[1:])
                else:
                    exp_a += int(op[1:])
            elif op and op[:2] in ('ST', 'SA'):
                if len(stepped) > 1:
                    acct = False          # a set racing with other threads: no interleaving-independent meaning
                elif op[:2] == 'ST':
                    exp_nt = int(op[2:])
                else:
                    exp_a = int(op[2:]) - (1 if exp_nt > 0 else 0)
            elif op == 'R':
                ready_done = True
            inside[t] = False
            cur[t] += 1
            if d['park'] == 'done':
                cur[t] = len(scripts[t])
        if m == 2:
            seen_busy = True
    if impl_steps and endline.strip('[]').split() == ['done'] * nth:
        d = parse_step(impl_steps[-1])
        if d['m'] == 3:
            return 'all calls returned but the monitor is left in TERMINATING', len(sched) - 1
        if d['m'] == 2 and d['nt'] == 0 and d['npa'] == 0:
            return 'ready was called, both counters are 0 and all calls returned, but termination was not reported (monitor BUSY, callbacks=%d)' % d['cb'], len(sched) - 1
        if d['m'] == 0 and d['cb'] != 1:
            return 'TERMINATED with %d callbacks' % d['cb'], len(sched) - 1
        if acct:
            if d['nt'] != exp_nt or d['npa'] != exp_a + (1 if exp_nt > 0 else 0):
                return ('all calls returned: %d task unit(s) and %d action unit(s) are outstanding, so nb_tasks / nb_pending_actions must be %d / %d, but they are %d / %d' % (
                    exp_nt, exp_a, exp_nt, exp_a + (1 if exp_nt > 0 else 0), d['nt'], d['npa'])), len(sched) - 1
            if ready_done and exp_nt == 0 and exp_a == 0 and not (d['m'] == 0 and d['cb'] == 1):
                return 'ready was called, every task and action unit was released and all calls returned, but termination was not reported (monitor=%d callbacks=%d)' % (d['m'], d['cb']), len(sched) - 1
    return None


def run_harness(ctx, exe, lines, nproc, timeout):
    """Runs the harness on the case lines, split over `nproc` processes (cases are independent).  Returns (rc, stdout, stderr)."""
    def cost(l):
        pol = l.rsplit('|', 1)[1]
        return min(int(pol.split('dfs')[1]), 1500) if 'dfs' in pol else 1
    chunks, load = [[] for _ in range(nproc)], [0] * nproc
    for l in sorted(lines, key=cost, reverse=True):
        i = load.index(min(load)); chunks[i].append(l); load[i] += cost(l)
    procs = []
    for i, ch in enumerate(chunks):
        if not ch:
            continue
        fi, fo, fe = ctx.path('in%d.txt' % i), ctx.path('out%d.txt' % i), ctx.path('err%d.txt' % i)
        open(fi, 'w').write('\n'.join(ch) + '\n')
        procs.append((subprocess.Popen([exe], stdin=open(fi), stdout=open(fo, 'w'), stderr=open(fe, 'w')), fo, fe))
    rc, out, err = 0, [], []
    for p, fo, fe in procs:
        try:
            r = p.wait(timeout=timeout)
        except subprocess.TimeoutExpired:
            p.kill(); r = 124
        rc = rc or r
        out.append(open(fo, errors='replace').read()); err.append(open(fe, errors='replace').read())
    return rc, ''.join(out), ''.join(err)


def split_runs(ops, impl, model):
    runs, cur = [], None
    for i, o in enumerate(ops):
        if o.startswith('case '):
            cur = {'idx': []}
            runs.append(cur)
        if cur is not None:
            cur['idx'].append(i)
    out = []
    for r in runs:
        idx = r['idx']
        out.append({'ops': [ops[i] for i in idx], 'impl': [impl[i] for i in idx],
                    'model': [model[i] if i < len(model) else '<missing>' for i in idx]})
    return out


def run(ctx, res, cases=None):
    exe = ctx.path('C10')
    ok, log = pv.cc_harness(os.path.join(pv.ROOT, 'harness', 'C10.c'), exe, ctx.build)
    if not ok:
        res.infra_errors.append('harness compile failed: ' + log[-1500:]); return
    cases = cases or gen_cases(ctx)
    lines = ['case %d %s' % (k, c[1]) for k, c in enumerate(cases)]
    import time
    t0 = time.time()
    rc, out, err = run_harness(ctx, exe, lines, 4 if ctx.quick else 8, 3000)
    pv.log('[C10] harness: %d case lines in %.1fs' % (len(lines), time.time() - t0))
    ops, impl, stats, viols = pv.parse_transcript(out)
    for v in viols:
        res.violations.append({'key': v, 'what': v, 'case': v})
    if rc != 0:
        res.violations.append({'key': 'harness-exit-%d' % rc, 'what': 'harness exited with %d after %d ops; last op: %s; stderr: %s' % (rc, len(ops), ops[-1] if ops else None, err[-600:]),
                               'case': ops[-1] if ops else ''})
    model = []
    if ctx.driver_ok and ops:
        t0 = time.time()
        rcd, model, derr = pv.run_driver('pv_C10', ops, timeout=3000)
        pv.log('[C10] driver: %d ops in %.1fs' % (len(ops), time.time() - t0))
        if rcd != 0:
            res.disagreements.append({'op': '<driver>', 'impl': '', 'model': 'driver exit %d: %s' % (rcd, derr[-300:])})
    else:
        res.notes.append('model driver unavailable: correspondence not run, oracle only (every run treated as inside the protocol only if generated as such)')
    runs = split_runs(ops, impl, model)
    cnt = {'runs': 0, 'inproto': 0, 'oop': 0, 'steps': 0, 'detected': 0, 'complete': 0, 'by_class': {}, 'by_origin': {}, 'threads': {}, 'rc_dip_runs': 0,
           'zero_crossings': 0, 'cas_retries': 0, 'cas2_contention_runs': 0, 'boundary_reproduced': 0}
    for r in runs:
        if len(res.violations) >= 8 or (len(res.disagreements) >= 8 and cnt['runs'] > 6000):
            break
        w = r['ops'][0].split()
        k = int(w[1])
        cls, spec, origin = cases[k] if k < len(cases) else ('free', '', '?')
        body = r['ops'][0].split(' ', 2)[2].rsplit('|', 1)[0].strip()
        scripts = [s.split() for s in body.split(' / ')]
        if len(r['ops']) < 3 or r['ops'][-1] != 'proto' or r['ops'][-2] != 'end':
            continue      # bad-op line or truncated output
        steps_i = r['impl'][1:-2]
        steps_m = r['model'][1:-2]
        sched = [int(o.split()[1]) for o in r['ops'][1:-2]]
        replay_all = '%s | replay %s' % (body, ' '.join(map(str, sched)))
        cnt['runs'] += 1
        cnt['steps'] += len(sched)
        cnt['by_class'][cls] = cnt['by_class'].get(cls, 0) + 1
        cnt['by_origin'][origin] = cnt['by_origin'].get(origin, 0) + 1
        cnt['threads'][len(scripts)] = cnt['threads'].get(len(scripts), 0) + 1
        res.evaluations += 1
        # correspondence, line by line (the `proto` line is the model's verdict, not compared)
        bad = None
        if ctx.driver_ok:
            for j in range(len(r['ops']) - 1):
                if r['impl'][j] != r['model'][j]:
                    bad = j; break
        if bad is not None:
            upto = max(0, min(bad, len(sched)))
            if len(res.disagreements) < 8:
                res.disagreements.append({'case': '%s | replay %s' % (body, ' '.join(map(str, sched[:upto]))), 'op': r['ops'][bad], 'impl': r['impl'][bad], 'model': r['model'][bad],
                                          'class': cls, 'origin': origin})
            if cls in ('conf', 'observe'):      # protocol-respecting by construction: the property must hold on the real execution whatever the model says
                f = oracle_run(scripts, sched, steps_i, r['impl'][-2])
                if f:
                    what, at = f
                    rp = '%s | replay %s' % (body, ' '.join(map(str, sched[:at + 1])))
                    res.violations.append({'key': rp, 'what': what, 'case': rp, 'trace': steps_i[max(0, at - 6):at + 1]})
            continue
        verdict = r['model'][-1] if ctx.driver_ok else ('inproto' if cls == 'conf' else 'oop ?')
        inproto = verdict == 'inproto'
        cnt['inproto' if inproto else 'oop'] += 1
        if cls in ('conf', 'observe') and not inproto:
            if len(res.disagreements) < 8:
                res.disagreements.append({'case': replay_all, 'op': 'proto', 'impl': 'scripts generated to respect the protocol in every interleaving', 'model': verdict, 'class': cls, 'origin': origin})
            continue
        if cls == 'boundary':
            last = parse_step(steps_i[-1]) if steps_i else {}
            if inproto or not (last.get('m') in (3, 0) and (last.get('npa') != 0 or last.get('nt') != 0)):
                res.disagreements.append({'case': replay_all, 'op': 'boundary', 'impl': steps_i[-1] if steps_i else '', 'model': verdict + ' (expected: outside the protocol, terminated with a non-zero counter)'})
            else:
                cnt['boundary_reproduced'] += 1
            continue
        ds = [parse_step(x) for x in steps_i]
        if any(d['m'] in (0, 3) for d in ds):
            cnt['detected'] += 1
        if r['impl'][-2].strip('[]').split() == ['done'] * len(scripts):
            cnt['complete'] += 1
        if any(d['rc'] < 0 for d in ds):
            cnt['rc_dip_runs'] += 1
        zc = sum(1 for a, b in zip(ds, ds[1:]) if (a['nt'] == 0) != (b['nt'] == 0))
        cnt['zero_crossings'] += zc
        retries = sum(1 for j in range(1, len(ds)) if ds[j]['park'] in ('cas:nt', 'cas:npa') and sched[j] in sched[:j] and
                      ds[max(i for i in range(j) if sched[i] == sched[j])]['park'] == ds[j]['park'])
        cnt['cas_retries'] += retries
        lastpark, cont = {}, False
        for t, d in zip(sched, ds):
            lastpark[t] = d['park']
            cont = cont or sum(1 for v in lastpark.values() if v == 'cas:mon') >= 2
        cnt['cas2_contention_runs'] += 1 if cont else 0
        if inproto:
            f = oracle_run(scripts, sched, steps_i, r['impl'][-2])
            if f:
                what, at = f
                rp = '%s | replay %s' % (body, ' '.join(map(str, sched[:at + 1])))
                res.violations.append({'key': rp, 'what': what, 'case': rp, 'trace': steps_i[max(0, at - 6):at + 1]})
        if len(scripts) >= 2 and len(set(sched)) >= 2 and (zc >= 1 or any(d['m'] in (0, 3) for d in ds)):
            res.nontrivial(body + '|' + ' '.join(map(str, sched)))
    # search harder (free-running threads, end-state oracle): thorough tier, or whenever something is off
    if res.disagreements or res.violations or not ctx.quick or not ctx.driver_ok:
        sl = ['case %d %s | pre %d ; stress %d' % (i, s, pre, 20000 if ctx.quick else 400000) for i, (s, pre) in enumerate(STRESS)]
        rc2, out2, err2 = pv.sh([exe], input='\n'.join(sl) + '\n', timeout=3000)
        _, _, st2, v2 = pv.parse_transcript(out2)
        for k2, v in st2.items():
            stats[k2] = stats.get(k2, 0) + v
        for v in v2:
            res.violations.append({'key': v, 'what': v, 'case': v})
    res.traces_validated = cnt['runs']
    res.rule = ('each evaluation = one schedule of 2-4 script threads executed by the REAL module functions under the cooperative scheduler and replayed step by step on the Lean machine; '
                'corpus first, then exhaustive DFS over all schedules (after the sequential set-up prefix) of the listed small scripts, then PRNG schedules of generated scripts: class conf = respects the '
                'protocol in every interleaving by construction (checked against the model verdict), class free = arbitrary ops (correspondence only; property oracle when the model says the run stayed inside the protocol); '
                'distinct = (scripts, schedule); non-trivial = at least two threads stepped and nb_tasks crossed zero or termination was detected')
    samp = [r for r in runs if len(r['ops']) > 12][-2:]
    res.samples = [{'ops': r['ops'][:40], 'impl': r['impl'][:40]} for r in samp]
    res.extra['input_distribution'] = dict(stats, **cnt)
    res.extra['inconclusive'] = stats.get('incomplete_runs', 0)
    if cnt['rc_dip_runs']:
        res.notes.append('observation (not part of the property): in %d protocol-respecting runs the RELEASE of termination_detected ran before the RETAIN of taskpool_ready (reference count below its initial value)' % cnt['rc_dip_runs'])


def replay(ctx, res, data):
    cs = []
    for v in data.get('violations', []) + data.get('disagreements', []):
        c = v.get('case')
        if isinstance(c, str) and ' | ' in c:
            cs.append(('free', c, 'replay'))
    run(ctx, res, cases=cs or None)
