"""C09 — priority schedulers honour task priorities (ap, ip, spq; no concurrent activity)."""
import os, pv
PROP = 'C09'
LEAN_MODULE = 'ParsecVerif.Props.C09'
DRIVERS = ['pv_C09']
THEOREMS = ['ParsecVerif.C09.C09_ap', 'ParsecVerif.C09.C09_ap_none', 'ParsecVerif.C09.ap_schedule_pending',
            'ParsecVerif.C09.C09_spq', 'ParsecVerif.C09.C09_spq_none', 'ParsecVerif.C09.spq_schedule_pending',
            'ParsecVerif.C09.C09_ip_partial', 'ParsecVerif.C09.ip_schedule_pending', 'ParsecVerif.C09.C09_ip_full_false',
            'ParsecVerif.C09.stamp_seq', 'ParsecVerif.C09.ap_next', 'ParsecVerif.C09.ip_next', 'ParsecVerif.C09.spq_next',
            'ParsecVerif.Sched.chainSorted_perm', 'ParsecVerif.Sched.chainSorted_sorted']
IMPL = 'parsec/mca/sched/{ap,ip,spq}/sched_*_module.c, parsec/class/list.h (parsec_list_nolock_chain_sorted)'
ENGINE = 'lean-seq'
LEVEL = 'proof'
LEVEL_TEXT = ('Lean 4 theorems for EVERY finite history of schedule(ring, distance)/select calls (any ring contents and order, any integer priorities and distances): '
              'ap select returns the head of a list kept strictly sorted by (priority descending, arrival ascending), i.e. a maximum-priority pending task, the earliest scheduled among equals; '
              'spq select returns from the smallest pending distance, maximum priority within it, earliest among equals; ip select returns a minimum-priority pending task when every schedule call '
              'of the history used distance 0 (C09_ip_partial).  The unrestricted ip statement is proved FALSE of the code as modelled (C09_ip_full_false, witness schedule(5,d0) schedule(7,d0) schedule(9,d1) '
              '-> select returns 9) and the witness is replayed on the real module on every run (known finding).  The models mirror parsec_list_nolock_chain_sorted (including its pos cursor, so they are '
              'right on the unsorted lists ip builds) and the three modules call by call; they are tied to the current source on every run by corpus and random histories executed on the REAL modules '
              '(installed by parsec_init, called directly on the real execution stream, under ASan/UBSan in the harness) and compared line by line (task id and reported distance) with the compiled Lean '
              'model; an independent oracle written from the property text is evaluated on the implementation outputs.')
LEVEL_NOTE = ('Sequential histories only (the property says "with no concurrent activity"): each module call is one atomic step (each runs under the list lock). '
              '"Earliest scheduled" uses a ghost arrival stamp (k-th task handed to schedule, ring order inside a call: theorems stamp_seq, *_next). ip is a theorem only under the '
              'distance-0 hypothesis; with other distances the stated property fails (finding). Priorities/distances are unbounded integers in the model, int32 in the code: no arithmetic is done on them, only '
              'comparisons. Trusted: Lean kernel, propext/Classical.choice/Quot.sound, the harness, differential testing as tie.')
TECHNIQUE = 'Lean 4 proof (inductive invariant over all call histories: sortedness of the real containers under chain_sorted) on hand-written models, tied by differential correspondence with the real modules'
ASSUMPTIONS = ['module calls are atomic w.r.t. each other (list lock); no concurrent activity, as the property states',
               'a ring handed to schedule contains distinct tasks none of which is already pending (usage protocol of the runtime); the harness does not issue other calls']

KNOWN_KEY = 'ip:schedule-with-distance!=0:select-not-lowest'
MODS = ['ap', 'ip', 'spq']
I32MAX, I32MIN = 2147483647, -2147483648


def gen_case(rng, mod, ncores, length):
    """mostly-valid structured history: many priority ties, rings of 1..8, distances 0..3"""
    ops = ['mod %s %d' % (mod, ncores)]
    nid = 0
    style = rng.below(4)            # 0: few priorities (ties), 1: 0..9, 2: wide, 3: two values
    d0only = (mod == 'ip' and rng.chance(1, 2)) or rng.chance(1, 8)
    wide_d = rng.chance(1, 5)
    npend = 0
    for _ in range(length):
        if rng.below(100) < 58 or npend == 0 and rng.chance(9, 10):
            n = rng.range(1, 8)
            toks = []
            base = rng.range(-3, 3)
            for j in range(n):
                if style == 0:
                    p = rng.range(0, 2)
                elif style == 1:
                    p = rng.range(0, 9)
                elif style == 2:
                    p = rng.choice([rng.range(-1000, 1000), I32MAX, I32MIN, 0, -1, 1])
                else:
                    p = rng.choice([base, base + 1])
                toks.append('%d:%d' % (nid, p)); nid += 1
            if rng.chance(1, 6):    # a ring that is already sorted (the merge shortcut of chain_sorted)
                toks.sort(key=lambda t: -int(t.split(':')[1]))
            # distances: mostly small, but a fifth of the cases uses the whole range incl. values around and far beyond any
            # internal bound on the number of distance lists (seeded change C09-1 clamped distances above 32)
            if d0only:
                d = 0
            elif wide_d:
                d = rng.choice([0, 1, 2, 31, 32, 33, 34, 40, 50, 63, 64, 65, 100, 199, rng.range(0, 70), rng.range(0, 300)])
            else:
                d = rng.choice([0, 0, 0, 1, 1, 2, 3])
            ops.append('sched %d %d %s' % (rng.below(ncores), d, ' '.join(toks)))
            npend += n
        else:
            ops.append('sel %d' % rng.below(ncores))
            npend = max(0, npend - 1)
    for _ in range(rng.range(0, min(npend + 1, 12))):
        ops.append('sel %d' % rng.below(ncores))
    return ops


def oracle(ops, impl):
    """The property statement evaluated on the implementation's outputs (no model involved).
    Returns (failures, stats); a failure is (key_or_None, text)."""
    fails, st = [], {'selects': 0, 'ties': 0, 'multi_dist': 0}
    mod = None
    pend = {}     # id -> (prio, arrival, dist)
    arr = 0
    nonzero = False
    for o, r in zip(ops, impl):
        w = o.split()
        if w[0] == 'mod':
            mod = w[1]; continue
        if r in ('rejected', 'bad-op', '<no-result>') or r.startswith('wrong-module'):
            continue
        if w[0] == 'sched':
            d = int(w[2])
            nonzero = nonzero or d != 0
            for t in w[3:]:
                i, p = t.split(':')
                pend[int(i)] = (int(p), arr, d); arr += 1
        elif w[0] == 'sel':
            st['selects'] += 1
            if r == 'none':
                if pend:
                    fails.append((None, '%s: select returned nothing while %d tasks are pending' % (o, len(pend))))
                continue
            try:
                tid, dist = (int(x) for x in r.split())
            except ValueError:
                fails.append((None, '%s: unparsable result %r' % (o, r))); continue
            if tid not in pend:
                fails.append((None, '%s: returned task %d which is not pending' % (o, tid))); continue
            p, a, d = pend[tid]
            others = [(k, v) for k, v in pend.items() if k != tid]
            if mod == 'ap':
                if dist != 0:
                    fails.append((None, '%s: ap reported distance %d' % (o, dist)))
                better = [k for k, v in others if v[0] > p or (v[0] == p and v[1] < a)]
                if any(v[0] == p for _, v in others):
                    st['ties'] += 1
                if better:
                    fails.append((None, '%s: ap returned task %d (prio %d, arrival %d) while task %d (prio %d, arrival %d) is pending' % (
                        o, tid, p, a, better[0], pend[better[0]][0], pend[better[0]][1])))
            elif mod == 'spq':
                if dist != d:
                    fails.append((None, '%s: spq reported distance %d for a task scheduled at distance %d' % (o, dist, d)))
                if len(set(v[2] for v in pend.values())) > 1:
                    st['multi_dist'] += 1
                if any(v[2] == d and v[0] == p for _, v in others):
                    st['ties'] += 1
                better = [k for k, v in others if v[2] < d or (v[2] == d and (v[0] > p or (v[0] == p and v[1] < a)))]
                if better:
                    b = pend[better[0]]
                    fails.append((None, '%s: spq returned task %d (distance %d, prio %d, arrival %d) while task %d (distance %d, prio %d, arrival %d) is pending' % (
                        o, tid, d, p, a, better[0], b[2], b[0], b[1])))
            elif mod == 'ip':
                if dist != 0:
                    fails.append((None, '%s: ip reported distance %d' % (o, dist)))
                if any(v[0] == p for _, v in others):
                    st['ties'] += 1
                lowerp = [k for k, v in others if v[0] < p]
                if lowerp:
                    fails.append((KNOWN_KEY if nonzero else None, '%s: ip returned task %d (prio %d) while task %d (prio %d) is pending%s' % (
                        o, tid, p, lowerp[0], pend[lowerp[0]][0], ' [history used a distance != 0]' if nonzero else '')))
            del pend[tid]
    return fails, st


def load_corpus():
    cs = []
    d = os.path.join(pv.ROOT, 'corpus', PROP)
    if os.path.isdir(d):
        for f in sorted(os.listdir(d)):
            if f.endswith('.case'):
                cs.append([l.strip() for l in open(os.path.join(d, f)) if l.strip() and not l.startswith('#')])
    return cs


def case_mod(ops):
    w = ops[0].split() if ops else []
    return (w[1], int(w[2])) if len(w) == 3 and w[0] == 'mod' and w[1] in MODS and w[2].isdigit() and int(w[2]) > 0 else None


def env_for(mod):
    e = dict(pv.MPI_ENV)
    e.update({'ASAN_OPTIONS': 'detect_leaks=0', 'PARSEC_MCA_mca_sched': mod})
    return e


def run_group(exe, mod, ncores, cases, use_driver=True, timeout=1800):
    return pv.run_script(exe, 'pv_C09', cases, env=env_for(mod), use_driver=use_driver, harness_args=(str(ncores),), timeout=timeout)


def run_one(exe, ops, use_driver=True):
    mc = case_mod(ops)
    if mc is None:
        return None
    return run_group(exe, mc[0], mc[1], [ops], use_driver=use_driver, timeout=120)[0][0]


def run(ctx, res, cases=None):
    exe = ctx.path('C09')
    ok, log = pv.cc_harness(os.path.join(pv.ROOT, 'harness', 'C09.c'), exe, ctx.build, sanitize=True)
    if not ok:
        res.infra_errors.append('harness compile failed: ' + log[-1500:]); return
    rng = pv.Rng(ctx.seed)
    corpus = load_corpus()
    if cases is None:
        cases = list(corpus)
        n = 200 if ctx.quick else 2000
        k = 0
        for mod in MODS:
            for nc in ([1] if ctx.quick else [1, 3]):
                for _ in range(n if nc == 1 else n // 3):
                    cases.append(gen_case(rng.fork(k), mod, nc, rng.range(3, 30 if ctx.quick else 80))); k += 1
    groups = {}
    for c in cases:
        mc = case_mod(c)
        if mc is None:
            res.infra_errors.append('case without a valid `mod` line: %r' % c[:2]); continue
        groups.setdefault(mc, []).append(c)
    hist = {'ring_sizes': {}, 'distances': {}, 'ops': {}, 'selects': 0, 'selects_with_priority_tie': 0, 'spq_selects_with_several_distances_pending': 0, 'cases_per_module': {}}
    known_seen = 0
    for (mod, nc), cs in sorted(groups.items()):
        results, stats, viols, (rc, err) = run_group(exe, mod, nc, cs, use_driver=ctx.driver_ok)
        hist['cases_per_module']['%s/%d' % (mod, nc)] = len(cs)
        for v in viols:
            res.violations.append({'key': 'harness:' + v, 'what': v, 'module': mod})
        for k, r in enumerate(results):
            res.evaluations += 1
            for o in r['ops']:
                w = o.split()
                hist['ops'][w[0]] = hist['ops'].get(w[0], 0) + 1
                if w[0] == 'sched':
                    hist['ring_sizes'][len(w) - 3] = hist['ring_sizes'].get(len(w) - 3, 0) + 1
                    hist['distances'][w[2]] = hist['distances'].get(w[2], 0) + 1
            if r['crashed']:
                res.violations.append({'key': 'crash:%s:' % mod + ' ; '.join(r['ops'][:len(r['impl']) + 1]),
                                       'what': 'real code crashed / sanitizer abort (rc=%s) in a %s case after %d ops: %s' % (r.get('rc'), mod, len(r['impl']), r.get('stderr', '')[-400:]),
                                       'case': r['ops']})
                break
            if any(x.startswith('wrong-module') for x in r['impl']):
                res.infra_errors.append('harness runs module other than requested: ' + ' '.join(r['impl'][:2])); break
            fails, st = oracle(r['ops'], r['impl'])
            hist['selects'] += st['selects']; hist['selects_with_priority_tie'] += st['ties']
            hist['spq_selects_with_several_distances_pending'] += st['multi_dist']
            new = [f for f in fails if f[0] is None]
            if any(f[0] == KNOWN_KEY for f in fails):
                known_seen += 1
                if known_seen == 1:
                    # minimise once, keyed by the stable finding key
                    head, body = r['ops'][0], r['ops'][1:]
                    def bad(sub):
                        rr = run_one(exe, [head] + sub, use_driver=False)
                        return rr is not None and any(f[0] == KNOWN_KEY for f in oracle(rr['ops'], rr['impl'])[0])
                    small = r['ops'] if len(body) <= 8 else [head] + pv.ddmin(body, bad, max_tests=40)
                    rr = run_one(exe, small, use_driver=False)
                    sf = [f for f in oracle(rr['ops'], rr['impl'])[0] if f[0] == KNOWN_KEY] or [f for f in fails if f[0] == KNOWN_KEY]
                    res.violations.append({'key': KNOWN_KEY, 'what': sf[0][1], 'case': small, 'impl': rr['impl']})
            if new:
                head, body = r['ops'][0], r['ops'][1:]
                def bad2(sub):
                    rr = run_one(exe, [head] + sub, use_driver=False)
                    return rr is not None and (rr['crashed'] or any(f[0] is None for f in oracle(rr['ops'], rr['impl'])[0]))
                small = [head] + pv.ddmin(body, bad2, max_tests=60)
                rr = run_one(exe, small, use_driver=False)
                sf = [f for f in oracle(rr['ops'], rr['impl'])[0] if f[0] is None] or new
                res.violations.append({'key': ' ; '.join(small), 'what': sf[0][1], 'case': small, 'impl': rr['impl'], 'all_failures': [f[1] for f in sf[:5]]})
            if ctx.driver_ok and r['impl'] != r['model']:
                head, body = r['ops'][0], r['ops'][1:]
                def dis(sub):
                    rr = run_one(exe, [head] + sub)
                    return rr is not None and (rr['crashed'] or rr['impl'] != rr['model'][:len(rr['impl'])] or len(rr['impl']) != len(rr['ops']))
                small = [head] + pv.ddmin(body, dis, max_tests=60)
                rr = run_one(exe, small)
                res.disagreements.append({'case': small, 'impl': rr['impl'], 'model': rr['model']})
            if st['ties'] > 0 or st['multi_dist'] > 0:
                res.nontrivial(' ; '.join(r['ops']))
            if len([v for v in res.violations if v['key'] != KNOWN_KEY]) + len(res.disagreements) >= 5:
                break
        res.traces_validated += len(results)
        if ctx.quick is False and not res.samples:
            pass
        if len(results) > len([c for c in corpus if case_mod(c) == (mod, nc)]):
            r = results[-1]
            res.samples.append({'ops': r['ops'][:10], 'impl': r['impl'][:10]})
    hist['histories_reproducing_known_ip_finding'] = known_seen
    res.rule = ('corpus cases first (incl. the ip witness), then random histories per module (ap, ip, spq): 3..30 ops quick / 3..80 thorough, 58% schedule / 42% select plus a final drain burst, rings of 1..8 tasks, '
                'four priority styles (3 values; 0..9; wide incl. INT32_MIN/MAX; two adjacent values), 1/6 of the rings pre-sorted, distances from {0,0,0,1,1,2,3} (half of the ip histories use distance 0 only), '
                '1 stream (thorough: also 3 streams with random stream argument); executed on the real module under ASan+UBSan; distinct = distinct op sequence; '
                'non-trivial = at least one select had to break a priority tie or (spq) choose between several pending distances')
    res.extra['input_distribution'] = hist


def replay(ctx, res, data):
    cases = [v['case'] for v in data.get('violations', []) if 'case' in v] + [d['case'] for d in data.get('disagreements', []) if 'case' in d]
    run(ctx, res, cases=cases or None)
