"""C26 — data copy ownership transfers keep one consistent newest version."""
import os, json, pv
PROP = 'C26'
LEAN_MODULE = 'ParsecVerif.Props.C26'
DRIVERS = ['pv_C26']
T = 'ParsecVerif.C26.'
THEOREMS = [T + n for n in (
    'write_owns', 'one_owner', 'at_most_one_owned', 'transfer_only_if_stale',
    'source_newest_partial', 'transfer_iff_stale_partial', 'inv_step', 'inv_run', 'history_partial',
    'source_newest', 'inv2_step', 'inv2_run', 'history_caller', 'inv2_of_inv',
    'inv_created', 'inv_fresh', 'bump2_write_newest', 'rw_bump1_write_newest', 'safeRunB_sound', 'full_false')]
IMPL = 'parsec/data.c (parsec_data_start_transfer_ownership_to_copy, parsec_data_end_transfer_ownership_to_copy, parsec_data_transfer_ownership_to_copy)'
ENGINE = 'lean-seq'
LEVEL = 'proof'
KNOWN_KEY = 'C26:stale-shared-copy-after-owner-read'
LEVEL_TEXT = ('Lean 4 theorems about a line-by-line model of the two functions (asserts = precondition), for any number of devices and every history of complete transfers '
              '(device, READ/WRITE bits, caller bump). For ALL histories from any state whose OWNED copies sit on owner_device: (a) one_owner/at_most_one_owned, (d) write_owns; in EVERY state: '
              '(b =>) transfer_only_if_stale. For all histories satisfying the caller obligation H2 (a written copy gets the newest version; proved for version=newest+1 and for version++ after '
              'READ-WRITE): (c) source_newest, via the inductive invariant Inv2 (inv2_step, inv2_run, history_caller). For all histories satisfying H2 and H1 (the owner makes no READ-only access to '
              'its OWNED copy while another valid copy is older): the complete statement including (b <=) transfer_iff_stale_partial, via the invariant Inv (inv_step, inv_run, history_partial). '
              'The full statement is FALSE of the code without H1: full_false is a kernel-checked 3-transfer witness, replayed on the real library on every run (known finding). '
              'Model and code are tied on every run: the real functions of libparsec run on fabricated parsec_data_t (1..6 copies, NULL copies, all 4 coherency states) under ASan/UBSan and are '
              'compared line by line with the compiled Lean model on every (state, transfer) pair reachable within the tier depth, on exhaustive short histories and on random long ones.')
LEVEL_NOTE = ('Partial: (b <=) is a theorem only under H1+H2 (transfer_iff_stale_partial, history_partial); without H1 it fails on the real code (finding). H1 and H2 are decidable and evaluated on every generated history. '
              'Histories are sequences of COMPLETE transfers (start; version sync when a source is named; end; bump) — interleavings of start/end of different devices (possible on accelerators, '
              'where the lock is dropped during the copy) are only in the differential tie, not in the theorems. The precondition is the set of non-PARANOID asserts, decided at run time by an '
              'assert-enabled compilation of the same data.c on a scratch clone. Versions < 2^31, readers < 2^31 (no wrap-around). Sequential: each call runs under data->lock in the callers.')
TECHNIQUE = 'Lean 4 proof (inductive invariant over all histories, pointwise refinement of the C loops, witness by decide) + differential correspondence with the real functions'
ASSUMPTIONS = ['a history step is one complete transfer executed atomically (callers hold data->lock around start/end; the asynchronous accelerator path is not in the theorems)',
               'when start names a source the caller copies the source version to the target (device_gpu.c: gpu_elem->version = candidate->version) before end',
               'H2 (caller obligation): after a WRITE access the written copy carries the newest version; H1 is NOT assumed by the oracle — its violation is the recorded finding',
               'no uint32/int32 wrap-around of version/readers; coherency_state is one of the four defined values']

R, W = 4, 8


# ------------------------------------------------------------------ states as printed by harness/driver
def parse_state(txt):
    """'owner | c0 c1 ..' -> (owner, [None | (coh, ver, readers, xs)])"""
    o, cs = txt.split('|')
    copies = []
    for w in cs.split():
        if w == '-':
            copies.append(None)
        else:
            k, v, rd, xs = w.split(':')
            copies.append((k, int(v), int(rd), int(xs)))
    return int(o), copies


def parse_ret_state(txt):
    r, rest = txt.split('|', 1)
    return int(r), parse_state(rest)


def fabricate(st, zero_readers=True):
    owner, cs = st
    ops = ['new %d %d' % (len(cs), owner)]
    for i, c in enumerate(cs):
        if c is not None:
            ops.append('attach %d %d %d' % (i, {'I': 0, 'O': 1, 'E': 2, 'S': 4}[c[0]], c[1]))
            if c[3]:
                ops.append('setxs %d %d' % (i, c[3]))
    return ops


def created(n):
    return (0, [('O', 0, 0, 0)] + [('I', 0, 0, 0)] * (n - 1))


def fresh(n):
    return (-1, [('I', 0, 0, 0)] * n)


def norm(st):
    return (st[0], tuple(None if c is None else (c[0], c[1], 0, c[3]) for c in st[1]))


# ------------------------------------------------------------------ the property, from its statement
def valid(c):
    return c is not None and c[0] != 'I'


def up_to_date(st, d):
    cs = st[1]
    if not (0 <= d < len(cs)) or not valid(cs[d]):
        return False
    return all((not valid(x)) or x[1] <= cs[d][1] for x in cs)


def check_step(pre, d, m, ret, post):
    """The four parts of C26 at one issued transfer.  Returns [(part, text)]."""
    f = []
    owned = [i for i, c in enumerate(post[1]) if c is not None and c[0] == 'O']
    if len(owned) > 1:
        f.append(('one-owner', 'copies %s are all OWNED' % owned))
    for i in owned:
        if post[0] != i:
            f.append(('owned-not-owner-device', 'copy %d is OWNED but owner_device=%d' % (i, post[0])))
    if m & R:
        utd = up_to_date(pre, d)
        if ret != -1 and utd:
            f.append(('transfer-though-up-to-date', 'source %d named although copy %d is valid and holds the newest version' % (ret, d)))
        if ret == -1 and not utd:
            f.append(('no-transfer-though-stale', 'no transfer requested (ret=-1) although copy %d is not up to date' % d))
    elif ret != -1:
        f.append(('transfer-without-read', 'source %d named for an access without the READ bit' % ret))
    if ret != -1 and not up_to_date(pre, ret):
        f.append(('source-not-newest', 'named source %d does not hold a valid copy of the newest version' % ret))
    if m & W:
        if post[0] != d or post[1][d] is None or post[1][d][0] != 'O':
            f.append(('write-not-owner', 'after a WRITE access device %d is not the owner / its copy is not OWNED' % d))
    return f


def h1_violation(pre, d, m):
    """owner makes a READ-only access to its OWNED copy while another valid copy has another version"""
    cs = pre[1]
    return bool((m & R) and not (m & W) and pre[0] == d and cs[d] is not None and cs[d][0] == 'O'
                and any(valid(x) and x[1] != cs[d][1] for x in cs))


def h2_ok(post, d, m):
    return (not (m & W)) or up_to_date(post, d)


def is_init_block(ops):
    """index of the first op after the fabrication block, and whether it is created(n)/fresh(n)"""
    k = 0
    while k < len(ops) and ops[k].split()[0] in ('new', 'attach'):
        k += 1
    return k


def canonical_init(impl_state):
    n = len(impl_state[1])
    return norm(impl_state) in (norm(created(n)), norm(fresh(n)))


def oracle_case(ops, impl):
    """Evaluate the property on one case.  Pure part: fabrication of created(n)/fresh(n) followed by T ops only.
    Returns (failures, info): failures = [dict(part, text, index, family)]"""
    fails = []
    info = {'pure': False, 'steps': 0, 'issued': 0, 'h1_viol': 0, 'h2_viol': 0, 'safe_prefix': 0, 'transfers': 0}
    k = is_init_block(ops)
    cur = None
    if k > 0 and k <= len(impl) and '|' in impl[k - 1]:
        try:
            cur = parse_state(impl[k - 1])
        except ValueError:
            cur = None
    pure = cur is not None and canonical_init(cur) and all(o.split()[0] == 'T' for o in ops[k:]) and len(ops) > k
    info['pure'] = pure
    # any-state theorems (write_owns, transfer_only_if_stale, one-owner preservation) on every T/xfer/start op
    st = None
    safe = True       # H1 and H2 held at every issued step so far
    caller_ok = True  # H2 held so far
    downgraded = False  # an H1-violating owner read happened earlier
    for i, (o, r) in enumerate(zip(ops, impl)):
        w = o.split()
        if r in ('rejected', 'bad-op', '<no-result>', 'ok') or '|' not in r:
            continue
        try:
            if w[0] in ('T', 'xfer', 'start', 'xstart'):
                ret, post = parse_ret_state(r)
            else:
                ret, post = None, parse_state(r)
        except ValueError:
            fails.append({'part': 'unparsable', 'text': 'cannot parse %r' % r, 'index': i, 'family': 'other'})
            break
        pre, st = st, post
        if w[0] not in ('T', 'xfer') or pre is None:
            continue
        d, m = int(w[1]), int(w[2])
        info['issued'] += 1
        if ret != -1:
            info['transfers'] += 1
        fs = check_step(pre, d, m, ret, post)
        pre_one_owner = all(not (c is not None and c[0] == 'O' and pre[0] != j) for j, c in enumerate(pre[1]))
        if pure and i >= k and w[0] == 'T':
            info['steps'] += 1
            h1v = h1_violation(pre, d, m)
            h2 = h2_ok(post, d, m)
            for part, text in fs:
                if part in ('no-transfer-though-stale', 'source-not-newest', 'transfer-though-up-to-date') and not caller_ok:
                    continue     # version numbers are meaningless once the caller mis-numbered a written copy
                tgt = pre[1][d]
                family = 'other'
                if (part == 'no-transfer-though-stale' and downgraded and tgt is not None and tgt[0] == 'S'
                        and not any(c is not None and c[0] == 'O' and c[1] > tgt[1] for c in pre[1])):
                    family = 'owner-read'
                fails.append({'part': part, 'text': text, 'index': i, 'family': family, 'safe_history': safe})
            if h1v:
                info['h1_viol'] += 1
                downgraded = True
            if not h2:
                info['h2_viol'] += 1
                caller_ok = False
            if h1v or not h2:
                safe = False
            if safe:
                info['safe_prefix'] += 1
        else:
            for part, text in fs:
                if part in ('write-not-owner', 'transfer-though-up-to-date', 'transfer-without-read'):
                    fails.append({'part': part, 'text': text, 'index': i, 'family': 'other'})
                elif part in ('one-owner', 'owned-not-owner-device') and pre_one_owner:
                    fails.append({'part': part, 'text': text, 'index': i, 'family': 'other'})
    return fails, info


# ------------------------------------------------------------------ generators
MODES = [(0, (0,)), (R, (0,)), (W, (0, 1, 2)), (R | W, (0, 1, 2))]


def alphabet(n):
    return ['T %d %d %d' % (d, m, b) for d in range(n) for m, bs in MODES for b in bs]


def gen_pure(rng, n, length):
    init = created(n) if rng.chance(3, 4) else fresh(n)
    ops = fabricate(init)
    for _ in range(length):
        d = rng.below(n)
        x = rng.below(100)
        if x < 40:
            m, b = R, 0
        elif x < 70:
            m, b = R | W, rng.choice([1, 1, 1, 2, 0])
        elif x < 92:
            m, b = W, rng.choice([1, 2, 2, 0])
        else:
            m, b = 0, 0
        ops.append('T %d %d %d' % (d, m, b))
    return ops


def gen_wild(rng, length):
    """arbitrary fabricated states (NULL copies, EXCLUSIVE, transfer status, any owner) and all ops"""
    n = rng.range(1, 6)
    ops = ['new %d %d' % (n, rng.range(-1, n - 1))]
    for i in range(n):
        if rng.chance(5, 6):
            ops.append('attach %d %d %d' % (i, rng.choice([0, 0, 1, 2, 4, 4]), rng.choice([0, 0, 1, 1, 2, 3, 7])))
            if rng.chance(1, 8):
                ops.append('setxs %d %d' % (i, rng.range(0, 2)))
    for _ in range(length):
        d = rng.range(0, n - 1 if rng.chance(19, 20) else n)
        m = rng.choice([0, R, R, W, W, R | W, R | W, R | W, rng.below(256)])
        x = rng.below(100)
        if x < 30:
            ops.append('T %d %d %d' % (d, m, rng.below(3)))
        elif x < 42:
            ops.append('xfer %d %d' % (d, m))
        elif x < 57:
            ops.append('start %d %d' % (d, m))
        elif x < 70:
            ops.append('end %d %d' % (d, m))
        elif x < 77:
            ops.append('xstart %d %d' % (d, m))
        elif x < 81:
            ops.append('xend %d %d' % (d, m))
        elif x < 87:
            ops.append('sync %d %d' % (d, rng.below(n)))
        elif x < 93:
            ops.append('bump %d' % d)
        elif x < 98:
            ops.append('setxs %d %d' % (d, rng.range(0, 2)))
        else:
            ops.append(rng.choice(['attach %d 4 %d' % (d, rng.below(4)), 'bogus', 'T %d 300 0' % d, 'start %d' % d, 'new 0 0']))
    return ops


def load_corpus():
    cs = []
    d = os.path.join(pv.ROOT, 'corpus', PROP)
    if os.path.isdir(d):
        for f in sorted(os.listdir(d)):
            if f.endswith('.case'):
                cs.append((f, [l.strip() for l in open(os.path.join(d, f)) if l.strip() and not l.startswith('#')]))
    return cs


# ------------------------------------------------------------------ build
def build_harness(ctx, res):
    """chk.o = the tree's parsec/data.c compiled with live asserts, the three functions renamed chk_*, every
    other symbol made local; linked into the harness next to the library under test."""
    mc, _ = pv.mpi_flags()
    src = os.path.join(pv.REPO, 'parsec', 'data.c')
    o0, o1, o2 = ctx.path('chk0.o'), ctx.path('chk1.o'), ctx.path('chk.o')
    cmd = ['gcc', '-O1', '-g', '-mcx16', '-DBUILDING_PARSEC', '-DPARSEC_VERIF', '-UNDEBUG', '-Wno-unused-parameter',
           '-I' + pv.REPO, '-I' + os.path.join(pv.REPO, 'parsec', 'include'), '-I' + ctx.build,
           '-I' + os.path.join(ctx.build, 'parsec', 'include')] + mc + ['-c', src, '-o', o0]
    rc, o, e = pv.sh(cmd, timeout=300)
    if rc != 0:
        res.infra_errors.append('compile of data.c with asserts failed: ' + (o + e)[-1200:]); return None
    ren = []
    for a, b in (('parsec_data_start_transfer_ownership_to_copy', 'chk_start'), ('parsec_data_end_transfer_ownership_to_copy', 'chk_end'),
                 ('parsec_data_transfer_ownership_to_copy', 'chk_xfer')):
        ren += ['--redefine-sym', '%s=%s' % (a, b)]
    rc, o, e = pv.sh(['objcopy'] + ren + [o0, o1])
    rc2, o_, e_ = pv.sh(['objcopy', '-G', 'chk_start', '-G', 'chk_end', '-G', 'chk_xfer', o1, o2])
    if rc != 0 or rc2 != 0:
        res.infra_errors.append('objcopy failed: ' + (o + e + o_ + e_)[-800:]); return None
    exe = ctx.path('C26')
    ok, log = pv.cc_harness(os.path.join(pv.ROOT, 'harness', 'C26.c'), exe, ctx.build, extra=[o2], sanitize=True)
    if not ok:
        res.infra_errors.append('harness compile failed: ' + log[-1500:]); return None
    return exe


ENV = {'ASAN_OPTIONS': 'detect_leaks=0'}


def run_cases(ctx, exe, cases):
    return pv.run_script(exe, 'pv_C26', cases, env=ENV, use_driver=ctx.driver_ok, timeout=1500)


def impl_only(exe, ops):
    return pv.run_script(exe, 'pv_C26', [ops], env=ENV, use_driver=False, timeout=60)[0][0]['impl']


class Acc:
    def __init__(self):
        self.hist = {}
        self.stats = {'cases': 0, 'pure_cases': 0, 'pure_steps': 0, 'issued_transfers': 0, 'sources_named': 0, 'rejected_calls': 0,
                      'h1_violating_steps': 0, 'h2_violating_steps': 0, 'steps_in_safe_prefix': 0, 'finding_family_hits': 0}
        self.found_known = None


def shrink_failure(exe, ops, pred):
    """ddmin over the non-fabrication ops, keeping the init block"""
    k = is_init_block(ops)
    head, tail = ops[:k], ops[k:]
    small = pv.ddmin(tail, lambda t: pred(head + t), max_tests=150)
    return head + small


MAX_DIS = 8


def too_many(res):
    """stop once enough concrete failing inputs are in hand; model/implementation disagreements alone never stop the
    search (they are recorded, at most MAX_DIS of them, and the oracle keeps looking for a failing input)"""
    return len([v for v in res.violations if v.get('key') != KNOWN_KEY]) >= 5


def evaluate(ctx, res, exe, acc, r, tag):
    """oracle + correspondence on one executed case"""
    res.evaluations += 1
    acc.stats['cases'] += 1
    for o in r['ops']:
        acc.hist[o.split()[0]] = acc.hist.get(o.split()[0], 0) + 1
    acc.stats['rejected_calls'] += r['impl'].count('rejected')
    if r['crashed']:
        res.violations.append({'key': 'C26:crash:' + ' ; '.join(r['ops'][:len(r['impl']) + 1]),
                               'what': 'real code crashed / sanitizer abort (rc=%s) after %d ops: %s' % (r.get('rc'), len(r['impl']), r.get('stderr', '')[-400:]),
                               'case': r['ops']})
        return False
    fails, info = oracle_case(r['ops'], r['impl'])
    if info['pure']:
        acc.stats['pure_cases'] += 1
    acc.stats['pure_steps'] += info['steps']
    acc.stats['issued_transfers'] += info['issued']
    acc.stats['sources_named'] += info['transfers']
    acc.stats['h1_violating_steps'] += info['h1_viol']
    acc.stats['h2_violating_steps'] += info['h2_viol']
    acc.stats['steps_in_safe_prefix'] += info['safe_prefix']
    for f in fails:
        if f['family'] == 'owner-read':
            acc.stats['finding_family_hits'] += 1
            if acc.found_known is None:
                def pred(ops):
                    fs, _ = oracle_case(ops, impl_only(exe, ops))
                    return any(x['family'] == 'owner-read' for x in fs)
                small = shrink_failure(exe, r['ops'][:f['index'] + 1], pred)
                acc.found_known = {'key': KNOWN_KEY, 'what': f['text'] + ' — earlier the owner made a READ-only access to its OWNED copy (end() set it SHARED); a stale SHARED copy is then no longer recognised',
                                   'case': small, 'impl': impl_only(exe, small)}
                res.violations.append(acc.found_known)
        else:
            part = f['part']

            def pred(ops, part=part):
                fs, _ = oracle_case(ops, impl_only(exe, ops))
                return any(x['part'] == part and x['family'] != 'owner-read' for x in fs)
            small = shrink_failure(exe, r['ops'][:f['index'] + 1], pred)
            res.violations.append({'key': 'C26:%s:%s' % (part, ' ; '.join(small)),
                                   'what': f['text'] + (' (history within H1+H2: contradicts theorem history_partial)' if f.get('safe_history') else ''),
                                   'case': small, 'impl': impl_only(exe, small), 'found_by': tag})
            break
    if ctx.driver_ok and r['impl'] != r['model'] and len(res.disagreements) < MAX_DIS:
        small = pv.ddmin(r['ops'], lambda ops: pv.case_disagrees(exe, 'pv_C26', ops, env=ENV), max_tests=150)
        rs = pv.run_script(exe, 'pv_C26', [small], env=ENV, timeout=60)[0][0]
        res.disagreements.append({'case': small, 'impl': rs['impl'], 'model': rs['model'], 'where': tag})
    for o, x in zip(r['ops'], r['impl']):
        if o.split()[0] in ('T', 'xfer', 'start') and '|' in x and not x.startswith('-1 |'):
            res.nontrivial(' ; '.join(r['ops']))       # some call named a transfer source
            break
    return not too_many(res)


def process(ctx, res, exe, acc, results, tag):
    for r in results:
        if not evaluate(ctx, res, exe, acc, r, tag):
            return False
    return True


def explore_states(ctx, res, exe, acc, n, depth, caller_only):
    """every (state, complete transfer) pair reachable within `depth` steps from created(n) and fresh(n), on the REAL
    code: each frontier state is re-fabricated (readers reset to 0) and every op of the alphabet is applied to it.
    caller_only=False: only steps satisfying H1 and H2 are followed (the histories of theorem history_partial);
    caller_only=True : steps satisfying H2 are followed, H1 may be violated (the histories of the property statement).
    A (state, op) pair on which some part of the property fails is replayed as a sequential history from the initial
    state and judged by the same oracle as every other case."""
    alpha = alphabet(n)
    seen = {}
    frontier = []
    for init in (created(n), fresh(n)):
        seen[norm(init)] = (init, [])
        frontier.append(norm(init))
    pairs = 0
    for lvl in range(depth):
        cases, meta = [], []
        for st in frontier:
            for op in alpha:
                cases.append(fabricate((st[0], list(st[1]))) + [op])
                meta.append((st, op))
        if not cases:
            break
        results, _, _, _ = run_cases(ctx, exe, cases)
        nxt = []
        for (st, op), r in zip(meta, results):
            pairs += 1
            res.evaluations += 1
            acc.stats['cases'] += 1
            acc.hist['T'] = acc.hist.get('T', 0) + 1
            if r['crashed']:
                res.violations.append({'key': 'C26:crash:' + ' ; '.join(r['ops']), 'what': 'real code crashed: ' + r.get('stderr', '')[-300:], 'case': r['ops']})
                return pairs, len(seen)
            if ctx.driver_ok and r['impl'] != r['model'] and len(res.disagreements) < MAX_DIS:
                res.disagreements.append({'case': r['ops'], 'impl': r['impl'], 'model': r['model'], 'where': 'explore n=%d' % n})
            out = r['impl'][-1]
            if out == 'rejected':
                acc.stats['rejected_calls'] += 1
                continue
            w = op.split()
            d, m = int(w[1]), int(w[2])
            ret, post = parse_ret_state(out)
            pre = (st[0], list(st[1]))
            acc.stats['issued_transfers'] += 1
            if ret != -1:
                acc.stats['sources_named'] += 1
                res.nontrivial('n=%d %s %s' % (n, st, op))
            h1v, h2 = h1_violation(pre, d, m), h2_ok(post, d, m)
            init, path = seen[st]
            fs = check_step(pre, d, m, ret, post)
            if fs:
                tgt = pre[1][d]
                family_like = (fs[0][0] == 'no-transfer-though-stale' and len(fs) == 1 and any(x.startswith('!') for x in path)
                               and tgt is not None and tgt[0] == 'S' and not any(c is not None and c[0] == 'O' and c[1] > tgt[1] for c in pre[1]))
                if family_like and acc.found_known is not None:
                    acc.stats['finding_family_hits'] += 1
                else:
                    hist = fabricate(init) + [x.lstrip('!') for x in path] + [op]
                    rr, _, _, _ = run_cases(ctx, exe, [hist])
                    if not evaluate(ctx, res, exe, acc, rr[0], 'explore n=%d depth=%d' % (n, lvl + 1)):
                        return pairs, len(seen)
            if not h2 or (h1v and not caller_only):
                continue
            if h1v:
                acc.stats['h1_violating_steps'] += 1
            k = norm(post)
            if k not in seen:
                seen[k] = (init, path + [('!' if h1v else '') + op])
                nxt.append(k)
        frontier = nxt
    return pairs, len(seen)


def run(ctx, res, cases=None):
    exe = build_harness(ctx, res)
    if exe is None:
        return
    rng = pv.Rng(ctx.seed)
    acc = Acc()
    corpus = load_corpus()
    ex = {}
    if cases is not None:
        results, _, _, _ = run_cases(ctx, exe, cases)
        process(ctx, res, exe, acc, results, 'replay')
    else:
        # 1. corpus
        results, _, _, _ = run_cases(ctx, exe, [c for _, c in corpus])
        ok = process(ctx, res, exe, acc, results, 'corpus')
        # 2. exhaustive by state, on the real code
        depth = 6 if ctx.quick else 8
        if ok:
            for n in (2, 3):
                p, s = explore_states(ctx, res, exe, acc, n, depth, caller_only=False)
                ex['H1_H2_histories_n%d' % n] = {'depth': depth, 'state_transfer_pairs': p, 'states': s, 'exhaustive': True}
            for n in (2, 3):
                dd = depth if n == 2 else depth - 2
                p, s = explore_states(ctx, res, exe, acc, n, dd, caller_only=True)
                ex['H2_histories_n%d' % n] = {'depth': dd, 'state_transfer_pairs': p, 'states': s, 'exhaustive': True}
            ok = not too_many(res)
        # 3. all sequences of L complete transfers on 2 devices (no state merging; prefixes are covered by the per-op output)
        L = 3 if ctx.quick else 4
        if ok:
            import itertools
            seqs = [fabricate(init) + list(t) for init in (created(2), fresh(2)) for t in itertools.product(alphabet(2), repeat=L)]
            results, _, _, _ = run_cases(ctx, exe, seqs)
            ok = process(ctx, res, exe, acc, results, 'exhaustive-sequences')
            ex['sequences_n2'] = {'length': L, 'count': len(seqs), 'exhaustive': True}
        # 4. random long pure histories and wild scripts
        if ok:
            npure, nwild = (600, 1500) if ctx.quick else (12000, 30000)
            rcases = [gen_pure(rng.fork(k), rng.range(2, 5), rng.range(4, 14 if ctx.quick else 40)) for k in range(npure)]
            rcases += [gen_wild(rng.fork(100000 + k), rng.range(3, 16 if ctx.quick else 40)) for k in range(nwild)]
            results, _, _, _ = run_cases(ctx, exe, rcases)
            ok = process(ctx, res, exe, acc, results, 'random')
            # 5. the oracle's H1/H2 classification agrees with the theorems' executable hypothesis safeStepD (driver-only run)
            if ctx.driver_ok:
                agree = disagree = 0
                lines, sel = [], []
                for r in results[:npure][:300]:
                    k = is_init_block(r['ops'])
                    base = len(lines)
                    lines += ['case 0'] + r['ops'][:k]
                    for o in r['ops'][k:]:
                        lines += ['safe ' + o[2:], o]
                    sel.append((r, k, base))
                rc, out, err = pv.run_driver('pv_C26', lines)
                for r, k, base in sel:
                    if len(out) < base + 1 + k + 2 * (len(r['ops']) - k) or '|' not in out[base + k]:
                        res.disagreements.append({'case': r['ops'], 'impl': '', 'model': 'driver output too short', 'where': 'hypothesis classification'})
                        break
                    st = parse_state(out[base + k])
                    j = base + 1 + k
                    for o in r['ops'][k:]:
                        sf, rs = out[j], out[j + 1]
                        j += 2
                        if rs == 'rejected':
                            continue
                        ret, post = parse_ret_state(rs)
                        w = o.split()
                        mine = (not h1_violation(st, int(w[1]), int(w[2]))) and h2_ok(post, int(w[1]), int(w[2]))
                        if (sf == '1') == mine:
                            agree += 1
                        else:
                            disagree += 1
                            if len(res.disagreements) < MAX_DIS:
                                res.disagreements.append({'case': r['ops'], 'op': o, 'impl': 'oracle H1&H2 = %s' % mine, 'model': 'safeStepD = ' + sf, 'where': 'hypothesis classification'})
                        st = post
                ex['hypothesis_classification'] = {'agree': agree, 'disagree': disagree}
    res.traces_validated = acc.stats['cases']
    res.rule = ('corpus first; then on the REAL functions: every (state, complete transfer) pair reachable from parsec_data_create-like and all-INVALID data with 2 and 3 device copies within depth 6 (quick) / 8 (thorough) '
                '(alphabet: device x {none, R, W, RW} x bump {none, ++, newest+1}), once following only H1+H2 steps and once following all H2 steps; all sequences of 3 (quick) / 4 (thorough) transfers on 2 devices without state merging; '
                'random histories of 4..40 transfers on 2..5 devices; random scripts on arbitrary fabricated items (1..6 copies, NULL copies, 4 coherency states, transfer status, any owner) mixing start/end/xfer/T/xstart/xend/sync/bump '
                'and malformed lines; all under ASan+UBSan.  distinct = distinct op text resp. (state, op) pair; non-trivial = some call named a transfer source')
    res.samples = [{'ops': c, 'note': f} for f, c in corpus[:2]]
    if acc.found_known:
        res.samples.append({'known_finding_case': acc.found_known['case'], 'impl': acc.found_known.get('impl')})
    res.extra['input_distribution'] = {'op_histogram': acc.hist, 'corpus_cases': len(corpus)}
    res.extra['input_distribution'].update(acc.stats)
    res.extra['exhaustive_parts'] = ex
    if cases is None and acc.found_known is None and not res.violations and not res.infra_errors:
        res.notes.append('the recorded finding %s was NOT reproduced in this run (repaired tree?)' % KNOWN_KEY)


def replay(ctx, res, data):
    cases = [v['case'] for v in data.get('violations', []) if 'case' in v] + [d['case'] for d in data.get('disagreements', []) if 'case' in d]
    run(ctx, res, cases=cases or None)
