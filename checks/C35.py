"""C35 — task buffers and heaps keep every task and prefer the best."""
import os, glob, zlib, re
from concurrent.futures import ThreadPoolExecutor
import pv
PROP = 'C35'
LEAN_MODULE = 'ParsecVerif.Props.C35'
DRIVERS = ['pv_C35']
THEOREMS = ['ParsecVerif.C35.C35_hbb_conservation', 'ParsecVerif.C35.C35_hbb_never_lost', 'ParsecVerif.C35.C35_hbb_best',
            'ParsecVerif.C35.C35_macro_is_micro',
            'ParsecVerif.C35.C35_heap_invariant', 'ParsecVerif.C35.C35_heap_shape', 'ParsecVerif.C35.C35_heap_leftComplete', 'ParsecVerif.C35.C35_heap_nav_defined',
            'ParsecVerif.C35.C35_heap_insert_defined', 'ParsecVerif.C35.C35_heap_order', 'ParsecVerif.C35.C35_heap_conservation',
            'ParsecVerif.C35.C35_heap_returns_top', 'ParsecVerif.C35.C35_split_sizes',
            'ParsecVerif.MaxHeap.pathBits_eq', 'ParsecVerif.MaxHeap.hiBit_eq', 'ParsecVerif.MaxHeap.splitSizes_eq']
IMPL = 'parsec/hbbuffer.c (parsec_hbbuffer_push_all, parsec_hbbuffer_push_all_by_priority, parsec_hbbuffer_pop_best), parsec/maxheap.c (heap_insert, heap_remove, heap_split_and_steal, hiBit)'
ENGINE = 'lean-coop'
LEVEL = 'proof'
LEVEL_TEXT = ('Lean 4 theorems. Buffers (model: one step per shared-memory access — plain read of items[i], CAS, parent push — any number of threads): C35_hbb_conservation: for every initial '
              'buffer content, every program of push_all / push_all_by_priority / pop_best per thread and EVERY interleaving, slots + parent store + tasks in the locals of running operations + tasks in the callers\' hands '
              'is constant as a multiset (nothing lost, nothing duplicated; overflow is handed to the parent store); C35_hbb_never_lost: the quiescent corollary; C35_hbb_best: a pop_best that runs alone '
              'returns a task of maximal priority, the one at the lowest index among equals, empties exactly that slot, and returns NULL iff the buffer is empty. Heaps (sequential, as the API requires): for every script of '
              'heap_create / heap_insert / heap_remove / heap_split_and_steal calls on a pool of heaps (fewer than 2^32 calls): C35_heap_shape / C35_heap_leftComplete: every live heap is the left-complete tree with exactly `size` nodes (also in the textbook recursive form: perfect above the last level, last level filled from the left), hence '
              '(C35_heap_nav_defined, C35_heap_insert_defined) the navigation by the bits of `size` never leaves the tree; C35_heap_order: the top has the highest priority and heap->priority equals it; '
              'C35_heap_conservation: heaps + returned = inserted as multisets; C35_heap_returns_top: remove and split return the top = a maximal task and remove exactly it; C35_split_sizes: the hiBit/twoBit size formulas '
              'equal the real subtree sizes. The integer helpers are modelled literally (or/shift cascade of hiBit, ~highBit & size on 32 bits, the bitmask loops) and proved equal to their meaning (hiBit_eq, splitSizes_eq, pathBits_eq). '
              'Tie on every run: the two real source files are compiled (ASan/UBSan, assertions on) into the harness; heap scripts (1-64 tasks, repeated splits, ties, extreme priorities) and sequential buffer scripts '
              '(sizes 1-8) are compared line by line with the compiled Lean model including the complete tree shape / slot contents / rings handed to the parent; buffers also run under the cooperative scheduler '
              '(hook before every atomic) with 2-4 threads: every executed schedule is replayed step by step on the model (exhaustive DFS for small configurations, PCT and PRNG schedules otherwise).')
LEVEL_NOTE = ('Memory model: sequential consistency; a CAS compares task values, which is pointer comparison as long as task identities in flight are distinct (guaranteed by the ownership precondition: a caller pushes only tasks it holds). '
              'The plain read of a candidate\'s priority in push_all_by_priority / pop_best from a task that another thread may have popped meanwhile is modelled as reading an immutable value (the source comment: task memory is recycled, never freed). '
              'pop_best is "best" only at quiescence (by design: concurrent pushes may insert a better task behind the scan); lock-freedom / termination of the CAS retry loops is not claimed. '
              'Heaps are sequential (the source says so). `unsigned int size` is a natural number; the theorems assume fewer than 2^32 calls (sizes below 2^32; the real mask loop `bitmask <<= 1` needs size < 2^31). '
              'parent_push_fct is modelled as an atomic append to the parent store; buffers hold tasks (offset of parsec_task_t.priority), not heaps. Free-running 2-16 thread stress with a conservation audit is a search for counterexamples, not part of the proof. '
              'Trusted: Lean kernel, the cooperative scheduler and hook H1, the harness.')
TECHNIQUE = ('Lean 4 proof (per-step multiset conservation over all interleavings; scan invariant; shape/order/conservation invariants by structural induction with bit-level arithmetic lemmas); tie = differential '
             'replay of the real code (sequential scripts with full structural comparison, cooperative-scheduler schedules step by step) plus an independent Python oracle of the property statement')
ASSUMPTIONS = ['sequential consistency; parsec_atomic_cas_ptr is atomic',
               'a caller pushes only tasks it holds, each once per ring (API precondition; other calls are rejected, not issued)',
               'tasks are not freed while another thread may still read their priority (PaRSEC recycles task memory)',
               'heap operations are externally serialised (maxheap.h: "not thread safe"); fewer than 2^32 heap calls',
               'b->parent_push_fct is non-NULL and stores the whole ring before returning']

# ------------------------------------------------------------------ independent oracle: heaps
TOK = re.compile(r'\(|\)|\.|-?\d+:\d+|cyclic|\?')


def parse_tree(s):
    """'(5:1 (3:2 . .) .)' -> nested tuples (prio, id, left, right) / None"""
    toks = TOK.findall(s)
    pos = [0]

    def rec():
        t = toks[pos[0]]; pos[0] += 1
        if t == '.':
            return None
        if t != '(':
            raise ValueError('bad tree token %r in %r' % (t, s))
        p, i = toks[pos[0]].split(':'); pos[0] += 1
        l = rec(); r = rec()
        if toks[pos[0]] != ')':
            raise ValueError('missing ) in %r' % s)
        pos[0] += 1
        return (int(p), int(i), l, r)
    t = rec()
    if pos[0] != len(toks):
        raise ValueError('trailing tokens in %r' % s)
    return t


def parse_heap(s):
    """dump -> None (NULL heap) or (size, prio, tree)"""
    s = s.strip()
    if s == '-':
        return None
    a, b, rest = s.split(' ', 2)
    return (int(a), int(b), parse_tree(rest))


def tree_items(t):
    out = []
    st = [t]
    while st:
        x = st.pop()
        if x is not None:
            out.append((x[0], x[1])); st.append(x[2]); st.append(x[3])
    return out


def heap_wf(h):
    """well-formedness of one heap dump, from the property statement: size field = number of nodes, nodes occupy exactly the
    heap positions 1..size (left-complete), no child above its parent, priority field = top priority"""
    if h is None:
        return []
    size, prio, t = h
    bad = []
    pos = {}
    st = [(t, 1)]
    while st:
        x, i = st.pop()
        if x is None:
            continue
        pos[i] = x
        st.append((x[2], 2 * i)); st.append((x[3], 2 * i + 1))
    if len(pos) != size:
        bad.append('size field %d but %d nodes' % (size, len(pos)))
    if sorted(pos) != list(range(1, len(pos) + 1)):
        bad.append('tree is not left-complete: occupied positions %s' % sorted(pos)[:40])
    for i, x in pos.items():
        if i > 1 and i // 2 in pos and pos[i // 2][0] < x[0]:
            bad.append('child %d:%d above its parent %d:%d' % (x[0], x[1], pos[i // 2][0], pos[i // 2][1]))
    if t is not None and prio != t[0]:
        bad.append('heap->priority %d but top priority %d' % (prio, t[0]))
    if t is not None and any(p > t[0] for p, _ in tree_items(t)):
        bad.append('top %d:%d is not the maximum' % (t[0], t[1]))
    return bad


def heap_oracle(ops, impl):
    """The heap half of the property on the implementation's outputs.  Returns failure strings."""
    fails = []
    heaps = {}                 # slot -> (size, prio, tree) of the live heaps
    inserted, returned = [], []
    for o, r in zip(ops, impl):
        w = o.split()
        if r in ('rejected', 'bad-op', '<no-result>', 'null') or w[0] == 'case':
            continue
        try:
            if w[0] == 'hnew':
                heaps[int(w[1])] = (0, 0, None)
            elif w[0] == 'hins':
                h = int(w[1]); new = (int(w[2]), int(w[3]))
                old = sorted(tree_items(heaps[h][2])) if h in heaps else []
                hp = parse_heap(r[3:])
                heaps[h] = hp
                inserted.append(new)
                if sorted(tree_items(hp[2])) != sorted(old + [new]):
                    fails.append('%s: heap content is not the old content plus the inserted task: %s' % (o, r))
                fails += ['%s: %s' % (o, b) for b in heap_wf(hp)]
            elif w[0] in ('hrem', 'hsplit'):
                h = int(w[1])
                old = sorted(tree_items(heaps[h][2]))
                tk, rest = r.split(' ', 1)
                ret = tuple(int(x) for x in tk.split(':'))
                returned.append(ret)
                parts = [parse_heap(x) for x in rest.split(' | ')]
                if ret not in old or ret[0] != max(p for p, _ in old):
                    fails.append('%s: returned %s which is not a highest-priority task of the heap %s' % (o, tk, old))
                left = []
                for hp in parts:
                    fails += ['%s: %s' % (o, b) for b in heap_wf(hp)]
                    if hp is not None:
                        left += tree_items(hp[2])
                if sorted(left + [ret]) != old:
                    fails.append('%s: tasks lost or duplicated: before %s, returned %s, left %s' % (o, old, tk, sorted(left)))
                if parts[0] is None:
                    heaps.pop(h, None)
                else:
                    heaps[h] = parts[0]
                if w[0] == 'hsplit':
                    if parts[1] is not None:
                        heaps[int(w[2])] = parts[1]
                    if len(old) >= 3 and (parts[0] is None or parts[1] is None):
                        fails.append('%s: a heap of %d tasks was not split into two heaps' % (o, len(old)))
        except (ValueError, IndexError, KeyError) as ex:
            fails.append('%s: unparsable / inconsistent result %r (%s)' % (o, r, ex))
    live = [x for h in heaps.values() if h is not None for x in tree_items(h[2])]
    if sorted(live + returned) != sorted(inserted) and not fails:
        fails.append('end of script: heaps + returned != inserted')
    return fails


def lc_sizes(n):
    """sizes of the left and right subtree of the left-complete tree with n nodes (by counting positions)"""
    def cnt(i):
        c = 0; lo = hi = i
        while lo <= n:
            c += min(hi, n) - lo + 1
            lo, hi = 2 * lo, 2 * hi + 1
        return c
    return (cnt(2), cnt(3)) if n >= 1 else (0, 0)


def gen_heap_case(rng, quick):
    """one script: a heap of 1..64 tasks, then repeated splits / removes / further inserts on the pool"""
    ops = ['hnew 0']
    sizes = {0: 0}
    free_ids = list(range(256))
    style = rng.below(6)       # priority distribution

    def prio():
        if style == 0: return rng.range(0, 3)                      # many ties
        if style == 1: return rng.range(-5, 5)
        if style == 2: return rng.choice([-2147483648, 2147483647, -1, 0, 1, rng.range(-100, 100)])
        if style == 3: return 7                                     # all equal
        return rng.range(-1000, 1000)
    used = {}

    def ins(h):
        if not free_ids:
            return
        i = free_ids.pop(rng.below(len(free_ids)))
        ops.append('hins %d %d %d' % (h, prio(), i)); sizes[h] += 1; used.setdefault(h, []).append(i)
    n0 = rng.choice([1, 2, 3, 4, 5, 6, 7, 8, 15, 16, 17, 31, 32, 33, 63, 64]) if rng.chance(1, 2) else rng.range(1, 64)
    for _ in range(n0):
        ins(0)
    steps = rng.range(4, 40 if quick else 120)
    for _ in range(steps):
        live = [h for h in sizes if sizes[h] > 0]
        r = rng.below(100)
        if not live or r < 8:
            h = rng.below(8)
            if h not in sizes:
                ops.append('hnew %d' % h); sizes[h] = 0
            ins(h)
            continue
        h = rng.choice(live)
        if r < 45:
            empt = [g for g in range(8) if g not in sizes]
            if not empt:
                ops.append('hrem %d' % h); n = sizes[h]
            else:
                g = rng.choice(empt)
                ops.append('hsplit %d %d' % (h, g))
                n = sizes[h]
                if n >= 3:
                    a, b = lc_sizes(n); sizes[g] = a; sizes[h] = b + 1   # +1: undone below
                elif n == 2:
                    pass
            sizes[h] -= 1
            if sizes[h] <= 0:
                del sizes[h]
            # ids of returned tasks become free again only in the implementation's view; keep them unused here
        elif r < 75:
            ops.append('hrem %d' % h); sizes[h] -= 1
            if sizes[h] <= 0:
                del sizes[h]
        elif r < 95:
            ins(h)
        elif r < 97:
            ops.append('hsplit %d %d' % (h, rng.below(8)))            # possibly an occupied / identical target: rejected
            # unknown outcome: stop tracking precisely
            break
        else:
            ops.append(rng.choice(['hrem %d' % rng.below(9), 'hnew %d' % rng.below(9), 'hins %d 1 %d' % (rng.below(9), rng.below(256))]))
            break
    # drain one heap completely: every task comes back exactly once, in non-increasing priority order
    if sizes and rng.chance(2, 3):
        h = rng.choice(list(sizes))
        for _ in range(sizes[h] + 1):
            ops.append('hrem %d' % h)
    return ops


# ------------------------------------------------------------------ independent oracle: sequential buffer scripts
def parse_bres(r):
    """'<res> s=[..] up=[d:ids ..]' -> (res, slots, calls)"""
    m = re.match(r'^(\S+) s=\[([^\]]*)\] up=\[([^\]]*)\]$', r)
    if not m:
        raise ValueError('bad result %r' % r)
    slots = [int(x) for x in m.group(2).split()]
    calls = []
    for c in m.group(3).split():
        d, ids = c.split(':')
        calls.append((int(d), [int(x) for x in ids.split(',')] if ids else []))
    return m.group(1), slots, calls


def bseq_oracle(ops, impl):
    fails = []
    prio, slots, parent, hand = {}, [], [], set()
    for o, r in zip(ops, impl):
        w = o.split()
        if r in ('bad-op', '<no-result>'):
            continue
        try:
            if w[0] == 'bnew':
                prio = {i + 1: int(p) for i, p in enumerate(w[3:])}
                slots = [0] * int(w[1]); parent = []; hand = set(prio)
            elif w[0] in ('ba', 'by'):
                if r == 'rejected':
                    continue
                ring = [] if w[2] == '-' else [int(x) for x in w[2].split(',')]
                res, ns, calls = parse_bres(r)
                up = [x for _, ids in calls for x in ids]
                before = sorted([x for x in slots if x] + ring)
                after = sorted([x for x in ns if x] + up)
                if before != after:
                    fails.append('%s: tasks lost or duplicated: slots+ring before %s, slots+parent after %s (%s)' % (o, before, after, r))
                if int(w[1]) != 0 and (ns != slots or sorted(up) != sorted(ring)):
                    fails.append('%s: distance != 0 must hand the whole ring to the parent and leave the buffer alone (%s)' % (o, r))
                if int(w[1]) == 0 and up and 0 in ns:
                    fails.append('%s: tasks went to the parent store although a slot is free (%s)' % (o, r))
                if w[0] == 'by' and int(w[1]) == 0 and up and all(prio[a] >= prio[b] for a, b in zip(ring, ring[1:])):
                    # "prefer the best": for a ring in the documented order (decreasing priority) what overflows is never better than what stays
                    if max(prio[x] for x in up) > min(prio[x] for x in ns if x):
                        fails.append('%s: a task of priority %d was sent to the parent while a task of priority %d stays in the buffer (%s)' % (
                            o, max(prio[x] for x in up), min(prio[x] for x in ns if x), r))
                if any(d != int(w[1]) - 1 for d, _ in calls):
                    fails.append('%s: parent called with distance %s' % (o, [d for d, _ in calls]))
                hand -= set(ring); slots = ns; parent += up
            elif w[0] == 'bo':
                res, ns, calls = parse_bres(r)
                got = int(res)
                held = [(prio[x], -i, x) for i, x in enumerate(slots) if x]
                if not held:
                    if got != 0 or ns != slots:
                        fails.append('%s: empty buffer but result %s' % (o, r))
                else:
                    best = max(held)           # highest priority, lowest index among equals
                    if got != best[2]:
                        fails.append('%s: returned task %d (priority %s) but the best is task %d (priority %d, slot %d); slots %s' % (
                            o, got, prio.get(got), best[2], best[0], -best[1], slots))
                    exp = list(slots); exp[-best[1]] = 0
                    if ns != exp:
                        fails.append('%s: slots after the pop %s, expected %s' % (o, ns, exp))
                if got:
                    hand.add(got)
                slots = ns
            elif w[0] == 'bt':
                hand |= set(parent); parent = []
            if prio and sorted([x for x in slots if x] + parent + sorted(hand)) != sorted(prio):
                fails.append('%s: conservation broken: slots %s parent %s hand %s' % (o, slots, parent, sorted(hand)))
        except (ValueError, IndexError, KeyError) as ex:
            fails.append('%s: unparsable / inconsistent result %r (%s)' % (o, r, ex))
    return fails


def gen_bseq_case(rng, quick):
    size = rng.range(1, 8)
    n = rng.range(max(2, size), min(20, size + 10))
    style = rng.below(4)
    prios = [rng.range(0, 2) if style == 0 else 5 if style == 1 else rng.range(-50, 50) if style == 2 else rng.choice([-2147483648, 2147483647, 0, 1]) for _ in range(n)]
    ops = ['bnew %d P %s' % (size, ' '.join(map(str, prios)))]
    hand, inbuf, par = list(range(1, n + 1)), [], []
    for _ in range(rng.range(6, 40 if quick else 100)):
        r = rng.below(100)
        if r < 50 and hand:
            k = min(len(hand), rng.range(1, 5))
            ring = []
            for _ in range(k):
                ring.append(hand.pop(rng.below(len(hand))))
            kind = 'ba' if rng.chance(2, 5) else 'by'
            if kind == 'by' and rng.chance(4, 5):
                ring.sort(key=lambda x: -prios[x - 1])            # the documented input order: decreasing priority
            d = 0 if rng.chance(9, 10) else rng.choice([1, 2, -1])
            ops.append('%s %d %s' % (kind, d, ','.join(map(str, ring))))
            inbuf += ring                                          # in the buffer or in the parent: unknown here
        elif r < 85:
            ops.append('bo')
        elif r < 92:
            ops.append('bt'); hand = list(range(1, n + 1))         # over-approximation: rejected pushes are fine
            hand = [x for x in hand if rng.chance(3, 4)]
        elif r < 96:
            ops.append('%s %d -' % (rng.choice(['ba', 'by']), rng.choice([0, 0, 1])))
        else:
            ops.append('%s 0 %d,%d' % (rng.choice(['ba', 'by']), rng.range(1, n), rng.range(1, n)))   # often not owned / duplicate
    return ops


# ------------------------------------------------------------------ cooperative-scheduler cases
def small_bcases(ctx):
    """(case text, DFS cap): exhaustive schedule enumeration for small configurations"""
    q = ctx.quick
    cs = [
        ('1 P 5 3 S 0 T 1 a:0:1 T 2 a:0:2', 100000),                       # two pushers race for the only slot
        ('1 P 5 3 S 1 T - o T 2 y:0:2', 100000),                           # pop against eject-or-fill
        ('2 P 5 3 9 S 1 2 T 3 y:0:3 T - o', 100000),                       # the candidate is popped under the pusher (CAS fails, rescan)
        ('2 P 5 3 9 1 S 1 2 T 3 y:0:3 T 4 y:0:4', 100000),                 # two priority pushes into a full buffer
        ('2 P 1 2 3 S 0 0 T 1,2 a:0:1,2 T 3 a:0:3', 100000),
        ('2 P 4 4 4 S 1 0 T 2 y:0:2 T - o T 3 a:0:3', 3000 if q else 200000),
        ('1 P 5 3 S 1 T - o a:0:1 T 2 y:0:2', 100000),                     # pop and push back the same task (ABA on the slot)
        ('2 P 5 3 9 S 1 2 T - o y:0:1 T 3 y:0:3', 3000 if q else 200000),
        ('3 P 1 2 3 4 5 S 1 0 2 T 3,4 y:0:4,3 T - o o', 3000 if q else 300000),
        ('2 P 7 7 7 7 S 1 2 T 3,4 a:0:3,4 T - o T - o', 3000 if q else 300000),
    ]
    if not q:
        cs += [('2 P 1 2 3 4 S 0 0 T 1,2 y:0:2,1 T 3,4 y:0:4,3 T - o', 300000),
               ('3 P 3 1 2 9 S 1 2 3 T 4 y:0:4 T - o o', 300000),
               ('2 P 5 3 9 1 7 S 1 2 T 3,5 y:0:3 y:0:5 T 4 y:0:4 o T - o o', 300000),          # 2324 schedules
               ('2 P 1 2 3 4 5 6 S 0 0 T 1,2 a:0:1,2 o T 3,4 y:0:4,3 o T 5,6 a:0:5 y:0:6', 20000)]   # 44525 schedules: a prefix
    return cs


def gen_bcase(rng, quick):
    size = rng.range(1, 8) if rng.chance(1, 2) else rng.range(1, 3)
    nthr = rng.range(2, 4 if quick else 6)
    n = rng.range(size + 1, min(24, size + 3 * nthr + 2))
    style = rng.below(3)
    prios = [rng.range(0, 2) if style == 0 else rng.range(-9, 9) if style == 1 else 4 for _ in range(n)]
    ids = list(range(1, n + 1))
    for i in range(n - 1, 0, -1):
        j = rng.below(i + 1); ids[i], ids[j] = ids[j], ids[i]
    slots = []
    for _ in range(size):
        slots.append(ids.pop() if ids and rng.chance(1, 2) else 0)
    owns = [[] for _ in range(nthr)]
    for x in ids:
        if rng.chance(9, 10):
            owns[rng.below(nthr)].append(x)
    words = ['%d' % size, 'P'] + [str(p) for p in prios] + ['S'] + [str(s) for s in slots]
    for t in range(nthr):
        mine = list(owns[t]); ops = []
        for _ in range(rng.range(1, 4)):
            r = rng.below(100)
            if r < 55 and mine:
                k = min(len(mine), rng.range(1, 3))
                ring = [mine.pop(rng.below(len(mine))) for _ in range(k)]
                kind = 'a' if rng.chance(2, 5) else 'y'
                if kind == 'y' and rng.chance(3, 4):
                    ring.sort(key=lambda x: -prios[x - 1])
                ops.append('%s:%d:%s' % (kind, 0 if rng.chance(9, 10) else 1, ','.join(map(str, ring))))
            elif r < 92:
                ops.append('o'); mine.append(rng.range(1, n))       # may have popped anything: later pushes may be rejected
            else:
                ops.append('%s:0:%d' % (rng.choice('ay'), rng.range(1, n)))
        words += ['T', ','.join(map(str, owns[t])) if owns[t] else '-'] + ops
    return ' '.join(words)


def bcase_conservation(caseline, final):
    """every task of the case is in exactly one place at the end (from the `final` line of the real run)"""
    w = caseline.split(' | ')[0].split()
    i = w.index('P'); j = w.index('S')
    n = j - i - 1
    m = re.match(r'^s=\[([^\]]*)\] parent=\[([^\]]*)\] hands=\[([^\]]*)\]$', final)
    if not m:
        return ['unparsable final line %r' % final]
    where = {}
    for x in m.group(1).split():
        if x != '0':
            where.setdefault(int(x), []).append('slot')
    for c in m.group(2).split():
        for x in c.split(':')[1].split(','):
            if x:
                where.setdefault(int(x), []).append('parent')
    for t, h in enumerate(m.group(3).split('|')):
        for x in h.split():
            where.setdefault(int(x), []).append('T%d' % t)
    # tasks of the case: in the initial slots or owned by a thread
    k = j + 1
    init = set()
    while k < len(w) and w[k] != 'T':
        if w[k] != '0':
            init.add(int(w[k]))
        k += 1
    while k < len(w):
        k += 1
        if w[k] != '-':
            init |= {int(x) for x in w[k].split(',')}
        k += 1
        while k < len(w) and w[k] != 'T':
            k += 1
    bad = []
    for x in sorted(init | set(where)):
        if x in init and len(where.get(x, [])) != 1:
            bad.append('task %d is in %s' % (x, where.get(x, 'no place')))
        if x not in init and x in where:
            bad.append('task %d appeared from nowhere in %s' % (x, where[x]))
    return bad


def run_bbatch(exe, lines, driver_ok, timeout):
    out = {'runs': 0, 'steps': 0, 'dis': [], 'viol': [], 'keys': set(), 'stats': {}, 'samples': [], 'dist': {}, 'incomplete': 0}
    rc, text, err = pv.sh([exe], input='\n'.join(lines) + '\n', timeout=timeout)
    ops, impl, stats, viols = pv.parse_transcript(text)
    out['stats'] = stats
    if rc != 0:
        out['viol'].append({'key': 'C35-harness-exit-%d' % rc, 'what': 'harness exited with %d after %d lines; last op: %s; stderr: %s' % (
            rc, len(ops), ops[-1] if ops else None, err[-600:]), 'case': lines[0] if lines else ''})
    idx = [i for i, o in enumerate(ops) if not o.startswith('bstress')]
    if driver_ok and idx:
        mops = [ops[i] for i in idx]
        rcd, model, derr = pv.run_driver('pv_C35', mops, timeout=timeout)
        if rcd != 0:
            out['dis'].append({'op': '<driver>', 'impl': '', 'model': 'driver exit %d: %s' % (rcd, derr[-300:])})
        dis = pv.compare(mops, [impl[i] for i in idx], model)
        if dis:
            # attach the replayable case: the case line with the executed schedule
            first = dis[0]
            k = first['index']
            while k >= 0 and not mops[k].startswith('bcase'):
                k -= 1
            if k >= 0:
                sched = []
                for o2 in mops[k + 1:]:
                    if o2.startswith('bcase'):
                        break
                    if o2.startswith('step'):
                        sched.append(o2.split()[1])
                first['case'] = mops[k].split(' | ')[0] + ' | replay ' + ' '.join(sched)
        out['dis'] += dis[:20]
    starts = [i for i, o in enumerate(ops) if o.startswith('bcase')] + [len(ops)]
    for a, b in zip(starts, starts[1:]):
        caseline = ops[a]
        if impl[a] != 'ok':
            continue
        steps = [ops[i].split()[1] for i in range(a + 1, b) if ops[i].startswith('step')]
        rets = final = None
        for i in range(a + 1, b):
            if ops[i] == 'rets': rets = impl[i]
            elif ops[i] == 'final': final = impl[i]
        out['runs'] += 1; out['steps'] += len(steps)
        replay = caseline.split(' | ')[0] + ' | replay ' + ' '.join(steps)
        if rets is None or rets == 'incomplete' or final is None:
            out['incomplete'] += 1
            continue
        for bad in bcase_conservation(caseline, final)[:3]:
            out['viol'].append({'key': 'C35:' + replay, 'what': 'task lost or duplicated: ' + bad + ' (final: ' + final + ')', 'case': replay})
        switches = sum(1 for x, y in zip(steps, steps[1:]) if x != y)
        nthr = caseline.split(' | ')[0].split().count('T')
        for x in rets.strip('[]').replace('|', ' ').split():
            kk = 'pop:null' if x == '0' else 'rej' if x == 'rej' else 'push' if x == 'ok' else 'pop'
            out['dist'][kk] = out['dist'].get(kk, 0) + 1
        if switches >= nthr and len(steps) >= 4:
            out['keys'].add(zlib.crc32(replay.encode()))
            if len(out['samples']) < 1 and len(steps) > 8:
                out['samples'].append({'case': replay, 'rets': rets, 'final': final})
    if not out['viol']:     # harness-side audit (covers the free-running rounds, which have no replayable schedule)
        for v in viols[:3]:
            out['viol'].append({'key': 'C35-harness-audit', 'what': v, 'case': v})
    return out


def corpus(kind):
    cs = []
    for f in sorted(glob.glob(os.path.join(pv.ROOT, 'corpus', PROP, '*.case'))):
        ls = [l.strip() for l in open(f) if l.strip() and not l.startswith('#')]
        if not ls:
            continue
        isb = ls[0].startswith('bcase')
        if kind == 'bcase' and isb:
            cs += ls
        elif kind == 'script' and not isb:
            cs.append(ls)
    return cs


def script_fails(ops, impl):
    return heap_oracle(ops, impl) + bseq_oracle(ops, impl)


def eval_scripts(exe_a, scripts, driver_ok, env):
    """sequential scripts on the ASan/UBSan build: exact comparison with the model + the Python oracle"""
    out = {'evals': 0, 'hist': {}, 'viol': [], 'dis': [], 'keys': set(), 'samples': [], 'traces': 0}
    if not scripts:
        return out
    hist = out['hist']
    results, stats, viols, (rc, err) = pv.run_script(exe_a, 'pv_C35', scripts, env=env, use_driver=driver_ok, timeout=3000)
    for k, r in enumerate(results):
        out['evals'] += 1
        for o in r['ops']:
            hist[o.split()[0]] = hist.get(o.split()[0], 0) + 1
        if r['crashed']:
            out['viol'].append({'key': 'crash:' + ' ; '.join(r['ops'][:len(r['impl']) + 1][-6:]), 'what': 'real code crashed / assertion / sanitizer abort (rc=%s) in a script after %d ops: %s' % (
                r.get('rc'), len(r['impl']), r.get('stderr', '')[-500:]), 'case': r['ops'][:len(r['impl']) + 1]})
            break
        fails = script_fails(r['ops'], r['impl'])
        if fails:
            def failing(ops):
                rr = pv.run_script(exe_a, 'pv_C35', [ops], env=env, use_driver=False, timeout=60)[0][0]
                return rr['crashed'] or bool(script_fails(ops, rr['impl']))
            small = pv.ddmin(r['ops'], failing, max_tests=120)
            rr = pv.run_script(exe_a, 'pv_C35', [small], env=env, use_driver=False, timeout=60)[0][0]
            sf = script_fails(small, rr['impl']) or fails
            out['viol'].append({'key': ' ; '.join(small), 'what': sf[0], 'case': small, 'all_failures': sf[:5]})
        if driver_ok and r['impl'] != r['model'] and not fails:
            small = pv.ddmin(r['ops'], lambda ops: pv.case_disagrees(exe_a, 'pv_C35', ops, env=env), max_tests=120)
            rs = pv.run_script(exe_a, 'pv_C35', [small], env=env, timeout=60)[0][0]
            out['dis'].append({'case': small, 'impl': rs['impl'], 'model': rs['model']})
        ops = r['ops']
        if ops and ops[0].startswith('bnew'):
            nontriv = any(o == 'bo' and not i.startswith('0 ') for o, i in zip(ops, r['impl'])) and any('up=[' in i and 'up=[]' not in i for i in r['impl'])
        else:
            nontriv = sum(1 for o in ops if o.startswith('hins')) >= 8 and any(o.startswith('hsplit') and ' | ' in i and not i.endswith('| -') for o, i in zip(ops, r['impl']))
        if nontriv:
            out['keys'].add('%08x' % zlib.crc32(' ; '.join(ops).encode()))
        if len(out['viol']) + len(out['dis']) >= 2:
            break
    if not out['viol']:     # the harness-side audit as a fallback (the Python oracle gives the replayable script)
        for v in viols[:3]:
            out['viol'].append({'key': 'C35-harness-audit', 'what': v, 'case': v})
    out['traces'] = len(results) if driver_ok else 0
    out['samples'] = [{'ops': r['ops'][:14], 'impl': r['impl'][:14]} for r in results[-1:]]
    return out


def run(ctx, res, scripts=None, blines=None):
    src = os.path.join(pv.ROOT, 'harness', 'C35.c')
    real = [os.path.join(pv.REPO, 'parsec', 'maxheap.c'), os.path.join(pv.REPO, 'parsec', 'hbbuffer.c')]
    exe_a, exe = ctx.path('C35_asan'), ctx.path('C35')
    with ThreadPoolExecutor(max_workers=2) as ex:
        fa = ex.submit(pv.cc_harness, src, exe_a, ctx.build, real, True)
        fb = ex.submit(pv.cc_harness, src, exe, ctx.build, real, False)
        (ok, log), (ok2, log2) = fa.result(), fb.result()
    if not (ok and ok2):
        res.infra_errors.append('harness compile failed: ' + (log + log2)[-1500:]); return
    env = {'ASAN_OPTIONS': 'detect_leaks=0'}
    rng = pv.Rng(ctx.seed)
    replaying = scripts is not None or blines is not None
    # ---------------- sequential scripts (heaps, buffers): exact comparison + oracle, under ASan/UBSan
    if scripts is None and not replaying:
        nh, nb = (260, 260) if ctx.quick else (6000, 6000)
        scripts = corpus('script') + [gen_heap_case(rng.fork(k), ctx.quick) for k in range(nh)] + [gen_bseq_case(rng.fork(100000 + k), ctx.quick) for k in range(nb)]
    scripts = scripts or []
    nchunk = 3 if ctx.quick else 6
    per = max(1, (len(scripts) + nchunk - 1) // nchunk)
    jobs = [('s', scripts[i:i + per]) for i in range(0, len(scripts), per)]
    # ---------------- buffers under the cooperative scheduler + free-running stress
    batches = []
    if blines is not None:
        batches = [[l] for l in blines]
    elif not replaying:
        k = 0
        cl = corpus('bcase')
        if cl:
            batches.append(cl)
        pct = []
        for c, cap in small_bcases(ctx):
            batches.append(['bcase %d %s | dfs %d' % (k, c, cap)]); k += 1
            for _ in range(20 if ctx.quick else 500):
                pct.append('bcase %d %s | pct %d %d' % (k, c, rng.next() % 1000000007, rng.range(2, 4))); k += 1
        batches += [pct[i:i + 250] for i in range(0, len(pct), 250)]
        rnd = []
        for _ in range(500 if ctx.quick else 15000):
            pol = 'rng %d' % (rng.next() % 1000000007) if rng.chance(1, 2) else 'pct %d %d' % (rng.next() % 1000000007, rng.range(2, 4))
            rnd.append('bcase %d %s | %s' % (k, gen_bcase(rng, ctx.quick), pol)); k += 1
        chunk = 125 if ctx.quick else 1000
        batches += [rnd[i:i + chunk] for i in range(0, len(rnd), chunk)]
        for th, sz, nt, ro, op in ([(2, 1, 6, 200, 30), (3, 2, 9, 200, 30), (4, 4, 16, 150, 40), (8, 8, 40, 100, 40), (16, 3, 50, 60, 40)] if ctx.quick else
                                   [(2, 1, 4, 4000, 30), (2, 2, 8, 4000, 40), (3, 2, 9, 4000, 40), (4, 4, 16, 3000, 50), (6, 5, 24, 3000, 50), (8, 8, 40, 2000, 60), (12, 6, 50, 1500, 60), (16, 3, 60, 1500, 60), (16, 16, 63, 1500, 60)]):
            batches.append(['bstress %d %d %d %d %d %d %d' % (k, rng.next() % 1000000007, th, sz, nt, ro, op)]); k += 1
    stats, dist, keys = {}, {}, set()
    runs = steps = incomplete = 0
    hist = {}
    jobs += [('b', b) for b in batches]
    if jobs:
        def do(j):
            return eval_scripts(exe_a, j[1], ctx.driver_ok, env) if j[0] == 's' else run_bbatch(exe, j[1], ctx.driver_ok, 3000)
        with ThreadPoolExecutor(max_workers=5 if ctx.quick else 7) as ex:
            outs = list(ex.map(do, jobs))
        for j, o in zip(jobs, outs):
            if j[0] == 's':
                res.evaluations += o['evals']
                res.violations += o['viol'][:10]
                res.disagreements += o['dis'][:5]
                res.traces_validated += o['traces']
                res.samples += o['samples']
                for kk in o['keys']:
                    res.nontrivial(kk)
                for k2, v in o['hist'].items():
                    hist[k2] = hist.get(k2, 0) + v
                continue
            runs += o['runs']; steps += o['steps']; incomplete += o['incomplete']
            res.disagreements += o['dis'][:5]
            res.violations += o['viol'][:10]
            keys |= o['keys']
            for k2, v in o['stats'].items():
                stats[k2] = stats.get(k2, 0) + v
            for k2, v in o['dist'].items():
                dist[k2] = dist.get(k2, 0) + v
            res.samples += o['samples'][:1]
    if not ctx.driver_ok:
        res.notes.append('model driver unavailable: correspondence not run, oracle only')
    res.disagreements = res.disagreements[:50]
    res.violations = res.violations[:40]
    res.samples = res.samples[:7]
    res.evaluations += runs + stats.get('stress_rounds', 0)
    for kk in keys:
        res.nontrivial('%08x' % kk)
    res.traces_validated += runs if ctx.driver_ok else 0
    res.rule = ('each evaluation = (a) one sequential script on the real maxheap.c (a heap of 1..64 tasks, then repeated split_and_steal / remove / insert on a pool of 8 heaps, final drain) or on the real hbbuffer.c '
                '(sizes 1..8, push_all / push_all_by_priority of rings of 1..5 tasks, pop_best, take-back), compared line by line with the Lean model (complete tree shapes, slots, rings handed to the parent) and judged by the Python oracle, '
                'or (b) one complete execution of 2-6 threads on one real buffer under the cooperative scheduler (exhaustive DFS for the listed small configurations, PCT / PRNG schedules otherwise), replayed step by step on the model, '
                'or (c) one quiescent audit of a free-running round of 2-16 real threads. distinct = CRC of the script resp. of (case, executed schedule); non-trivial = script with >= 8 inserts and a split into two heaps / with an overflow '
                'and a successful pop; scheduler run with at least as many context switches as threads')
    res.extra['input_distribution'] = dict(stats, script_op_histogram=hist, scheduler_runs=runs, scheduler_steps=steps, results=dist)
    res.extra['incomplete_runs'] = incomplete
    if stats.get('dfs_exhausted_spaces', 0):
        res.extra['exhaustive_spaces'] = stats.get('dfs_exhausted_spaces', 0)


def replay(ctx, res, data):
    scripts, blines = [], []
    for v in data.get('violations', []) + data.get('disagreements', []):
        c = v.get('case')
        if isinstance(c, list):
            scripts.append(c)
        elif isinstance(c, str) and c.startswith('bcase'):
            blines.append(c)
    if scripts or blines:
        run(ctx, res, scripts=scripts or None, blines=blines or None)
    else:
        run(ctx, res)
