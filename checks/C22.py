"""C22 — matrix operators visit each tile once and reduce correctly.

Tie to the code, on every run:
  * the real parsec_apply, parsec_map_operator_New taskpool and the generated reduce / reduce_col / reduce_row
    taskpools are run (1-4 ranks, several thread counts) with logging operators / logging data collections;
    every transcript line is recomputed by the compiled Lean model (pv_C22) and compared;
  * an oracle written from the property text (not from the model) is evaluated on the implementation's output;
  * the task-space headers and the dependency lines of the .jdf files (apply: spaces only) are parsed from the
    current source text, enumerated on sampled sizes and compared with the model's index sets.
"""
import os, re, math, json, concurrent.futures, pv

PROP = 'C22'
LEAN_MODULE = 'ParsecVerif.Props.C22'
DRIVERS = ['pv_C22']
THEOREMS = ['ParsecVerif.C22.apply_exactly_once', 'ParsecVerif.C22.reduce_col_edges_match', 'ParsecVerif.C22.apply_uplo_arg',
            'ParsecVerif.C22.map_never_twice', 'ParsecVerif.C22.map_exactly_once', 'ParsecVerif.C22.map_global',
            'ParsecVerif.C22.reduce_schedule_fold', 'ParsecVerif.C22.reduce_schedule_deterministic',
            'ParsecVerif.C22.reduce_jdf_partial', 'ParsecVerif.C22.reduce_jdf_in_bounds_odd',
            'ParsecVerif.C22.reduce_col_partial', 'ParsecVerif.C22.clog2_spec',
            'ParsecVerif.C22.reduce_full_false', 'ParsecVerif.C22.reduce_jdf_oob_even', 'ParsecVerif.C22.reduce_jdf_edge_mismatch',
            'ParsecVerif.C22.reduce_col_not_pow2', 'ParsecVerif.C22.reduce_wrapper_oob', 'ParsecVerif.C22.reduce_row_reads_column0']
IMPL = ('parsec/data_dist/matrix/apply.jdf + apply_wrapper.c (parsec_apply), map_operator.c (parsec_map_operator_New), '
        'reduce.jdf, reduce_col.jdf, reduce_row.jdf + reduce_wrapper.c')
ASSUMPTIONS = [
    'the PTG runtime executes every task of a task space exactly once, on the rank of its placement, after its inputs (C01/C02); '
    'here the task spaces and dependency structure are what is modelled and tied',
    'map operator: a single virtual process per rank (nb_vp = 1); atomic fetch-and-increment of next_n is one indivisible step (sequentially consistent)',
    'no int overflow in the index arithmetic (mt, nt < 2^30)',
    'reduction bodies: the shipped bodies only printf; the fold theorems are about the tree structure the JDF describes, with a body that combines its inputs',
]
ENV = dict(pv.MPI_ENV)
JDF_DIR = os.path.join(pv.REPO, 'parsec', 'data_dist', 'matrix')

# ------------------------------------------------------------------------------------------------ JDF front end
class CExpr:
    """tiny C expression evaluator (integers, ?:, || && | & == != < > <= >= << >> + - * / %, unary - !, calls)"""
    TOK = re.compile(r'\s*(->|<<|>>|<=|>=|==|!=|&&|\|\||[A-Za-z_][A-Za-z_0-9]*(?:->[A-Za-z_][A-Za-z_0-9]*)*|\d+\.\d+|\d+|.)')

    def __init__(self, text):
        self.toks = [t for t in self.TOK.findall(text) if t.strip()]
        self.i = 0
        self.ast = self.ternary()
        if self.i != len(self.toks):
            raise ValueError('trailing tokens in %r: %r' % (text, self.toks[self.i:]))

    def peek(self):
        return self.toks[self.i] if self.i < len(self.toks) else None

    def take(self, t=None):
        x = self.peek()
        if t is not None and x != t:
            raise ValueError('expected %r got %r' % (t, x))
        self.i += 1
        return x

    def ternary(self):
        c = self.binary(0)
        if self.peek() == '?':
            self.take()
            a = self.ternary()
            self.take(':')
            b = self.ternary()
            return ('?', c, a, b)
        return c

    LEVELS = [['||'], ['&&'], ['|'], ['&'], ['==', '!='], ['<', '>', '<=', '>='], ['<<', '>>'], ['+', '-'], ['*', '/', '%']]

    def binary(self, lv):
        if lv == len(self.LEVELS):
            return self.unary()
        a = self.binary(lv + 1)
        while self.peek() in self.LEVELS[lv]:
            op = self.take()
            b = self.binary(lv + 1)
            a = (op, a, b)
        return a

    def unary(self):
        t = self.peek()
        if t == '-':
            self.take(); return ('neg', self.unary())
        if t == '!':
            self.take(); return ('not', self.unary())
        if t == '(':
            self.take()
            if self.peek() == 'int' and self.toks[self.i + 1] == ')':      # (int) cast
                self.take(); self.take(')')
                return ('int', self.unary())
            e = self.ternary()
            self.take(')')
            return e
        self.take()
        if re.fullmatch(r'\d+\.\d+', t):
            return ('num', float(t))
        if t.isdigit():
            return ('num', int(t))
        if self.peek() == '(':
            self.take()
            args = []
            if self.peek() != ')':
                args.append(self.ternary())
                while self.peek() == ',':
                    self.take(); args.append(self.ternary())
            self.take(')')
            return ('call', t, args)
        return ('var', t)

    def ev(self, env, n=None):
        n = self.ast if n is None else n
        k = n[0]
        if k == 'num':
            return n[1]
        if k == 'var':
            return env[n[1]]
        if k == 'neg':
            return -self.ev(env, n[1])
        if k == 'not':
            return int(not self.ev(env, n[1]))
        if k == 'int':
            return int(self.ev(env, n[1]))
        if k == '?':
            return self.ev(env, n[2]) if self.ev(env, n[1]) else self.ev(env, n[3])
        if k == 'call':
            a = [self.ev(env, x) for x in n[2]]
            return {'ceil': math.ceil, 'log': math.log}[n[1]](*a)
        a, b = self.ev(env, n[1]), self.ev(env, n[2])
        if k == '/':
            if isinstance(a, float) or isinstance(b, float):
                return a / b
            q = abs(a) // abs(b)
            return q if (a >= 0) == (b >= 0) else -q
        if k == '%':
            return a - b * (abs(a) // abs(b) if (a >= 0) == (b >= 0) else -(abs(a) // abs(b)))
        return {'||': lambda: int(bool(a) or bool(b)), '&&': lambda: int(bool(a) and bool(b)), '|': lambda: a | b, '&': lambda: a & b,
                '==': lambda: int(a == b), '!=': lambda: int(a != b), '<': lambda: int(a < b), '>': lambda: int(a > b),
                '<=': lambda: int(a <= b), '>=': lambda: int(a >= b), '<<': lambda: a << b, '>>': lambda: a >> b,
                '+': lambda: a + b, '-': lambda: a - b, '*': lambda: a * b}[k]()


def strip_c(text):
    text = re.sub(r'extern\s+"C"\s*%\{.*?%\}', '', text, flags=re.S)
    text = re.sub(r'/\*.*?\*/', '', text, flags=re.S)
    return re.sub(r'//[^\n]*', '', text)


def parse_jdf(path):
    """returns (globals {name: default expr or None}, tasks {name: {'params': [...], 'ranges': [(var, lo, hi)], 'body': text}})"""
    text = strip_c(open(path).read())
    glob, tasks = {}, {}
    lines = text.split('\n')
    i = 0
    while i < len(lines):
        ln = lines[i]
        m = re.match(r'^([A-Za-z_]\w*)\s*\(([^)]*)\)\s*(\[[^\]]*\])?\s*$', ln)
        if m:
            name, params = m.group(1), [p.strip() for p in m.group(2).split(',') if p.strip()]
            ranges, j = [], i + 1
            while j < len(lines):
                r = re.match(r'^\s*([A-Za-z_]\w*)\s*=\s*(.+?)\s*\.\.\s*(.+?)\s*$', lines[j])
                if r:
                    ranges.append((r.group(1), CExpr(r.group(2)), CExpr(r.group(3))))
                elif lines[j].strip() == '':
                    pass
                else:
                    break
                j += 1
            k = j
            while k < len(lines) and not re.match(r'^\s*BODY', lines[k]):
                k += 1
            tasks[name] = {'params': params, 'ranges': ranges, 'decl': '\n'.join(lines[j:k])}
            i = k
            continue
        g = re.match(r'^([A-Za-z_]\w*)\s*\[', ln)
        if g:
            blk = ln
            while ']' not in blk.split('[', 1)[1] and i + 1 < len(lines):
                i += 1
                blk += ' ' + lines[i]
            d = re.search(r'default\s*=\s*("([^"]*)"|[A-Za-z_0-9]+)', blk)
            glob[g.group(1)] = (d.group(2) if d.group(2) is not None else d.group(1)) if d else None
        i += 1
    return glob, tasks


def enum_space(task, env):
    out = []

    def rec(k, e):
        if k == len(task['ranges']):
            out.append([e[p] for p in task['params']])
            return
        v, lo, hi = task['ranges'][k]
        a, b = lo.ev(e), hi.ev(e)
        for x in range(a, b + 1):
            e2 = dict(e); e2[v] = x
            rec(k + 1, e2)
    rec(0, dict(env))
    return out


def show_space(l):
    return ' '.join(','.join(str(x) for x in t) for t in l) if l else '-'


def split_top(body, ch):
    """position of the first `ch` of `body` outside parentheses, or -1"""
    depth = 0
    for pos, c in enumerate(body):
        if c == '(':
            depth += 1
        elif c == ')':
            depth -= 1
        elif c == ch and depth == 0:
            return pos
    return -1


def parse_deps(decl):
    """flows of a task: [(access, flowname, [(dir, cond CExpr or None, target_true, target_false or None)])]"""
    parts = re.split(r'\b(READ|WRITE|RW)\b', ' '.join(decl.split('\n')))
    flows = []
    for k in range(1, len(parts), 2):
        m = re.match(r'\s*(\w+)\s*(.*)$', parts[k + 1], flags=re.S)
        pieces = re.split(r'(<-|->)', m.group(2))
        deps = []
        for q in range(1, len(pieces), 2):
            body = re.sub(r'\[[^\]]*\]', '', pieces[q + 1]).strip()
            cond, tt, tf = None, body, None
            qm = split_top(body, '?')
            if qm >= 0:
                cond = CExpr(body[:qm])
                rest = body[qm + 1:]
                c = split_top(rest, ':')
                tt, tf = (rest[:c].strip(), rest[c + 1:].strip()) if c >= 0 else (rest.strip(), None)
            deps.append((pieces[q], cond, tt, tf))
        flows.append((parts[k], m.group(1), deps))
    return flows


def eval_target(t, env):
    t = t.strip()
    if t in ('NULL', 'NEW'):
        return t
    m = re.match(r'^(?:(\w+)\s+)?(\w+)\s*\((.*)\)$', t)
    args = []
    depth, cur = 0, ''
    for ch in m.group(3):
        if ch == ',' and depth == 0:
            args.append(cur); cur = ''
        else:
            depth += ch == '('
            depth -= ch == ')'
            cur += ch
    args.append(cur)
    vals = [CExpr(a).ev(env) for a in args]
    return (m.group(1) + ':' if m.group(1) else '') + '%s(%s)' % (m.group(2), ','.join(str(v) for v in vals))


def reduce_deps_line(tasks, env, space):
    """edges of reduce.jdf as the text says, in the driver's format"""
    fl = {f[1]: f for f in parse_deps(tasks['reduce']['decl'])}
    items = []
    for l, p in space:
        e = dict(env, l=l, p=p)
        got = {}
        for name in ('A', 'B'):
            val = 'NONE'
            for d, cond, tt, tf in fl[name][2]:
                if d != '<-':
                    continue
                if cond is None or cond.ev(e):
                    val = eval_target(tt, e)
                    break
                if tf is not None:
                    val = eval_target(tf, e)
                    break
            got[name] = val.split(':', 1)[1] if ':' in val else val      # drop the producer's flow name
        outs = []
        for d, cond, tt, tf in fl['C'][2]:
            if d != '->':
                continue
            if cond is None or cond.ev(e):
                outs.append(eval_target(tt, e))
            elif tf is not None:
                outs.append(eval_target(tf, e))
        items.append('%d,%d:A=%s;B=%s;C=%s' % (l, p, got['A'], got['B'], '+'.join(outs) if outs else 'NONE'))
    return ' '.join(items)


def colrow_deps_line(tasks, leaf, inner, env, depth):
    """edges of reduce_col.jdf / reduce_row.jdf for column 0 as the text says, in the driver's format"""
    lp, ip = tasks[leaf]['params'], tasks[inner]['params']
    lf = parse_deps(tasks[leaf]['decl'])[0]
    fl = {f[1]: f for f in parse_deps(tasks[inner]['decl'])}

    def ins(flow, e):
        for d, cond, tt, tf in flow[2]:
            if d != '<-':
                continue
            if cond is None or cond.ev(e):
                v = eval_target(tt, e)
            elif tf is not None:
                v = eval_target(tf, e)
            else:
                continue
            return v.split(':', 1)[1] if ':' in v else v
        return 'NONE'

    def outs(flow, e):
        o = []
        for d, cond, tt, tf in flow[2]:
            if d != '->':
                continue
            if cond is None or cond.ev(e):
                o.append(eval_target(tt, e))
            elif tf is not None:
                o.append(eval_target(tf, e))
        return '+'.join(o)
    items = []
    for r in range(1 << depth):
        e = dict(env); e[lp[0]] = r; e[lp[1]] = 0
        items.append('in%d:%s' % (r, outs(lf, e)))
    for lv in range(1, depth + 1):
        for i in range(1 << (depth - lv)):
            e = dict(env); e[ip[0]] = lv; e[ip[1]] = i; e[ip[2]] = 0
            items.append('%d,%d:Rbottom=%s;Rtop=%s;out=%s' % (lv, i, ins(fl['Rbottom'], e), ins(fl['Rtop'], e), outs(fl['Rtop'], e)))
    return ' '.join(items)


def jdf_frontend(ctx, res, dist):
    """enumerate the task spaces the .jdf text describes and compare with the model's index sets"""
    ops, impl = [], []
    try:
        mh = open(os.path.join(JDF_DIR, 'matrix.h')).read()
        consts = {k: int(re.search(k + r'\s*=\s*(\d+)', mh).group(1)) for k in ('PARSEC_MATRIX_UPPER', 'PARSEC_MATRIX_LOWER', 'PARSEC_MATRIX_FULL')}
        ag, at = parse_jdf(os.path.join(JDF_DIR, 'apply.jdf'))
        sizes = [(mt, nt) for mt in range(0, 6) for nt in range(0, 6)] + [(7, 3), (3, 7), (9, 9)]
        if not ctx.quick:
            sizes += [(mt, nt) for mt in range(6, 11) for nt in range(0, 11)]
        for mt, nt in sizes:
            for u in (121, 122, 123, 7):
                env = {'descA->mt': mt, 'descA->nt': nt, 'uplo': u}
                for g, d in ag.items():
                    if d is not None:
                        env[g] = consts[d] if d in consts else CExpr(d).ev(env)
                for cls in ('APPLY_L', 'APPLY_U', 'APPLY_DIAG'):
                    ops.append('space %s %d %d %d' % (cls, mt, nt, u))
                    impl.append(show_space(enum_space(at[cls], env)))
        rg, rt = parse_jdf(os.path.join(JDF_DIR, 'reduce.jdf'))
        for MT in list(range(1, 34 if ctx.quick else 80)) + [64, 65, 127, 128, 129]:
            env = {'descA->mt': MT}
            for g in ('MT', 'depth'):
                env[g] = CExpr(rg[g]).ev(env)
            sp = enum_space(rt['reduce'], env)
            ops.append('space reduce %d' % MT)
            impl.append(show_space(sp))
            if MT <= (24 if ctx.quick else 64):
                ops.append('deps reduce %d' % MT)
                impl.append(reduce_deps_line(rt, env, sp))
        for fname, leaf, inner in (('reduce_col.jdf', 'reduce_in_col', 'reduce_col'), ('reduce_row.jdf', 'reduce_in_row', 'reduce_row')):
            cg, ct = parse_jdf(os.path.join(JDF_DIR, fname))
            for depth in range(0, 4 if ctx.quick else 6):
                ops.append('deps %s %d' % (inner, depth))
                impl.append(colrow_deps_line(ct, leaf, inner, {'depth': depth, 'IA': 0, 'JA': 0, 'M': (1 << depth) - 1, 'N': 0}, depth))
            for mt in (1, 2, 3, 4, 5, 8, 9, 16):
                for (IA, JA, M, N) in ((0, 0, mt - 1, 2), (0, 0, 2, mt), (1, 1, 3, 2), (0, 2, 1, 1)):
                    env = {'src->mt': mt, 'IA': IA, 'JA': JA, 'M': M, 'N': N}
                    env['depth'] = CExpr(cg['depth']).ev(env)
                    if leaf == 'reduce_in_col':
                        ops.append('space reduce_in_col %d %d %d %d' % (IA, JA, M, N))
                        ops.append('space reduce_col %d %d %d' % (env['depth'], JA, N))
                    else:
                        ops.append('space reduce_in_row %d %d %d' % (env['depth'], IA, N))
                        ops.append('space reduce_row %d %d %d' % (env['depth'], IA, N))
                    impl.append(show_space(enum_space(ct[leaf], env)))
                    impl.append(show_space(enum_space(ct[inner], env)))
    except Exception as ex:
        import traceback
        res.disagreements.append({'op': '<jdf front end>', 'impl': 'cannot parse the .jdf task-space headers: ' + traceback.format_exc()[-600:], 'model': ''})
        return
    rc, model, err = pv.run_driver('pv_C22', ops)
    dis = pv.compare(ops, impl, model)
    for d in dis[:20]:
        d['source'] = 'task space / dependency text of the .jdf file vs model index set'
    res.disagreements += dis[:20]
    res.evaluations += len(ops)
    dist['jdf_spaces_compared'] = len(ops)
    for o, i in zip(ops, impl):
        if i != '-':
            res.nontrivial(o)


# ------------------------------------------------------------------------------------------------ oracles (from the property text)
def in_region(uplo, m, n):
    return (uplo == 123) or (uplo == 121 and m <= n) or (uplo == 122 and n <= m)


def oracle_apply(op, r):
    _, mt, nt, uplo = op.split()
    mt, nt, uplo = int(mt), int(nt), int(uplo)
    if uplo not in (121, 122, 123):
        return None if r == 'bad-param' else 'invalid uplo %d was not refused: %s' % (uplo, r)
    if ' oob=' not in r:
        return 'unexpected result ' + r
    grid, oob = r.split(' oob=')
    if int(oob) != 0:
        return 'operator invoked %s times outside the matrix' % oob
    rows = grid.split('/')
    if len(rows) != mt or any(len(x) != nt for x in rows):
        return 'malformed grid ' + grid
    for m in range(mt):
        for n in range(nt):
            c = rows[m][n]
            want = in_region(uplo, m, n)
            if want and c not in 'FUL':
                return 'tile (%d,%d) of the %s region: operator invoked %s' % (m, n, {121: 'upper', 122: 'lower', 123: 'full'}[uplo], 'never' if c == '.' else c + ' times')
            if not want and c != '.':
                return 'tile (%d,%d) outside the requested region was visited (%s)' % (m, n, c)
            # element level: on a diagonal tile of a triangular region only that triangle belongs to the region, so the
            # operator must be told so; every other tile belongs to the region entirely
            if want and c != ('F' if (m != n or uplo == 123) else {121: 'U', 122: 'L'}[uplo]):
                return 'tile (%d,%d): the operator was told to work on part %s of the tile, the requested region contains %s' % (
                    m, n, c, 'the whole tile' if (m != n or uplo == 123) else 'only its %s triangle' % {121: 'upper', 122: 'lower'}[uplo])
    return None


def oracle_map_group(lines):
    """lines: [(op, result)] of all ranks for one map case: the union must cover every tile exactly once, each rank its own tiles"""
    w = lines[0][0].split()
    mt, nt = int(w[1]), int(w[2])
    tot = [[0] * nt for _ in range(mt)]
    for op, r in lines:
        loc = op.split()[4].split('/')
        if ' next=' not in r:
            return 'unexpected result %s' % r
        g = r.split(' next=')[0].split('/')
        for m in range(mt):
            for n in range(nt):
                c = int(g[m][n])
                tot[m][n] += c
                if c != int(loc[m][n]):
                    return 'a rank visited tile (%d,%d) %d times but %s it' % (m, n, c, 'owns' if loc[m][n] == '1' else 'does not own')
    for m in range(mt):
        for n in range(nt):
            if tot[m][n] != 1:
                return 'tile (%d,%d) visited %d times over all ranks' % (m, n, tot[m][n])
    return None


def multiset(s):
    return {} if s == '-' else {k: int(v) for k, v in (x.split(':') for x in s.split(','))}


def true_clog2(n):
    d = 0
    while (1 << d) < n:
        d += 1
    return d


def oracle_reduce(op, r, jdf_edges):
    """reduce.jdf: every tile of descA read exactly once, nothing else read, every task once, producers before consumers"""
    MT = int(op.split()[1])
    if not r.startswith('tasks='):
        return ('reduce-run-failed', 'unexpected result ' + r)
    f = dict(x.split('=', 1) for x in r.split())
    reads = multiset(f['reads'])
    bad = sorted(int(k) for k in reads if int(k) >= MT)
    if bad:
        # the known defect is exactly: even MT, one read of descA(MT,0); anything else gets its own key
        key = 'reduce.jdf-reads-tile-outside-matrix' if (MT % 2 == 0 and bad == [MT] and reads[str(MT)] == 1) else 'reduce.jdf-reads-tile-outside-matrix:MT=%d:%s' % (MT, bad)
        return (key, 'reduce.jdf on %d tiles: a task reads descA(%d,0), which does not exist (tiles are 0..%d)' % (MT, bad[0], MT - 1))
    for m in range(MT):
        if reads.get(str(m), 0) != 1:
            return ('reduce.jdf-tile-not-read-once', 'reduce.jdf on %d tiles: descA(%d,0) read %d times' % (MT, m, reads.get(str(m), 0)))
    if any(c != 1 for c in multiset(f['tasks']).values()):
        return ('reduce.jdf-task-not-once', 'a task of reduce.jdf ran more than once: ' + f['tasks'])
    order = op.split()[2]
    if jdf_edges is not None and order != '-':
        done = set()
        for t in order.split(','):
            for prod in jdf_edges.get((MT, t), []):
                if prod not in done:
                    return ('reduce.jdf-consumer-before-producer', 'reduce(%s) ran before its input reduce(%s) (MT=%d)' % (t, prod, MT))
            done.add(t)
    return None


def oracle_colrow(op, r):
    """a reduction over the rows of every column: every tile of the region read exactly once; k > 1 inputs need the operator"""
    w = op.split()
    if not r.startswith('tasks='):
        return ('reduce_col-run-failed', 'unexpected result ' + r)
    f = dict(x.split('=', 1) for x in r.split())
    d, nt = int(w[1]), int(w[2])
    N = int(w[4]) if w[0] == 'redcol' else int(w[3])
    reads = multiset(f['reads'])
    rows = 1 << d
    for m in range(rows):
        for c in range(N + 1):
            k = reads.get('%d.%d' % (m, c), 0)
            if k != 1:
                if w[0] == 'redrow':
                    return ('reduce_row-reads-only-column-0', 'reduce_row.jdf: tile (%d,%d) read %d times, tile (%d,0) read %d times: every leaf task reads src(index, 0)' % (m, c, k, m, reads.get('%d.0' % m, 0)))
                return ('reduce_col-tile-not-read-once', 'reduce_col.jdf: tile (%d,%d) read %d times' % (m, c, k))
    if rows > 1 and int(f['ops']) == 0:
        return ('reduce_col/row-never-invoke-operator', '%s: %d rows reduced per column but the operator given to the taskpool was invoked 0 times (the task bodies only printf)' % (w[0], rows))
    return None


# ------------------------------------------------------------------------------------------------ case generation
def grids(ranks):
    return [(p, ranks // p) for p in range(1, ranks + 1) if ranks % p == 0]


def gen_script(rng, ranks, quick, k):
    lines = []
    n_apply, n_map, n_red = (10, 8, 8) if quick else (40, 30, 24)
    for i in range(n_apply):
        P, Q = rng.choice(grids(ranks))
        mt, nt = rng.range(1, 9), rng.range(1, 9)
        if rng.chance(1, 6):
            mt, nt = rng.choice([(1, 1), (1, 12), (12, 1), (2, 2), (13, 5), (5, 13)])
        uplo = rng.choice([121, 122, 123, 121, 122, 123, 123, 7, 0, 124] if i % 5 == 4 else [121, 122, 123])
        lines.append('apply %d %d %d %d %d' % (mt, nt, uplo, P, Q))
    for i in range(n_map):
        P, Q = rng.choice(grids(ranks))
        mt, nt = rng.range(P, P + 7), rng.range(Q, Q + 7)      # every rank owns at least one tile (see finding map-hang)
        if rng.chance(1, 5):
            mt, nt = rng.choice([(P, Q), (P, Q + 11), (P + 11, Q)])
        lines.append('map %d %d %d %d' % (mt, nt, P, Q))
    if ranks == 1:
        for i in range(n_red):
            lines.append('reduce %d' % (rng.range(1, 24) if i % 3 else rng.choice([1, 2, 3, 4, 7, 8, 9, 15, 16, 17, 31, 32, 33])))
        for i in range(4 if quick else 12):
            d, nt = rng.range(0, 3 if quick else 4), rng.range(1, 4)
            N = rng.range(0, nt - 1)
            lines.append('redcol %d %d %d %d' % (d, nt, (1 << d) - 1, N) if i % 2 == 0 else 'redrow %d %d %d' % (d, nt, N))
        if k == 0:
            lines.append('clog2 1 %d' % (4100 if quick else 70000))
            for e in range(13, 31):
                lines.append('clog2 %d %d' % ((1 << e) - 1, min((1 << e) + 1, (1 << 31) - 1)))
    return lines


def load_corpus():
    out = []
    d = os.path.join(pv.ROOT, 'corpus', PROP)
    for f in sorted(os.listdir(d)) if os.path.isdir(d) else []:
        if f.endswith('.case'):
            txt = open(os.path.join(d, f)).read().splitlines()
            hdr = dict(x.split('=') for x in txt[0].lstrip('# ').split() if '=' in x)
            out.append({'name': f, 'ranks': int(hdr.get('ranks', 1)), 'cores': int(hdr.get('cores', 1)), 'alone': hdr.get('alone', '0') == '1',
                        'lines': [l for l in txt[1:] if l.strip() and not l.startswith('#')]})
    return out


def launch(ctx, exe, tag, ranks, cores, lines, timeout, env_extra=None):
    script, prefix = ctx.path(tag + '.script'), ctx.path(tag + '.out')
    open(script, 'w').write('\n'.join(lines) + '\n')
    cmd = [exe, script, prefix, str(cores)]
    if ranks > 1:
        cmd = ['mpiexec', '--oversubscribe', '--bind-to', 'none', '-n', str(ranks)] + cmd
    rc, out, err = 1, '', ''
    for attempt in range(2):
        for r in range(ranks):
            if os.path.exists('%s.%d' % (prefix, r)):
                os.remove('%s.%d' % (prefix, r))
        rc, out, err = pv.sh(cmd, env=dict(ENV, **(env_extra or {})), timeout=timeout)
        started = all(os.path.exists('%s.%d' % (prefix, r)) for r in range(ranks))
        if rc == 0 or started:
            break       # a launch that never started (MPI daemon start-up failure on a loaded machine) is retried once
    trs = []
    for r in range(ranks):
        p = '%s.%d' % (prefix, r)
        trs.append(open(p).read() if os.path.exists(p) else '')
    complete = all(t.rstrip().endswith('#end') for t in trs)
    return {'tag': tag, 'ranks': ranks, 'cores': cores, 'lines': lines, 'env': env_extra or {}, 'rc': rc, 'err': (out + err)[-700:], 'err_full': (out + err)[-20000:], 'trs': trs, 'complete': complete}


FINDING_CASES = [
    # (tag, ranks, cores, lines, key, what)
    ('f-wrapcol', 1, 1, ['wrapper col 2 2'], 'parsec_reduce_col_New-crashes',
     'parsec_reduce_col_New(src, dest, op, data) on a 2x2-tile matrix: the leaf task space is rows 0..lnt x columns 0..lmt (M, N swapped and one too large), data_of is called out of range'),
    ('f-wraprow', 1, 1, ['wrapper row 2 2'], 'parsec_reduce_row_New-crashes',
     'parsec_reduce_row_New(src, dest, op, data) on a 2x2-tile matrix: column range 0..lmt, out-of-range data_of'),
    ('f-maphang', 2, 1, ['watchdog 15', 'maphang 1 1 1 2'], 'map-operator-hangs-on-rank-without-local-tile',
     'parsec_map_operator_New on 2 ranks, 1x1 tiles: the rank that owns no tile never completes (nb_tasks = 0, nb_pending_actions stays 1)'),
]


def analyse(ctx, res, run, dist, jdf_edges, from_corpus=False):
    """compare one launch with the model and evaluate the oracles"""
    tag = run['tag']
    if run['complete'] and run['rc'] != 0 and run['ranks'] > 1 and not re.search(r'Process received signal|exited on signal|Segmentation|Aborted', run.get('err_full', run['err'])):
        # every rank executed the whole script and closed its transcript; the non-zero status comes from mpiexec's
        # teardown on an oversubscribed machine (also seen by C37: about 1 launch in 40); counted, not a result
        dist['mpi_nonzero_exit_after_complete_run'] = dist.get('mpi_nonzero_exit_after_complete_run', 0) + 1
        res.notes.append('launch %s: all %d transcripts complete, mpiexec status %s: %s' % (tag, run['ranks'], run['rc'], ' '.join(run.get('err_full', '')[:600].split())))
    elif not run['complete'] or run['rc'] != 0:
        last = [t.strip().splitlines()[-1] if t.strip() else '<nothing>' for t in run['trs']]
        oob = [l for t in run['trs'] for l in t.splitlines() if l.startswith('#stat reduce_oob_reads') and l.split()[-1] != '0']
        # a crash right after reduce.jdf read a tile outside the matrix is the listed finding (the stray read may fault)
        res.violations.append({'key': 'reduce.jdf-reads-tile-outside-matrix' if (oob and any('reduce' in l for l in run['lines'])) else 'harness-died:' + tag, 'what': 'the run of the real code (%d ranks, %d cores) ended with status %s before the script was finished; last transcript lines: %s; %s' % (
            run['ranks'], run['cores'], run['rc'], last, run['err'][-300:]), 'case': {'ranks': run['ranks'], 'cores': run['cores'], 'lines': run['lines'], 'env': run.get('env', {})}, 'seed': ctx.seed})
    all_ops, all_impl, owners = [], [], []
    for r, t in enumerate(run['trs']):
        ops, impl, stats, viols = pv.parse_transcript(t)
        for k, v in stats.items():
            dist[k] = dist.get(k, 0) + v
        for v in viols:
            res.violations.append({'key': 'oracle-in-harness:' + v.split(':')[0], 'what': v, 'case': {'ranks': run['ranks'], 'cores': run['cores'], 'lines': run['lines'], 'env': run.get('env', {})}, 'seed': ctx.seed})
        all_ops += ops
        all_impl += impl
        owners += [r] * len(ops)
    model = []
    if ctx.driver_ok and all_ops:
        rc, model, err = pv.run_driver('pv_C22', all_ops)
        dis = pv.compare(all_ops, all_impl, model)
        # `clog2 n`: the model is the exact ceiling; where the C double expression differs, the oracle below reports the
        # defect with its own key (depth-expression-float-error) for exactly that n, so it is not repeated as a disagreement
        dis = [d for d in dis if not (d['op'].startswith('clog2 ') and d['impl'].isdigit() and d['model'].isdigit()
                                      and int(d['model']) == true_clog2(int(d['op'].split()[1])))]
        for d in dis:
            d['launch'] = {'ranks': run['ranks'], 'cores': run['cores'], 'rank': owners[d['index']] if d['index'] < len(owners) else None}
        res.disagreements += dis[:10]
    res.evaluations += len(all_ops)
    # oracles
    case = lambda: {'ranks': run['ranks'], 'cores': run['cores'], 'lines': run['lines'], 'env': run.get('env', {})}
    mapgroups = {}
    seq = [0] * run['ranks']
    for o, i, r in zip(all_ops, all_impl, owners):
        w = o.split()
        if w[0] == 'apply':
            e = oracle_apply(o, i)
            if e:
                res.violations.append({'key': 'apply-not-exactly-once', 'what': '%s on %d ranks x %d cores: %s (%s => %s)' % (w[0], run['ranks'], run['cores'], e, o, i), 'case': case(), 'seed': ctx.seed})
            if i != 'bad-param':
                res.nontrivial('apply %s %s %s r%d c%d' % (w[1], w[2], w[3], run['ranks'], run['cores']))
            dist['apply_' + {'121': 'upper', '122': 'lower', '123': 'full'}.get(w[3], 'invalid')] = dist.get('apply_' + {'121': 'upper', '122': 'lower', '123': 'full'}.get(w[3], 'invalid'), 0) + 1
        elif w[0] == 'map':
            mapgroups.setdefault(seq[r], []).append((o, i))
            seq[r] += 1
            if len(w) > 5 and w[5] != '-':
                res.nontrivial('map ' + ' '.join(w[1:5]) + ' ' + w[5][:200])
                res.traces_validated += 1
                dist['map_events'] = dist.get('map_events', 0) + w[5].count(',') + 1
        elif w[0] == 'mapwide':
            mt, nt = int(w[1]), int(w[2])
            sched = run.get('env', {}).get('PARSEC_MCA_mca_sched', 'default')
            dist['mapwide_sched_' + sched] = dist.get('mapwide_sched_' + sched, 0) + 1
            dist['mapwide_column_handouts'] = dist.get('mapwide_column_handouts', 0) + nt
            if not i.startswith('ok tiles=%d ' % (mt * nt)):
                res.violations.append({'key': 'map-not-exactly-once', 'what': 'free-running map operator on %d x %d tiles, %s threads, scheduler %s: not every tile visited exactly once: %s' % (
                    mt, nt, w[3] if len(w) > 3 else '?', sched, i[:300]), 'case': case(), 'seed': ctx.seed})
            res.nontrivial('mapwide %s %s %s %s #%d' % (w[1], w[2], w[3] if len(w) > 3 else '?', sched, dist['mapwide_sched_' + sched]))
            res.traces_validated += 1
        elif w[0] == 'reduce' and len(w) == 3:
            e = oracle_reduce(o, i, jdf_edges)
            if e:
                res.violations.append({'key': e[0], 'what': e[1] + ' (%s => %s)' % (o[:120], i[:200]), 'case': case(), 'seed': ctx.seed})
            res.nontrivial('reduce %s %s' % (w[1], w[2][:200]))
            res.traces_validated += 1
            dist['reduce_even_MT' if int(w[1]) % 2 == 0 else 'reduce_odd_MT'] = dist.get('reduce_even_MT' if int(w[1]) % 2 == 0 else 'reduce_odd_MT', 0) + 1
        elif w[0] in ('redcol', 'redrow'):
            e = oracle_colrow(o, i)
            if e:
                res.violations.append({'key': e[0], 'what': e[1] + ' (%s => %s)' % (o, i[:200]), 'case': case(), 'seed': ctx.seed})
            res.nontrivial(o)
        elif w[0] == 'clog2':
            n = int(w[1])
            if i.lstrip('-').isdigit() and int(i) != true_clog2(n):
                res.violations.append({'key': 'depth-expression-float-error', 'what': '(int)ceil(log(%d)/log(2.0)) evaluates to %s; the least d with 2^d >= %d is %d (depth of the reduction trees one too large)' % (n, i, n, true_clog2(n)),
                                       'case': {'ranks': 1, 'cores': 1, 'lines': ['clog2 %d %d' % (n, n)]}, 'seed': ctx.seed})
            if n & (n - 1) == 0 or n < 64:
                res.nontrivial(o)
    for k, g in mapgroups.items():
        if len(g) == run['ranks']:
            e = oracle_map_group(g)
            if e:
                res.violations.append({'key': 'map-not-exactly-once', 'what': 'map operator on %d ranks x %d cores: %s (%s)' % (run['ranks'], run['cores'], e, g[0][0][:80]), 'case': case(), 'seed': ctx.seed})
    return all_ops, all_impl, model


def analyse_finding(ctx, res, run, key, what, dist):
    txt = '\n'.join(run['trs'])
    if key.endswith('crashes'):
        if 'completed' in txt and run['rc'] == 0:
            dist['finding_not_reproduced:' + key] = 1
            return
        if '#begin wrapper' in txt and run['rc'] != 0:
            sig = re.search(r'Signal: ([A-Za-z ]+\(\d+\))', run['err'])
            res.violations.append({'key': key, 'what': what + '; observed: the process died (status %s%s) inside the call' % (run['rc'], ', ' + sig.group(1) if sig else ''),
                                   'case': {'ranks': run['ranks'], 'cores': run['cores'], 'lines': run['lines']}, 'seed': ctx.seed})
            return
        res.infra_errors.append('finding case %s could not be run: rc=%s %s' % (run['tag'], run['rc'], run['err'][-300:]))
    else:
        m = re.search(r'maphang [\d ]+ => stuck nb_tasks=(\d+) pending=(\d+) invocations=(\d+)', txt)
        if m:
            res.violations.append({'key': key, 'what': what + '; observed after the watchdog delay: nb_tasks=%s nb_pending_actions=%s operator invocations on that rank=%s' % m.groups(),
                                   'case': {'ranks': run['ranks'], 'cores': run['cores'], 'lines': run['lines']}, 'seed': ctx.seed})
        elif txt.count('=> completed') >= run['ranks'] and run['rc'] == 0:
            dist['finding_not_reproduced:' + key] = 1
        else:
            res.infra_errors.append('finding case %s could not be run: rc=%s %s' % (run['tag'], run['rc'], run['err'][-300:]))


def jdf_edge_table():
    """producer lists per (MT, 'l.p') from the text of reduce.jdf (for the ordering oracle)"""
    try:
        rg, rt = parse_jdf(os.path.join(JDF_DIR, 'reduce.jdf'))
        tab = {}
        for MT in range(1, 70):
            env = {'descA->mt': MT}
            for g in ('MT', 'depth'):
                env[g] = CExpr(rg[g]).ev(env)
            sp = enum_space(rt['reduce'], env)
            for item in reduce_deps_line(rt, env, sp).split():
                t, rest = item.split(':', 1)
                prods = [m.replace(',', '.') for m in re.findall(r'[AB]=reduce\((\d+,\d+)\)', rest)]
                tab[(MT, t.replace(',', '.'))] = prods
        return tab
    except Exception:
        return None


def run(ctx, res):
    exe = ctx.path('C22')
    ok, log = pv.cc_harness(os.path.join(pv.ROOT, 'harness', 'C22.c'), exe, ctx.build)
    if not ok:
        res.infra_errors.append('harness compile failed: ' + log[-1500:])
        return
    rng = pv.Rng(ctx.seed)
    dist = {}
    jdf_frontend(ctx, res, dist)
    edges = jdf_edge_table()
    if edges is None:
        res.notes.append('reduce.jdf dependency text could not be parsed: ordering oracle not evaluated')
    configs = [(1, 1), (1, 3), (2, 2), (4, 1)] if ctx.quick else [(1, 1), (1, 2), (1, 4), (2, 1), (2, 3), (3, 2), (4, 2), (4, 1)]
    jobs = []
    scripts = {cfg: gen_script(rng.fork(k), cfg[0], ctx.quick, k) for k, cfg in enumerate(configs)}
    for c in load_corpus():
        if c['alone']:
            continue                      # the crash / hang cases are the FINDING_CASES below
        if (c['ranks'], c['cores']) in scripts:
            scripts[(c['ranks'], c['cores'])] = c['lines'] + scripts[(c['ranks'], c['cores'])]      # corpus first, same launch
        else:
            jobs.append(('corpus-' + c['name'].replace('.case', ''), c['ranks'], c['cores'], c['lines'], None))
    for (ranks, cores), lines in scripts.items():
        jobs.append(('gen-r%dc%d' % (ranks, cores), ranks, cores, lines, None))
    # free-running search for rare interleavings of the column hand-out: very wide matrices, many threads, several schedulers
    wide = [(8, 'lfq'), (16, 'll'), (12, 'gd')] if ctx.quick else [(8, 'lfq'), (16, 'll'), (12, 'gd'), (8, 'ap'), (16, 'lhq'), (6, 'pbq'), (10, 'rnd'), (16, 'lfq')]
    for k, (cores, sched) in enumerate(wide):
        r2 = rng.fork(100 + k)
        shapes = [(1, 20000), (2, 10000)] + [r2.choice([(1, 20000), (2, 10000), (1, 30000), (3, 7000), (1, 25000), (2, 12000)]) for _ in range(6 if ctx.quick else 30)]
        jobs.append(('wide-%s-c%d' % (sched, cores), 1, cores, ['watchdog 60'] + ['mapwide %d %d' % sh for sh in shapes], None, {'PARSEC_MCA_mca_sched': sched}))
    for tag, ranks, cores, lines, key, what in FINDING_CASES:
        jobs.append((tag, ranks, cores, lines, (key, what)))
    tmo = 420 if ctx.quick else 1500
    with concurrent.futures.ThreadPoolExecutor(max_workers=6 if ctx.quick else 3) as ex:
        futs = [(j, ex.submit(launch, ctx, exe, j[0], j[1], j[2], j[3], tmo, j[5] if len(j) > 5 else None)) for j in jobs]
        runs = [(j, f.result()) for j, f in futs]
    samples = []
    for j, r in runs:
        if j[4] is not None:
            analyse_finding(ctx, res, r, j[4][0], j[4][1], dist)
            continue
        ops, impl, model = analyse(ctx, res, r, dist, edges)
        samples += ['%s => %s' % (o[:160], i[:160]) for o, i in list(zip(ops, impl))[:2]]
        dist['launches'] = dist.get('launches', 0) + 1
    res.rule = ('apply mt nt uplo (mt, nt in 1..13, uplo in upper/lower/full + invalid values) on P x Q grids of 1-4 ranks with 1-4 threads; map mt nt on the same grids '
                '(every rank owns a tile), the observed execution order replayed by the model; reduce MT (1..33) on 1 rank with logged data_of and captured task bodies; '
                'mapwide: free-running real map operator on 1 x 20000 .. 3 x 7000 tiles, 8-16 threads, schedulers lfq/ll/gd (+ap/lhq/pbq/rnd thorough), atomic per-tile counters; '
                'redcol/redrow through the generated constructors with consistent (IA,JA,M,N); clog2 n for n <= 4100 (70000 thorough) and all 2^e +-1, e <= 30; '
                'task spaces / dependency text of the 4 .jdf files enumerated for sampled sizes. distinct = distinct op line (incl. observed order); '
                'non-trivial = a run that executed at least one task / a non-empty space')
    res.samples = samples[:8]
    res.extra['input_distribution'] = dist
    res.extra['exhaustive'] = False


def replay(ctx, res, obj):
    exe = ctx.path('C22')
    ok, log = pv.cc_harness(os.path.join(pv.ROOT, 'harness', 'C22.c'), exe, ctx.build)
    if not ok:
        res.infra_errors.append('harness compile failed: ' + log[-1500:])
        return
    dist = {}
    edges = jdf_edge_table()
    for n, v in enumerate(obj.get('violations', [])):
        c = v.get('case')
        if not isinstance(c, dict) or 'lines' not in c:
            continue
        r = launch(ctx, exe, 'replay%d' % n, c.get('ranks', 1), c.get('cores', 1), c['lines'], 600, c.get('env') or None)
        fk = [f for f in FINDING_CASES if f[4] == v.get('key')]
        if fk:
            analyse_finding(ctx, res, r, fk[0][4], fk[0][5], dist)
        else:
            analyse(ctx, res, r, dist, edges)
    res.extra['input_distribution'] = dist


ENGINE = 'lean-trace'
LEVEL = 'proof'
LEVEL_TEXT = ('Lean 4 theorems, unbounded: (apply) for all mt, nt, uplo the three task spaces of apply.jdf invoke the operator exactly once on every tile of the requested '
              'region and nowhere else; (map) for every shape, locality function, core count and EVERY interleaving of task executions and atomic claims of next_n, the chains of '
              'map_operator.c never visit a tile twice and, when all are done, have visited every local tile exactly once (over the ranks: every tile once, at its owner); '
              '(reduce) any tree whose leaves are a permutation of the tiles, fired as a dataflow under EVERY schedule with an associative-commutative operator, yields the sequential fold; '
              'the tree reduce.jdf describes has leaves 0..MT-1 below the task that writes R for every MT >= 1, the tree of reduce_col/reduce_row has 2^depth leaf rows. '
              'The parts of the statement that are FALSE of the code are theorems with witnesses, replayed on the real code on every run (findings). '
              'Tie: real parsec_apply / map operator / generated reduce taskpools on 1-4 ranks x 1-4 threads with logging operators and logging data collections, every transcript line '
              'recomputed by the compiled model (the map line replays the observed execution order through the model machine); the .jdf task-space and dependency text is parsed and '
              'compared with the model index sets.')
LEVEL_NOTE = ('Theorems are about the models; the runtime\'s exactly-once execution of a PTG task space is C01/C02. Termination of the map chains is not a theorem (only observed). '
              'nb_vp > 1 is not modelled. The shipped reduction bodies do not combine anything (finding), so the fold theorems concern the dependency structure with a combining body; '
              'no value tie exists for reductions. Trusted: Lean kernel, the harness (logging data_of wrappers, stdout capture of the task bodies, struct mirror for next_n), the small JDF/C-expression front end in checks/C22.py.')
TECHNIQUE = 'Lean 4 proofs (index-set arithmetic; inductive invariant over all interleavings; dataflow determinism + permutation-invariant fold) tied by differential / trace-acceptance runs of the real taskpools'
TRUSTED_EXTRA = ['checks/C22.py JDF header + C expression front end (about 200 lines of Python)']
