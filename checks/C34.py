"""C34 — objects are destroyed exactly once when their last reference goes."""
import os, pv
PROP = 'C34'
LEAN_MODULE = 'ParsecVerif.Props.C34'
DRIVERS = ['pv_C34']
THEOREMS = ['ParsecVerif.C34.arrays', 'ParsecVerif.C34.create_release', 'ParsecVerif.C34.shape', 'ParsecVerif.C34.once',
            'ParsecVerif.C34.quiescent', 'ParsecVerif.C34.locally_safe_all_schedules',
            'ParsecVerif.C34.unprotected_retain_destroys_twice', 'ParsecVerif.C34.unowned_release_destroys_early',
            'ParsecVerif.C34.root_class_walk_undefined']
IMPL = 'parsec/class/parsec_object.h, parsec/class/parsec_object.c (parsec_class_initialize, parsec_obj_new, PARSEC_OBJ_CONSTRUCT/RETAIN/RELEASE/DESTRUCT, parsec_obj_update, parsec_obj_run_constructors/_destructors)'
ENGINE = 'lean-coop'
LEVEL = 'proof'
LEVEL_TEXT = ('Lean 4 theorems, unbounded. (1) arrays: for EVERY parent chain (any depth, any subset of levels with a constructor/destructor) the block built by the two loops of '
              'parsec_class_initialize (modelled with indices into a junk-initialised malloc block) is walked by parsec_obj_run_constructors as exactly the present constructors base->derived and by '
              'parsec_obj_run_destructors as exactly the present destructors derived->base, never reading junk or outside the block (loop invariant, induction over the chain). '
              '(2) once/shape/quiescent: for ANY number of threads, ANY programs of retain/release/hand-off operations and EVERY interleaving at the granularity of the atomic fetch-add '
              '(each destructor call is its own step), if every operation is made by a thread that holds a reference at that moment (explicit ghost hypothesis): at most one release observes 0, '
              'exactly one iff the count is 0, no retain/release follows it, the destructor calls are a prefix of the class array (complete, once, in order, followed by one free of a dynamic object, when all threads are done), '
              'and nothing is destroyed while the count is non-zero (inductive invariant count >= sum of held references). (3) locally_safe_all_schedules: a thread-local check makes the hypothesis hold under every schedule; '
              'two decide-witnesses show it cannot be dropped. The model is tied to the current source on every run: the real macros/functions run on a generated family of 340 classes (depth 1-4, PARSEC_OBJ_CLASS_INSTANCE), '
              'sequentially under ASan/UBSan with exact comparison of constructor/destructor logs and arrays, and under the cooperative scheduler (hook at parsec_atomic_fetch_add_int32) with every executed schedule replayed step by step on the Lean machine '
              '(exhaustive DFS for small cases, PRNG and generated hand-off histories otherwise), plus a free-running stress whose rounds are judged by the property itself.')
LEVEL_NOTE = ('Sequentially consistent interleavings of atomic operations only (no weak-memory effects); reference counts are unbounded integers (int32 wrap-around at 2^31 references not modelled); destructor bodies are assumed not to '
              'retain/release the object being destroyed; concurrent first-time parsec_class_initialize of one class by several threads (double-checked lock) is not modelled; PARSEC_DEBUG_PARANOID variants of the macros are not compiled here. '
              'Protocol-violating programs are executed on the real code only for statically constructed objects (no use-after-free). free() is observed only through the NULL-ed pointer and ASan. '
              'Trusted: Lean kernel, propext/Classical.choice/Quot.sound, the harness, the cooperative scheduler and hook H1, differential testing as tie.')
TECHNIQUE = 'Lean 4 proof (loop invariant for the arrays; inductive invariant over all interleavings with ghost ownership for exactly-once) on a small-step model; tie = sequential differential run + step-by-step schedule replay of the real code under a cooperative scheduler + free-running stress'
ASSUMPTIONS = ['sequential consistency at the granularity of parsec_atomic_fetch_add_int32', 'usage protocol (explicit hypothesis of once/shape/quiescent): every retain, release and hand-off is made by a thread that holds a reference',
               'reference count does not overflow int32', 'destructors do not touch the reference count of the object being destroyed']


# ---------------------------------------------------------------------------------- independent expectations (from the class name)
def levels(digits):
    """[(id, has_ctor, has_dtor)] base-most level first"""
    out, acc = [], 0
    for ch in digits:
        v = int(ch)
        acc = acc * 10 + v
        out.append((acc, v in (2, 4), v in (3, 4)))
    return out


def exp_ctors(digits):
    return [i for (i, c, d) in levels(digits) if c]


def exp_dtors(digits):
    return [i for (i, c, d) in reversed(levels(digits)) if d]


def san_head(err):
    """the informative part of a sanitizer / glibc abort message"""
    for mark in ('ERROR: AddressSanitizer', 'ERROR: LeakSanitizer', 'runtime error:', 'Fatal glibc error', 'double free', 'free():'):
        i = err.find(mark)
        if i >= 0:
            return err[max(0, i - 20):i + 700]
    return err[-700:]


def plist(s):
    s = s.strip()
    assert s.startswith('[') and s.endswith(']'), s
    return [int(x) for x in s[1:-1].split()]


def _fields_br(r):
    out, i = {}, 0
    toks = []
    cur = ''
    depth = 0
    for ch in r:
        if ch == '[':
            depth += 1
        if ch == ']':
            depth -= 1
        if ch == ' ' and depth == 0:
            toks.append(cur); cur = ''
        else:
            cur += ch
    if cur:
        toks.append(cur)
    for t in toks:
        if '=' in t:
            k, v = t.split('=', 1)
            out[k] = v
    return out


# ---------------------------------------------------------------------------------- sequential oracle
def seq_oracle(ops, impl):
    fails = []
    slots = {}
    for o, r in zip(ops, impl):
        if r in ('rejected', 'bad-op', '<no-result>', 'ok'):
            if o.startswith('drop') and r == 'ok':
                slots.pop(int(o.split()[1]), None)
            continue
        w = o.split()
        try:
            f = _fields_br(r)
            if w[0] == 'classinit':
                if plist(f['ctors']) != exp_ctors(w[1]):
                    fails.append('%s: constructor array %s, expected base-to-derived %s' % (o, f['ctors'], exp_ctors(w[1])))
                if plist(f['dtors']) != exp_dtors(w[1]):
                    fails.append('%s: destructor array %s, expected derived-to-base %s' % (o, f['dtors'], exp_dtors(w[1])))
                if int(f['depth']) != len(w[1]) + 1:
                    fails.append('%s: depth %s' % (o, f['depth']))
            elif w[0] in ('new', 'construct'):
                if plist(f['ctors']) != exp_ctors(w[2]):
                    fails.append('%s: constructors run %s, expected base-to-derived %s' % (o, f['ctors'], exp_ctors(w[2])))
                if f['cnt'] != '1':
                    fails.append('%s: initial count %s' % (o, f['cnt']))
                slots[int(w[1])] = {'d': w[2], 'dyn': w[0] == 'new', 'cnt': 1}
            elif w[0] == 'retain':
                s = slots[int(w[1])]
                s['cnt'] += 1
                if int(f['cnt']) != s['cnt']:
                    fails.append('%s: count %s, expected %d' % (o, f['cnt'], s['cnt']))
            elif w[0] == 'release':
                s = slots[int(w[1])]
                s['cnt'] -= 1
                got = plist(f['dtors'])
                if s['cnt'] == 0:
                    if got != exp_dtors(s['d']):
                        fails.append('%s: last reference released, destructors run %s, expected derived-to-base once %s' % (o, got, exp_dtors(s['d'])))
                    if f['null'] != '1' or f['cnt'] != ('freed' if s['dyn'] else '0'):
                        fails.append('%s: last reference released but result %s' % (o, r))
                    if s['dyn']:
                        del slots[int(w[1])]
                else:
                    if got:
                        fails.append('%s: destructors %s run although the count is %d' % (o, got, s['cnt']))
                    if f['null'] != '0' or f['cnt'] != str(s['cnt']):
                        fails.append('%s: count should be %d, result %s' % (o, s['cnt'], r))
            elif w[0] == 'destruct':
                s = slots[int(w[1])]
                if plist(f['dtors']) != exp_dtors(s['d']):
                    fails.append('%s: destructors run %s, expected %s' % (o, f['dtors'], exp_dtors(s['d'])))
        except (KeyError, ValueError, AssertionError, IndexError) as ex:
            fails.append('%s: unparsable / unexpected result %r (%s)' % (o, r, ex))
    return fails


# ---------------------------------------------------------------------------------- concurrent oracle
def parse_prog(p):
    out, i = [], 0
    while i < len(p):
        if p[i] == 'G':
            out.append(('G', int(p[i + 1]))); i += 2
        else:
            out.append((p[i], 0)); i += 1
    return out


def conc_oracle(caseline, step_ops, step_res, end_res):
    """Property statement evaluated on what the real code did.  Returns (failures, info)."""
    w = caseline.split()
    kind, digits, specs = w[2], w[3], w[4:]
    n = len(specs)
    held = [int(s.split(':')[0]) for s in specs]
    progs = [parse_prog(s.split(':')[1]) for s in specs]
    pos = [0] * n
    pcs = ['start'] * n
    cnt = max(1, sum(held))
    want = exp_dtors(digits)
    pending = {}          # thread -> index of its next destructor
    dl = []               # destructor log expected from what the releases observed
    respected, zeros, ops_done, ops_after_zero = True, [0] * n, 0, 0
    fails = []
    freed = False
    for o, r in zip(step_ops, step_res):
        t = int(o.split()[1])
        f = _fields_br(r)
        pc_after = r.split()[0]
        prev = pcs[t] if t < n else 'done'
        if prev == 'ready':
            op, to = progs[t][pos[t]]; pos[t] += 1
            ops_done += 1
            if held[t] < 1:
                respected = False
            if op in 'RL' and sum(zeros) > 0:
                ops_after_zero += 1
            if op == 'R':
                held[t] += 1; cnt += 1
            elif op == 'L':
                held[t] = max(0, held[t] - 1); cnt -= 1
                if cnt == 0:
                    zeros[t] += 1
                    if want:
                        pending[t] = 0
                    elif kind == 'dyn':
                        freed = True
            else:
                held[t] = max(0, held[t] - 1)
                if to < n:
                    held[to] += 1
        elif prev == 'dtor':
            if t not in pending:
                fails.append('%s: thread %d runs a destructor although its release did not observe zero' % (o, t))
            else:
                dl.append(want[pending[t]]); pending[t] += 1
                if pending[t] == len(want):
                    del pending[t]
                    if kind == 'dyn':
                        freed = True
            if respected and f.get('cnt') not in ('0', 'freed'):
                fails.append('%s: a destructor ran while the reference count was %s' % (o, f.get('cnt')))
        exp_cnt = 'freed' if freed else str(cnt)
        if prev == 'start' and (f.get('cnt') != exp_cnt or plist(f.get('d', '[]')) != dl or pc_after not in ('ready', 'done')):
            fails.append('%s: the thread changed the object (count %s, destructor log %s, now at %s) before reaching any atomic operation: the reference update is not a single atomic primitive' % (o, f.get('cnt'), f.get('d'), pc_after))
        elif f.get('cnt') != exp_cnt:
            fails.append('%s: count %s, the operations executed so far give %s (lost or duplicated update)' % (o, f.get('cnt'), exp_cnt))
        if not fails and plist(f.get('d', '[]')) != dl:
            fails.append('%s: destructor log %s, expected %s (each zero-observing release runs %s once, in this order)' % (o, f.get('d'), dl, want))
        if t < n:
            pcs[t] = pc_after
        if fails:
            break
    complete = end_res is not None and end_res != 'unfinished'
    if complete and not fails:
        f = _fields_br(end_res)
        if plist(f['zeros']) != zeros:
            fails.append('end: per-thread zero observations %s, expected %s' % (f['zeros'], zeros))
        if respected:
            if sum(zeros) > 1:
                fails.append('end: %d releases observed zero' % sum(zeros))
            if (sum(zeros) == 1) != (cnt == 0):
                fails.append('end: final count %d but %d release(s) observed zero' % (cnt, sum(zeros)))
            if ops_after_zero:
                fails.append('end: %d retain/release operations were made after the release that observed zero' % ops_after_zero)
            if cnt == 0 and dl != want:
                fails.append('end: object destroyed but destructor log %s, expected %s' % (dl, want))
            if cnt != 0 and dl:
                fails.append('end: destructors %s ran although the count ends at %d' % (dl, cnt))
    return fails, {'respected': respected, 'destroyed': sum(zeros) > 0, 'ops': ops_done, 'complete': complete, 'threads': n}


# ---------------------------------------------------------------------------------- generators
def rand_class(rng, depth=None):
    d = depth or rng.range(1, 4)
    return ''.join(str(rng.range(1, 4)) for _ in range(d))


def all_classes():
    out = []
    def rec(p, d):
        if p:
            out.append(p)
        if d < 4:
            for v in '1234':
                rec(p + v, d + 1)
    rec('', 0)
    return out


def gen_seq_case(rng, length):
    ops, busy = [], {}
    for _ in range(length):
        r = rng.below(100)
        s = rng.below(4)
        if r < 8:
            ops.append('classinit ' + rand_class(rng))
        elif r < 30 or not busy:
            verb = 'new' if rng.chance(3, 5) else 'construct'
            ops.append('%s %d %s' % (verb, s, rand_class(rng)))
            busy.setdefault(s, verb)
        else:
            s = rng.choice(sorted(busy)) if rng.chance(9, 10) else s
            if r < 55:
                ops.append('retain %d' % s)
            elif r < 90:
                ops.append('release %d' % s)
                if rng.chance(1, 4):
                    busy.pop(s, None)
            elif r < 95:
                ops.append('destruct %d' % s)
            else:
                ops.append('drop %d' % s); busy.pop(s, None)
    return ops


def safe_prog(rng, h, maxlen, finish):
    p, held = '', h
    for _ in range(rng.range(0, maxlen)):
        if held < 1:
            break
        r = rng.below(100)
        if r < 38:
            p += 'R'; held += 1
        else:
            p += 'L'; held -= 1
    if finish:
        p += 'L' * held
    return p


def gen_safe_case(rng, nmin, nmax, maxlen):
    n = rng.range(nmin, nmax)
    fin = rng.chance(7, 10)
    specs = []
    for t in range(n):
        h = rng.choice([0, 1, 1, 1, 2, 3])
        specs.append('%d:%s' % (h, safe_prog(rng, h, maxlen, fin)))
    return specs


def gen_history_case(rng):
    """A protocol-respecting global history with hand-offs; returns (specs, schedule)."""
    n = rng.range(2, 5)
    h0 = [rng.choice([0, 0, 1, 2]) for _ in range(n)]
    if sum(h0) == 0:
        h0[rng.below(n)] = 1
    held = list(h0)
    progs = [''] * n
    sched = list(range(n))
    cnt = sum(h0)
    for _ in range(rng.range(3, 14)):
        holders = [t for t in range(n) if held[t] > 0]
        if not holders:
            break
        t = rng.choice(holders)
        r = rng.below(100)
        if r < 30:
            progs[t] += 'R'; held[t] += 1; cnt += 1
        elif r < 65:
            progs[t] += 'L'; held[t] -= 1; cnt -= 1
        else:
            u = rng.below(n)
            progs[t] += 'G%d' % u; held[t] -= 1; held[u] += 1
        sched.append(t)
    return ['%d:%s' % (h0[t], progs[t]) for t in range(n)], sched


def gen_unsafe_case(rng):
    n = rng.range(1, 3)
    specs = []
    for t in range(n):
        specs.append('%d:%s' % (rng.choice([0, 1, 1, 2]), ''.join(rng.choice(['R', 'L', 'L', 'G%d' % rng.below(n)]) for _ in range(rng.range(1, 5)))))
    return specs


def load_corpus():
    seq, conc = [], []
    d = os.path.join(pv.ROOT, 'corpus', PROP)
    if os.path.isdir(d):
        for fn in sorted(os.listdir(d)):
            if fn.endswith('.case'):
                ls = [l.strip() for l in open(os.path.join(d, fn)) if l.strip() and not l.startswith('#')]
                if ls and ls[0].startswith('conc '):
                    conc += [l[5:] for l in ls]
                elif ls:
                    seq.append(ls)
    return seq, conc


def conc_lines(ctx, rng, corpus_conc):
    """list of `<kind> <class> <specs..> | policy` (the case number is added later)"""
    q = ctx.quick
    out = list(corpus_conc)
    dmax = 6000 if q else 200000
    small = [('dyn', '4', ['1:L', '1:L']), ('dyn', '43', ['1:RLL', '1:L']), ('dyn', '1', ['1:L', '1:RLL']), ('dyn', '34', ['1:L', '1:L', '1:L']),
             ('sta', '44', ['1:LRL']), ('sta', '4', ['1:G1', '0:L']), ('sta', '3', ['1:L', '0:L']), ('dyn', '444', ['2:LL', '1:RLL']),
             ('sta', '24', ['1:RG1L', '0:L']), ('dyn', '3143', ['1:L', '1:L']), ('dyn', '44', ['1:RLL', '1:L', '1:L']), ('sta', '34', ['1:G1L', '1:LL', '0:'])]
    if not q:
        small += [('dyn', '44', ['1:RLL', '1:RLL', '1:L']), ('dyn', '4444', ['2:LRLL', '1:L', '1:L']),
                  ('dyn', '2', ['1:L', '1:L', '1:L', '1:L']), ('sta', '43', ['1:LRL', '1:L'])]
    for k, c, sp in small:
        out.append('%s %s %s | dfs %d' % (k, c, ' '.join(sp), dmax))
    for _ in range(1200 if q else 8000):
        sp = gen_safe_case(rng, 2, 4 if rng.chance(4, 5) else 6, 6)
        out.append('%s %s %s | rng %d' % (rng.choice(['dyn', 'dyn', 'sta']), rand_class(rng), ' '.join(sp), rng.next() % 1000000007))
    for _ in range(600 if q else 4000):
        sp, sched = gen_history_case(rng)
        out.append('sta %s %s | replay %s' % (rand_class(rng), ' '.join(sp), ' '.join(map(str, sched))))
    for _ in range(250 if q else 2000):
        out.append('sta %s %s | rng %d' % (rand_class(rng), ' '.join(gen_unsafe_case(rng)), rng.next() % 1000000007))
    return ['case %d %s' % (i, l) for i, l in enumerate(out)]


STRESS = ['dyn 4 1:L 1:L', 'dyn 43 1:%sL 1:%sL 1:%sL 1:%sL' % (('RL' * 30,) * 4), 'dyn 43 1:RLRLRLRLL 1:RLRLRLRLL', 'dyn 4231 2:RLLRLL 1:RRLLL 1:L 1:RL', 'dyn 34 1:RLRLRLRLRLRLRLRLL 1:RLRLRLRLRLRLRLRLL 1:RLRLRLRLRLRLRLRLL 1:RLRLRLRLRLRLRLRLL',
          'dyn 444 3:LLRL 2:LRL 1:RRL', 'sta 344 1:RLL 1:L 1:RRLLL', 'dyn 2 1:L 1:L 1:L 1:L 1:L 1:L']


# targeted free-running search: groups of threads run their programs at once on a fresh object (spin barrier per object)
RACE = [('sta 4 1:L 1:L', 3, 4.5), ('sta 43 1:RLL 1:L', 3, 2.0), ('sta 4 1:L 1:L 1:L 1:L', 1, 2.0), ('sta 34 1:L 1:L 1:L', 2, 2.0)]


def run(ctx, res, seq_cases=None, conc=None):
    exe, exe_plain = ctx.path('C34'), ctx.path('C34plain')
    src = os.path.join(pv.ROOT, 'harness', 'C34.c')
    ok, log = pv.cc_harness(src, exe, ctx.build, sanitize=True)
    ok2, log2 = pv.cc_harness(src, exe_plain, ctx.build, sanitize=False)
    if not (ok and ok2):
        res.infra_errors.append('harness compile failed: ' + (log if not ok else log2)[-1500:]); return
    env = {'ASAN_OPTIONS': 'detect_leaks=1'}
    rng = pv.Rng(ctx.seed)
    corpus_seq, corpus_conc = load_corpus()
    replaying = seq_cases is not None or conc is not None
    dist = {}

    # ---- 1. sequential: corpus, the whole class family, random scripts (ASan/UBSan)
    if seq_cases is None and not replaying:
        fam = [['classinit ' + c, 'new 0 ' + c, 'retain 0', 'release 0', 'release 0', 'construct 1 ' + c, 'release 1'] for c in all_classes()]
        n = 300 if ctx.quick else 5000
        seq_cases = corpus_seq + fam + [gen_seq_case(rng.fork(k), rng.range(4, 40 if ctx.quick else 120)) for k in range(n)]
        dist['corpus_seq_cases'], dist['family_cases'] = len(corpus_seq), len(fam)
    hist = {}
    if seq_cases:
        results, stats, viols, (rc, err) = pv.run_script(exe, 'pv_C34', seq_cases, env=env, use_driver=ctx.driver_ok)
        for k, r in enumerate(results):
            res.evaluations += 1
            for o in r['ops']:
                hist[o.split()[0]] = hist.get(o.split()[0], 0) + 1
            if r['crashed']:
                res.violations.append({'key': 'crash:' + ' ; '.join(r['ops'][:len(r['impl']) + 1]), 'what': 'real code crashed / sanitizer abort (rc=%s) in sequential case %d after %d ops: %s' % (
                    r.get('rc'), k, len(r['impl']), san_head(err)), 'case': r['ops'], 'mode': 'seq'})
                break
            fails = seq_oracle(r['ops'], r['impl'])
            if fails:
                def bad(ops):
                    rr = pv.run_script(exe, 'pv_C34', [ops], env=env, use_driver=False, timeout=60)[0][0]
                    return rr['crashed'] or bool(seq_oracle(ops, rr['impl']))
                small = pv.ddmin(r['ops'], bad)
                rr = pv.run_script(exe, 'pv_C34', [small], env=env, use_driver=False, timeout=60)[0][0]
                sf = seq_oracle(small, rr['impl']) or fails
                res.violations.append({'key': ' ; '.join(small), 'what': sf[0], 'case': small, 'mode': 'seq', 'all_failures': sf[:5], 'impl': rr['impl']})
            if ctx.driver_ok and r['impl'] != r['model']:
                small = pv.ddmin(r['ops'], lambda ops: pv.case_disagrees(exe, 'pv_C34', ops, env=env))
                rs = pv.run_script(exe, 'pv_C34', [small], env=env, timeout=60)[0][0]
                res.disagreements.append({'case': small, 'mode': 'seq', 'impl': rs['impl'], 'model': rs['model']})
            if any('dtors=[' in x and 'dtors=[]' not in x for x in r['impl']):
                res.nontrivial('seq:' + ' ; '.join(r['ops']))
            if len(res.violations) + len(res.disagreements) >= 5:
                break
        for v in sorted(set(viols))[:3]:     # the harness' own observation (destructor entered with a non-zero count)
            res.violations.append({'key': v, 'what': v, 'mode': 'seq'})
        if rc != 0 and not any(r['crashed'] for r in results):
            res.violations.append({'key': 'seq-harness-exit-%d' % rc, 'mode': 'seq', 'what': 'sequential run: all scripts executed but the sanitized harness exited with %d (leak / sanitizer report at exit): %s' % (rc, san_head(err))})
        res.traces_validated += len(results)
        res.samples += [{'ops': r['ops'][:10], 'impl': r['impl'][:10]} for r in results[len(corpus_seq) + 340:len(corpus_seq) + 341]]

    # ---- 2. concurrent: every executed schedule is replayed on the Lean machine
    lines = conc if conc is not None else ([] if replaying else conc_lines(ctx, rng.fork(7), corpus_conc))
    info_tot = {'runs': 0, 'protocol_respected': 0, 'destroyed': 0, 'respected_and_destroyed': 0, 'incomplete': 0, 'ops': 0, 'by_policy': {}, 'by_threads': {}, 'by_depth': {}, 'rejected': 0}
    stats = {}
    if lines:
        ev0 = res.evaluations
        # bulk without sanitizers (thread creation under ASan costs ~25 ms per schedule); a sample of non-DFS cases again under ASan/UBSan
        ops, impl, model, stats = pv.differential(ctx, res, [exe_plain], 'pv_C34', stdin='\n'.join(lines) + '\n', timeout=3000, env=env)
        if not replaying:
            sample = [l for l in lines if ' | dfs ' not in l][:120 if ctx.quick else 1500]
            rcs, outs, errs = pv.sh([exe], input='\n'.join(sample) + '\n', timeout=3000, env=env)
            so, si, _, sv = pv.parse_transcript(outs)
            ref = dict()
            key = None
            for o, r in zip(ops, impl):
                if o.startswith('case'):
                    key = o; ref[key] = []
                if key is not None:
                    ref[key].append((o, r))
            got, key = dict(), None
            for o, r in zip(so, si):
                if o.startswith('case'):
                    key = o; got[key] = []
                if key is not None:
                    got[key].append((o, r))
            stats['asan_conc_runs'] = len(got)
            if rcs != 0 or sv or any(got[k] != ref.get(k) for k in got):
                badk = [k for k in got if got[k] != ref.get(k)]
                res.violations.append({'key': 'asan-conc:' + (badk[0] if badk else 'exit-%d' % rcs), 'mode': 'conc',
                                       'what': 'sanitized run of the concurrent cases: exit %d, %d harness violations, %d runs differ from the unsanitized run; stderr: %s' % (rcs, len(sv), len(badk), san_head(errs)),
                                       'case': (badk[0].split(' ', 2)[2] + ' | ' + [l for l in sample if l.startswith(badk[0] + ' |')][0].split(' | ')[1]) if badk else None})
        res.evaluations = ev0
        policy = {}
        for l in lines:
            head, pol = l.split(' | ')
            policy[head] = pol
        runs, cur = [], None
        for i, o in enumerate(ops):
            if o.startswith('case'):
                cur = []; runs.append(cur)
            if cur is not None:
                cur.append(i)
        for d in res.disagreements:      # attach the replayable case to step-level disagreements
            if 'index' in d and 'case' not in d:
                for idx in runs:
                    if idx[0] <= d['index'] <= idx[-1]:
                        d['case'] = ops[idx[0]].split(' ', 2)[2] + ' | replay ' + ' '.join(ops[i].split()[1] for i in idx[1:] if ops[i].startswith('step'))
                        d['mode'] = 'conc'
        for idx in runs:
            ro, ri = [ops[i] for i in idx], [impl[i] for i in idx]
            if ri[0] == 'rejected':
                info_tot['rejected'] += 1
                continue
            if not ri[0].startswith('ok') or ro[-1] != 'end':
                continue
            res.evaluations += 1
            fails, info = conc_oracle(ro[0], ro[1:-1], ri[1:-1], ri[-1])
            sched = ' '.join(o.split()[1] for o in ro[1:-1])
            pol = policy.get(ro[0], '?').split()[0]
            info_tot['runs'] += 1
            info_tot['protocol_respected'] += info['respected']
            info_tot['destroyed'] += info['destroyed']
            info_tot['respected_and_destroyed'] += info['respected'] and info['destroyed']
            info_tot['incomplete'] += not info['complete']
            info_tot['ops'] += info['ops']
            info_tot['by_policy'][pol] = info_tot['by_policy'].get(pol, 0) + 1
            info_tot['by_threads'][str(info['threads'])] = info_tot['by_threads'].get(str(info['threads']), 0) + 1
            dd = str(len(ro[0].split()[3]))
            info_tot['by_depth'][dd] = info_tot['by_depth'].get(dd, 0) + 1
            if fails and len(res.violations) < 8:
                case = ro[0].split(' ', 2)[2] + ' | replay ' + sched
                res.violations.append({'key': 'conc ' + case, 'what': fails[0], 'case': case, 'mode': 'conc', 'trace': ri[:40], 'protocol_respected': info['respected']})
            if info['threads'] >= 2 and info['ops'] >= 3:
                res.nontrivial(ro[0].split(' ', 2)[2] + '|' + sched)
        res.traces_validated += info_tot['runs']
        res.samples += [{'ops': [ops[i] for i in idx], 'impl': [impl[i] for i in idx]} for idx in runs[-2:]]

    # ---- 3. free-running stress: a search for a failing execution judged by the property itself (no model)
    if not replaying or res.disagreements:
        big = res.disagreements or not ctx.quick or not ctx.driver_ok
        rounds = 80000 if big else 5000
        sl = ['case %d %s | stress %d' % (i, c, rounds) for i, c in enumerate(STRESS)]
        rc, out, err = pv.sh([exe_plain], input='\n'.join(sl) + '\n', timeout=1500)
        _, _, st2, viols = pv.parse_transcript(out)
        for k, v in st2.items():
            stats[k] = stats.get(k, 0) + v
        for v in viols:
            res.violations.append({'key': v, 'what': v, 'case': v, 'mode': 'stress'})
        if rc != 0:
            res.violations.append({'key': 'stress-exit-%d' % rc, 'what': 'free-running stress: harness exited with %d (crash / double free in the real code?): %s' % (rc, san_head(err)), 'mode': 'stress'})

    # ---- 3b. targeted race search: the last N references released simultaneously by N threads, millions of objects;
    #          exposes a parsec_obj_update whose return value is not the fetch-add result (invisible to the cooperative scheduler)
    if not replaying or res.disagreements:
        for cfg, groups, secs in RACE:
            rc, out, err = pv.sh([exe_plain], input='case 0 %s | race %d %g\n' % (cfg, groups, secs if ctx.quick else 4 * secs), timeout=600)
            _, _, st2, viols = pv.parse_transcript(out)
            for k, v in st2.items():
                stats[k] = stats.get(k, 0) + v
            if viols:
                res.violations.append({'key': 'race:%s:not-destroyed-exactly-once' % cfg, 'what': viols[0], 'case': '%s | race %d %g' % (cfg, groups, secs), 'mode': 'race', 'all': viols[:8]})
            if rc != 0:
                res.violations.append({'key': 'race:%s:exit-%d' % (cfg, rc), 'what': 'race search: harness exited with %d: %s' % (rc, san_head(err)), 'mode': 'race'})

    # ---- 4. observation (not part of the verdict): instantiating the root class itself
    if not replaying:
        rc, out, err = pv.sh([exe_plain, '--probe-root'], timeout=60)
        res.extra['observation_root_class'] = ('PARSEC_OBJ_CONSTRUCT(&o, parsec_object_t) %s (model: constructor walk of the preinitialised root descriptor dereferences NULL; '
                                               'theorem root_class_walk_undefined; see docs/notes/C34.md)' % ('terminated the process with status %d' % rc if rc != 0 else 'returned normally: ' + out.strip()))

    res.rule = ('sequential: corpus + one script per class of the 340-class family (depth 1-4) + random scripts over 4 object slots, real macros under ASan/UBSan, exact comparison with the Lean model; '
                'concurrent: each evaluation = one complete schedule of 1-6 threads executed by the real PARSEC_OBJ_RETAIN/RELEASE under the cooperative scheduler and replayed step by step on the Lean machine '
                '(exhaustive DFS for the listed small cases, PRNG schedules of locally safe programs, generated protocol-respecting hand-off histories, protocol-violating programs on static objects); '
                'distinct = (class, programs, schedule) resp. op script; non-trivial = >=2 threads and >=3 operations executed, resp. a script in which destructors ran; plus free-running stress rounds and a targeted race search (N threads release the last N references of millions of fresh objects at a spin barrier; exactly one zero observation and one run of the destructors per object) judged by the property itself')
    info_tot['seq_op_histogram'] = hist
    info_tot.update(dist)
    info_tot.update(stats)
    res.extra['input_distribution'] = info_tot
    res.extra['inconclusive'] = info_tot['incomplete']


def replay(ctx, res, data):
    seq, conc = [], []
    for v in data.get('violations', []) + data.get('disagreements', []):
        c = v.get('case')
        if not c:
            continue
        if v.get('mode') == 'conc' and isinstance(c, str):
            conc.append('case %d %s' % (len(conc), c))
        elif v.get('mode') == 'seq' and isinstance(c, list):
            seq.append(c)
    if not seq and not conc:
        run(ctx, res)
    else:
        run(ctx, res, seq_cases=seq, conc=conc)
