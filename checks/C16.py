"""C16 — deferred tasks are re-run, never lost or duplicated.

Lean: Props/C16.lean.  Tie: the generated programs of C02 (shared binaries), bodies answering PARSEC_HOOK_RETURN_AGAIN a
PRNG-chosen number of times (recorded as `A` events), PARSEC_MCA task_startup_iter / task_startup_chunk swept over
{1,2,3,7,64,256}^2, schedulers, 1..16 threads, both dependency back-ends.  Compared per run: the begin / again / end trace
must be accepted step by step by the dataflow machine of graphOf p with exactly the recorded AGAIN answers (pv_PTGRT);
the rings of startup tasks handed to __parsec_schedule_vp by the generated startup function (recorded by interposing
parsec_dependencies_mark_task_as_startup / __parsec_schedule_vp in the test executable) must be, ring by ring, the batches
the Lean model of the cursor / restore logic produces for the same (iter, chunk); and the independent oracle: body
invocations = AGAIN answers + 1 per instance (answers recomputed from the PRNG), one completion, nothing after it,
successors only after it, startup rings concatenate to the startup instances, each once."""
import os, json
import pv, pvptg, ptg_gen, pvptgrt
PROP = 'C16'
LEAN_MODULE = 'ParsecVerif.Props.C16'
DRIVERS = ['pv_PTGRT']
THEOREMS = ['ParsecVerif.C16.C16_again', 'ParsecVerif.C16.C16_done_is_final', 'ParsecVerif.C16.C16_released_once', 'ParsecVerif.C16.C16_release_needs_done',
            'ParsecVerif.C16.C16_successor_after_done', 'ParsecVerif.C16.C16_startup_chunks',
            'ParsecVerif.PtgStartup.resumeSem_eq', 'ParsecVerif.PtgStartup.invokeGo_spec', 'ParsecVerif.PtgStartup.startupRun_spec',
            'ParsecVerif.PtgStartup.rangeVals_after', 'ParsecVerif.PtgRt.done_is_final', 'ParsecVerif.PtgRt.relCount_spec', 'ParsecVerif.PtgRt.graphOf_WF',
            'ParsecVerif.Runtime.again_reexecutes', 'ParsecVerif.Runtime.starts_bounded']
IMPL = ('parsec/scheduling.c (__parsec_task_progress: AGAIN branch, __parsec_schedule) + generated __jdf2c_startup_<class> (jdf2c.c: jdf_generate_startup_tasks: saved locals, '
        'goto restore_context, reserved doubling, total_nb_tasks > task_startup_chunk => AGAIN) + parsec/parsec.c release paths')
ENGINE = 'lean-trace'
LEVEL = 'proof'
LEVEL_TEXT = ('Lean 4 theorems. (1) On the task graph of EVERY WellFormed program, for every AGAIN pattern, worker count and interleaving of the abstract runtime: a body answering AGAIN k times is '
              'started exactly k+1 times and completes once in every complete run (C16_again); after its DONE it is never started and never answers AGAIN again (C16_done_is_final); every dependency '
              'is released exactly as often as it is declared, and only when its source has ended (C16_released_once, C16_release_needs_done), every start of a successor comes after the producer\'s '
              'completion (C16_successor_after_done). (2) Chunked startup: a Lean model of the generated startup function — C locals restored from the saved task, goto into the loop nest after the '
              'saved instance (resumeSem), rings scheduled when nb_tasks exceeds `reserved` (doubled while < task_startup_iter), AGAIN once total_nb_tasks > task_startup_chunk — and the theorem '
              'C16_startup_chunks: for EVERY iter and chunk (no lower bound needed) and every class with positive steps the rings of all invocations concatenate to the startup instances of the '
              'space in enumeration order, each exactly once, and every invocation but the last schedules more than `chunk` tasks (resumeSem_eq: the cursor resumes exactly after the saved instance).')
LEVEL_NOTE = ('Theorem: the statements above about the models. Sampled: the real runtime (schedules as the OS gives them); every run\'s trace is replayed on the machine with the recorded AGAIN answers and '
              'every recorded startup ring is compared with the model\'s. Negative steps are outside C16_startup_chunks (StepsPositive): there the generated startup loop is wrong (C01 known finding). '
              'Priority demotion and the `distance + 1` rescheduling of the AGAIN branch are not modelled (the machine lets any ready task be picked); local-index definitions (restore_context levels > 0), '
              'user-defined startup functions, several virtual processes are not covered. Trusted: Lean kernel, axioms propext/Classical.choice/Quot.sound, generator, harness/ptg_rt.c (interposition), lib/pvptgrt.py.')
TECHNIQUE = 'Lean 4 proofs (machine invariants; structural induction over the loop nest for the cursor) + differential whole-program runs with a trace acceptor and ring-by-ring comparison of the startup batches'
ASSUMPTIONS = ['task bodies terminate; a body answers AGAIN a finite number of times', 'single process, one virtual process', 'positive steps in the ranges of startup classes']


def configs(ctx, rng, n):
    out = []
    sch = pvptg.SCHEDS
    for i in range(n):
        s = sch[(i * 3 + rng.below(3)) % len(sch)]
        t = [1, 4, 16, 2, 8, 3][i % 6] if ctx.quick else rng.range(1, 16)
        it, ch = rng.choice(pvptgrt.ITERS), rng.choice(pvptgrt.CHUNKS)
        if i % 5 == 0:
            it, ch = 1, 1
        ag = (rng.range(1, 1 << 30), rng.choice([30, 60, 100]), rng.range(1, 4))
        out.append({'sched': s, 'threads': t, 'iter': it, 'chunk': ch, 'again': ag, 'spin': i % 3 == 1})
    return out


def is_startup(prog, g, c, env):
    """written from the language: an instance none of whose active input dependencies names a task"""
    return not ptg_gen.declared_preds(prog, g, c, env)


def evaluate(prog, g, cfg, tr, r):
    # ---- model: acceptor with the recorded AGAIN answers (+ data) and the startup rings
    ops, impl = pvptgrt.rt_ops(prog, g, tr, cfg)
    o2, i2 = pvptgrt.batch_ops(prog, tr)
    r['dis'] += pvptgrt.compare_rt(ops + o2, impl + i2)[:4]
    # ---- independent oracle
    fails = pvptgrt.oracle_basic(prog, g, tr) + pvptgrt.oracle_order(prog, g, tr)
    seq = {}
    for (k, c, env, th, vals) in tr['events']:
        seq.setdefault((c, env), []).append(k)
    insts = pvptgrt.instances(prog, g)
    nag = 0
    for (c, env) in insts:
        want = pvptgrt.again_count(cfg.get('again'), c, env)
        nag += want
        got = ''.join(seq.get((c, env), []))
        if got != 'BA' * want + 'BE':
            fails.append('%s: body events %s, expected %d AGAIN answer(s) then one completion (%s)' % (ptg_gen.inst_name(prog, c, env), got or 'none', want, 'BA' * want + 'BE'))
            if len(fails) > 4:
                break
    # startup rings: per class, their concatenation = the startup instances in enumeration order, each once
    for c in range(len(prog.classes)):
        flat = [e for b in tr['batches'].get(c, []) for e in b]
        want = [e for (cc, e) in insts if cc == c and is_startup(prog, g, c, e)]
        if flat != want and tr['end'] == 'complete':
            missing = [e for e in want if e not in flat]
            dup = [e for e in flat if flat.count(e) > 1]
            fails.append('class %s: the startup rings hold %d instance(s), the startup instances are %d (missing %s, duplicated %s, order %s)' % (
                prog.classes[c]['name'], len(flat), len(want), missing[:3], dup[:3], 'same' if sorted(flat) != sorted(want) or flat == want else 'differs'))
    r['fails'] += fails
    r['stats'].update({'events': len(tr['events']), 'again_answers': nag, 'startup_rings': sum(len(b) for b in tr['batches'].values()),
                  'startup_tasks': sum(len(x) for b in tr['batches'].values() for x in b)})


def run(ctx, res, cases=None):
    rng = pv.Rng(ctx.seed)
    corpus = pvptgrt.load_corpus(PROP)
    if cases is None:
        progs = corpus + pvptgrt.shared_programs(ctx.seed, 8 if ctx.quick else 20)
        forced = None
    else:
        progs = [c[0] for c in cases]
        forced = {c[0].name: (c[1], c[2]) for c in cases}
    items, stats = pvptgrt.prepare(ctx, res, PROP, progs, ctx.quick)
    ncfg = 5 if ctx.quick else 6
    groups = []
    for k, (p, g, b, exe) in enumerate(items):
        cfgs = configs(ctx, rng.fork(1000 + k), ncfg)
        cfgs = (cfgs[:3] if b == pvptg.BACKENDS[0] else cfgs[3:5]) if ctx.quick else (cfgs[:4] if b == pvptg.BACKENDS[0] else cfgs[4:6])
        if forced and forced.get(p.name, (None, None))[0]:
            fc, fb = forced[p.name]
            if fb and fb != b:
                continue
            cfgs = [fc] + cfgs[:2]
        groups.append([(p, g, b, exe, cfg) for cfg in cfgs])
    work = pvptgrt.interleave(groups)      # first configuration of every (program, globals, back-end), then the second, ...
    if ctx.quick and len(work) > 40:
        work = work[:40]
    if cases is None:
        # the re-entry logic of the startup generator: iter in {0,1,2,3} x chunk in {1,2,3,7} on a class with 30 startup tasks
        sw = [it for it in items if it[0].name == 'k16001' and list(it[1]) == [29] and it[2] == pvptg.BACKENDS[0]]
        if sw:
            p, g, b, exe = sw[0]
            work = [(p, g, b, exe, cfg) for cfg in pvptgrt.startup_sweep(rng.fork(99))] + work
    results = pvptgrt.sweep(ctx, res, PROP, work, evaluate)
    feat = {}
    for p in progs:
        for k, v in p.features().items():
            feat[k] = feat.get(k, 0) + v
    res.rule = ('corpus programs first (classes with many startup instances, nested and expression-defined ranges), then the random data-valid programs shared with C02; every run has bodies answering AGAIN '
                '(probability 30/60/100 %, 1..4 times, PRNG-chosen per instance and recomputed by the oracle) and a (task_startup_iter, task_startup_chunk) pair from {0,1,2,3,7,64,256} x {1,2,3,7,64,256} (one run in five: 1/1), plus the full sweep iter in {0,1,2,3} x chunk in {1,2,3,7} on a class with 30 startup tasks, '
                'a scheduler out of 11, 1..16 threads, both dependency back-ends; one evaluation = one begin / again / end event or one startup ring or verdict line; distinct = distinct '
                '(program, globals, back-end, configuration); non-trivial = at least 3 task instances executed')
    res.samples = [{'program': w[0].ser(w[1])[:300], 'globals': list(w[1]), 'backend': w[2], 'config': w[4], 'events': r['n'], 'stats': r['stats']} for w, r in results[:4]]
    res.extra['input_distribution'].update({'programs': len(progs), 'corpus': len(corpus), 'program_globals_pairs': stats, 'features': feat, 'runs': len(results)})
    pvptgrt.prune_cache()


def replay(ctx, res, data):
    run(ctx, res, cases=pvptgrt.cases_from_replay(data) or None)
