"""C27 — arenas and memory pools never hand out a block twice."""
import os, glob, zlib
from concurrent.futures import ThreadPoolExecutor
import pv

PROP = 'C27'
LEAN_MODULE = 'ParsecVerif.Props.C27'
DRIVERS = ['pv_C27']
THEOREMS = ['ParsecVerif.C27.C27_unique_owner', 'ParsecVerif.C27.C27_conservation', 'ParsecVerif.C27.C27_aligned_sized',
            'ParsecVerif.C27.C27_construct_pow2',
            'ParsecVerif.C27.C27_block_fits_request', 'ParsecVerif.C27.C27_limit', 'ParsecVerif.C27.C27_cache_seq',
            'ParsecVerif.C27.C27_seq_is_schedule', 'ParsecVerif.C27.C27_cache_conc_partial', 'ParsecVerif.C27.C27_cache_full_false',
            'ParsecVerif.C27.C27_cache_conc_tight', 'ParsecVerif.C27.C27_mempool']
IMPL = ('parsec/arena.c (parsec_arena_construct_ex, parsec_arena_allocate_device_private, parsec_arena_get_chunk, parsec_arena_release / '
        'parsec_arena_release_chunk), parsec/arena.h (PARSEC_ALIGN), parsec/mempool.c, parsec/mempool.h')
ENGINE = 'lean-coop'
LEVEL = 'proof'
LEVEL_TEXT = ('Lean 4 theorems over a small-step model of the arena with one transition per shared-memory action of the real code (LIFO pop / push, each atomic '
              'fetch-and-add on used / released, the racy plain read of released), for EVERY number of threads, every program of allocations (any counts) and releases, every set '
              'of failing data_malloc calls and EVERY schedule: (1) a chunk is in at most one place (cache, held by one thread, in flight) and in the history two allocations never '
              'return the same chunk without a release in between (C27_unique_owner, C27_conservation); (2) for every power-of-two alignment accepted by parsec_arena_construct_ex and '
              'every chunk address the data pointer computed with the PARSEC_ALIGN bit mask is aligned, behind the header, and count elements fit in the size requested from the '
              'allocator (C27_aligned_sized, C27_construct_pow2), and a reused chunk was sized for the request it serves (C27_block_fits_request); (3) with max_used = L the elements '
              'of all chunks in existence never exceed L (C27_limit); (4) cache limit: exact under sequential use (C27_cache_seq), at most max_released + threads - 1 under every schedule '
              '(C27_cache_conc_partial), the full clause is refuted by a kernel-checked 2-thread witness and the weaker bound is reached with 3 threads (C27_cache_full_false, '
              'C27_cache_conc_tight) — the witness is replayed on the real code on every run (known finding C27-F1); (5) thread mempools, all operation sequences: an element is in one '
              'place, returns to its owner pool, is never returned while allocated (C27_mempool). Tie on every run: the real functions, with an instrumented data_malloc/data_free '
              '(numbered chunks, chosen misalignment, failing calls, canaries) run sequential histories and 2-4 threads under the cooperative scheduler; every execution is replayed step '
              'by step on the compiled Lean model (counters, cache content, results, offsets, sizes).')
LEVEL_NOTE = ('Hypotheses of the theorems: the LIFO is an atomic stack (this is property C30, proved separately; in the compared executions the scheduler does not switch inside LIFO '
              'operations — executions that do (fine mode) and free-running stress runs are checked by the property oracle only); data_malloc returns unused storage; int32/size_t arithmetic '
              'does not wrap; sequentially consistent interleavings. The tie is differential testing (sampled + exhaustive small schedules), not a proof about the C code. Not covered: '
              'GPU copies (parsec_arena_get_new_copy for device != 0), the reclamation race of the LIFO pop with data_free (read of list_next of a chunk freed meanwhile; the value is discarded).')
TECHNIQUE = ('Lean 4 proof (inductive invariant over all interleavings via per-thread sums and a local/global split of every transition; bit-level proof of the alignment mask) + '
             'differential replay of the real code under a cooperative scheduler')
ASSUMPTIONS = ['parsec_lifo_t push/pop are atomic stack operations (property C30)', 'data_malloc returns storage not in use', 'no int32 / 64-bit wrap-around of used, released, sizes',
               'sequential consistency at the granularity of parsec_atomic_* operations', 'a thread releases only chunks it holds; mempool elements are freed only while allocated']

INF = 2147483647
F1 = 'C27-F1 cache limit exceeded by concurrent releases (check-then-increment on released in parsec_arena_release_chunk)'


# ------------------------------------------------------------------ generators
def gen_cfg(rng, nthreads, invalid_ok=True):
    elem = rng.choice([1, 3, 8, 24, 100, 256, 1000, 4096])
    align = rng.choice([2, 4, 8, 8, 16, 32, 64, 64, 128, 256, 1024, 4096])
    if invalid_ok and rng.chance(1, 12):
        if rng.chance(1, 3):
            elem = 0
        else:
            align = rng.choice([0, 1, 3, 6, 12, 48, 100, 8192])
    u = rng.choice([0, 1, 2, 2, 3, 4, 6, 10, INF, INF])
    r = rng.choice([0, 1, 1, 2, 3, 5, INF])
    e = max(elem, 1)
    maxmem = 10 ** 17 if u == INF else u * e + rng.range(0, e - 1)
    maxcache = 10 ** 17 if r == INF else r * e + rng.range(0, e - 1)
    fail = sorted(set(rng.range(0, 8) for _ in range(rng.range(1, 2)))) if rng.chance(1, 4) else []
    offs = [8 * rng.range(0, 511) for _ in range(rng.range(1, 4))]
    return '%d %d %d %d %d fail=%s offs=%s' % (elem, align, maxmem, maxcache, nthreads, ','.join(map(str, fail)) or '-', ','.join(map(str, offs)))


def gen_op(rng):
    x = rng.range(0, 99)
    if x < 48:
        return 'a1'
    if x < 62:
        return 'a%d' % rng.range(2, 5)
    if x < 64:
        return 'a0'
    return 'r%d' % rng.choice([0, 0, 0, 1, 1, 2, 3])


def gen_seq_case(rng, k, quick):
    n = rng.range(1, 3)
    ls = ['case %d %s' % (k, gen_cfg(rng, n))]
    for _ in range(rng.range(4, 30 if quick else 60)):
        ls.append('seq %d %s' % (rng.range(0, n - 1), gen_op(rng)))
    ls.append('run none')
    return ls


def gen_coop_case(rng, k, policy=None):
    n = rng.range(2, 4)
    ls = ['case %d %s' % (k, gen_cfg(rng, n, invalid_ok=False))]
    for _ in range(rng.range(0, 4)):
        ls.append('seq %d %s' % (rng.range(0, n - 1), gen_op(rng)))
    for t in range(n):
        ls.append('prog %d %s' % (t, ' '.join(gen_op(rng) for _ in range(rng.range(1, 5)))))
    ls.append(policy or 'run rng %d' % (rng.next() % 1000000007))
    return ls


def small_cases(quick):
    """(script lines, dfs cap): exhaustive schedule enumeration"""
    big = 10 ** 17
    out = []
    out.append((['case 0 8 8 %d 8 2 fail=- offs=0,24' % big, 'prog 0 a1 r0', 'prog 1 a1 r0'], 100))             # 20 schedules: the F1 window
    out.append((['case 0 8 8 24 8 2 fail=- offs=8', 'prog 0 a1 r0', 'prog 1 a1 r0'], 100))                        # limited: 70
    out.append((['case 0 16 64 16 16 2 fail=- offs=0,40', 'prog 0 a1 r0', 'prog 1 a1 r0'], 100))                  # max_used 1: refusals
    out.append((['case 0 8 8 32 8 3 fail=- offs=0', 'seq 0 a1', 'seq 1 a1', 'seq 2 a1', 'prog 0 r0', 'prog 1 r0', 'prog 2 r0'], 100))   # 90: overshoot 1+2
    out.append((['case 0 8 16 32 16 2 fail=1 offs=16', 'seq 0 a1', 'seq 0 r0', 'prog 0 a1 a1 r0', 'prog 1 a1 r1 r0'], 300 if quick else 3000))
    out.append((['case 0 24 8 100 0 2 fail=- offs=0', 'prog 0 a2 r0', 'prog 1 a3 a1 r0'], 2000))                  # count > 1, max_used 4
    out.append((['case 0 8 8 24 8 3 fail=- offs=0,8', 'prog 0 a1 r0', 'prog 1 a1 r0', 'prog 2 a1 r0'], 400 if quick else 35000))
    if not quick:
        out.append((['case 0 8 8 40 16 2 fail=2 offs=0', 'seq 1 a1', 'seq 1 r0', 'prog 0 a1 r0 a1 r0', 'prog 1 a1 a2 r1 r0'], 30000))
        out.append((['case 0 8 8 %d 8 4 fail=- offs=0' % big, 'seq 0 a1', 'seq 1 a1', 'seq 2 a1', 'seq 3 a1', 'prog 0 r0', 'prog 1 r0', 'prog 2 r0', 'prog 3 r0'], 3000))
    return out


def gen_pool_case(rng, k, quick):
    n = rng.range(1, 4)
    if rng.chance(1, 8):
        return ['pool %d %d %d' % (k, n, rng.choice([0, 1, 10, 47, 48, 55])), 'pend']
    ls = ['pool %d %d %d' % (k, n, rng.choice([56, 64, 100, 200, 1000]))]
    nid = 0
    for _ in range(rng.range(3, 40 if quick else 120)):
        if rng.chance(3, 5):
            ls.append('pa %d' % rng.range(0, n if rng.chance(1, 15) else n - 1)); nid += 1
        else:
            ls.append('pf %d' % rng.range(0, max(nid, 1)))
    ls.append('pend')
    return ls


def corpus_cases():
    cases = []
    for f in sorted(glob.glob(os.path.join(pv.ROOT, 'corpus', 'C27', '*.case'))):
        ls = [l.strip() for l in open(f) if l.strip() and not l.startswith('#')]
        if ls:
            cases.append(ls)
    return cases


# ------------------------------------------------------------------ property oracle (from the statement, on the implementation's outputs)
def kvs(text):
    d = {}
    for w in text.split():
        if '=' in w:
            a, b = w.split('=', 1)
            d[a] = b
    return d


def ids_of(text):
    i = text.find('c=[')
    if i < 0:
        return None
    j = text.find(']', i)
    body = text[i + 3:j].split()
    return [int(x) for x in body]


def oracle_arena(ops, impl):
    """one execution: ops[0] is the `case` op.  Returns (list of (key, what), features)."""
    out, feat = [], set()
    w = ops[0].split()
    if not impl[0].startswith('ok'):
        return out, feat
    elem, align, n = int(w[2]), int(w[3]), int(w[6])
    offs = [int(x) for x in kvs(ops[0])['offs'].split(',')]
    hdr = int(kvs(ops[0])['hdr'])
    lim = kvs(impl[0])
    maxused, maxrel = int(lim['maxused']), int(lim['maxrel'])
    if maxused != min(int(w[4]) // elem, INF) or maxrel != min(int(w[5]) // elem, INF):
        out.append(('limits', 'arena limits max_used=%d max_released=%d do not match the requested memory limits / elem_size' % (maxused, maxrel)))
    owner = {}      # chunk id -> (thread, n)
    concurrent = False
    for i in range(1, len(ops)):
        o, r = ops[i].split(), impl[i]
        if o[0] in ('step', 'fstep'):
            concurrent = True
            t = int(o[1])
            resd = r.split(' res=', 1)[1] if ' res=' in r else '-'
        elif o[0] == 'seq':
            t = int(o[1]); resd = r
        elif o[0] == 'end':
            t = -1; resd = '-'
        else:
            continue
        if resd.startswith('ok id='):
            f = kvs(resd); cid, cnt, doff, sz = int(f['id']), int(f['n']), int(f['doff']), int(f['sz'])
            if cid in owner:
                out.append(('double-handout', 'chunk %d returned to thread %d while thread %d holds it (op %d: %s)' % (cid, t, owner[cid][0], i, ops[i])))
            owner[cid] = (t, cnt)
            off = offs[cid % len(offs)]
            if (off + doff) % align != 0:
                out.append(('misaligned', 'chunk %d: data pointer at chunk+%d with chunk = %d mod 4096 is not aligned to %d' % (cid, doff, off, align)))
            if doff < hdr:
                out.append(('overlaps-header', 'chunk %d: data pointer at chunk+%d overlaps the %d-byte chunk header' % (cid, doff, hdr)))
            if doff + elem * cnt > sz:
                out.append(('too-small', 'chunk %d: %d elements of %d bytes at offset %d do not fit in the %d bytes allocated' % (cid, cnt, elem, doff, sz)))
            feat.add('reused' if ' reused ' in resd else 'fresh')
            if cnt > 1:
                feat.add('multi')
        elif resd.startswith('cached id=') or resd.startswith('freed id='):
            cid = int(kvs(resd)['id'])
            if cid not in owner:
                out.append(('release-unowned', 'release of chunk %d that nobody holds' % cid))
            owner.pop(cid, None)
            feat.add(resd.split()[0])
        elif resd.startswith('fail'):
            feat.add('refused')
        cache = ids_of(r)
        if cache is None:
            continue
        if len(set(cache)) != len(cache):
            out.append(('cache-duplicate', 'a chunk is cached twice: %s' % cache))
        both = [c for c in cache if c in owner]
        if both:
            out.append(('cached-and-held', 'chunk(s) %s are in the cache and held by a thread at the same time' % both))
        if maxused != INF:
            alive = sum(c for _, c in owner.values()) + len(cache)
            if alive > maxused:
                out.append(('alloc-limit', '%d elements exist (held + cached) with max_used = %d after op %d (%s)' % (alive, maxused, i, ops[i])))
        if maxrel != INF and len(cache) > maxrel:
            if not concurrent:
                out.append(('cache-limit-sequential', '%d chunks cached with max_released = %d in a sequential history (op %d)' % (len(cache), maxrel, i)))
            elif len(cache) > maxrel + n - 1:
                out.append(('cache-limit-beyond-threads', '%d chunks cached: more than max_released + threads - 1 = %d' % (len(cache), maxrel + n - 1)))
            else:
                out.append((F1, '%d chunks cached with max_released = %d (%d threads)' % (len(cache), maxrel, n)))
                feat.add('overshoot')
    return out, feat


def oracle_pool(ops, impl):
    out, feat = [], set()
    w = ops[0].split()
    if not impl[0].startswith('ok'):
        return out, feat
    asked, item = int(w[3]), int(kvs(ops[0])['item'])
    es = int(kvs(impl[0])['eltsize'])
    if es < asked or es < item:
        out.append(('pool-eltsize', 'element size %d smaller than asked %d or than a list item %d' % (es, asked, item)))
    alloc = {}
    for i in range(1, len(ops)):
        o, r = ops[i].split(), impl[i]
        if o[0] == 'pa' and r.startswith('ok'):
            f = kvs(r); eid, own = int(f['id']), int(f['owner'])
            if eid in alloc:
                out.append(('pool-double-handout', 'mempool element %d returned while allocated' % eid))
            if own != int(o[1]):
                out.append(('pool-owner', 'thread pool %s returned an element owned by pool %d' % (o[1], own)))
            alloc[eid] = own
            feat.add('p-reused' if 'reused' in r else 'p-fresh')
        elif o[0] == 'pf' and r.startswith('ok'):
            own = int(kvs(r)['owner'])
            if alloc.get(int(o[1])) != own:
                out.append(('pool-owner', 'element %s freed into pool %d, allocated from %s' % (o[1], own, alloc.get(int(o[1])))))
            alloc.pop(int(o[1]), None)
            feat.add('p-free')
    return out, feat


# ------------------------------------------------------------------ running
def to_input(ops):
    """replayable input text of one execution (from its transcript ops)"""
    ls, sched = [], []
    for o in ops:
        w = o.split()
        if w[0] == 'case':
            ls.append(' '.join(x for x in w if not x.startswith('hdr=')))
        elif w[0] in ('seq', 'prog'):
            ls.append(o)
        elif w[0] in ('step', 'fstep'):
            sched.append(w[1])
        elif w[0] == 'pool':
            ls.append(' '.join(x for x in w if not x.startswith('item=')))
        elif w[0] in ('pa', 'pf', 'pend'):
            ls.append(o)
    if ls and ls[0].startswith('case'):
        fine = any(o.startswith('fstep') for o in ops)
        ls.append(('run fine replay ' if fine else 'run replay ') + ' '.join(sched) if sched else 'run none')
    return ls


def input_case(lines, op):
    """the input lines (up to and including the run / pend line) of the case whose transcript op is `op`"""
    key = ' '.join(x for x in op.split() if not x.startswith('hdr=') and not x.startswith('item='))
    for i, l in enumerate(lines):
        if l == key:
            j = i + 1
            while j < len(lines) and not lines[j].startswith(('run', 'case ', 'pool ')):
                j += 1
            if j < len(lines) and lines[j].startswith('run'):
                j += 1
            return lines[i:j]
    return lines[:60]


def run_batch(exe, lines, use_driver, timeout=1500):
    rc, out, err = pv.sh([exe], input='\n'.join(lines) + '\n', timeout=timeout)
    ops, impl, stats, viols = pv.parse_transcript(out)
    o = {'runs': 0, 'steps': 0, 'dis': [], 'viol': [], 'keys': set(), 'stats': stats, 'samples': [], 'feat': {}, 'overshoot_stress': 0}
    cur = None      # op line of the execution being printed
    for l in out.splitlines():
        if ' => ' in l and l.startswith(('case ', 'pool ')):
            cur = l.split(' => ', 1)[0]
        elif l.startswith('pstress'):
            cur = None
        if l.startswith('!viol'):
            v = l[5:].strip()
            o['viol'].append({'key': v, 'what': v, 'case': input_case(lines, cur) if cur else lines[:10]})
        elif l.startswith('#overshoot'):
            o['overshoot_stress'] += 1
            o['viol'].append({'key': F1, 'what': 'free-running stress: ' + l[1:], 'case': input_case(lines, cur) if cur else lines[:10]})
    if rc != 0:
        o['viol'].append({'key': 'harness-exit-%d' % rc, 'what': 'harness exited with %d after %d ops; last op: %s; stderr: %s' % (rc, len(ops), ops[-1] if ops else None, err[-700:]),
                          'case': input_case(lines, cur) if cur else lines[:80]})
    model = None
    if use_driver and ops:
        rcd, model, derr = pv.run_driver('pv_C27', ops, timeout=timeout)
        if rcd != 0:
            o['dis'].append({'op': '<driver>', 'impl': '', 'model': 'driver exit %d: %s' % (rcd, derr[-300:])})
    # split into executions
    starts = [i for i, x in enumerate(ops) if x.startswith('case ') or x.startswith('pool ')] + [len(ops)]
    for a, b in zip(starts, starts[1:]):
        eo, ei = ops[a:b], impl[a:b]
        o['runs'] += 1
        o['steps'] += sum(1 for x in eo if x.startswith('step') or x.startswith('fstep'))
        if model is not None:
            em = model[a:b] + ['<missing>'] * max(0, b - len(model))
            d = pv.compare(eo, ei, em)
            if d:
                d[0]['case'] = to_input(eo)
                o['dis'].append(d[0])
        fails, feat = (oracle_arena if eo[0].startswith('case') else oracle_pool)(eo, ei)
        for f in feat:
            o['feat'][f] = o['feat'].get(f, 0) + 1
        seen = set()
        for key, what in fails:
            if key in seen:
                continue
            seen.add(key)
            o['viol'].append({'key': key, 'what': what, 'case': to_input(eo), 'trace': [x + ' => ' + y for x, y in zip(eo, ei)][:80]})
        if feat & {'reused', 'refused', 'freed', 'overshoot', 'p-reused'}:
            o['keys'].add(zlib.crc32('\n'.join(eo).encode()))
        if len(o['samples']) < 1 and len(eo) > 4:
            o['samples'].append({'ops': eo[:40], 'impl': ei[:40]})
    if model is not None and len(model) > len(ops):
        o['dis'].append({'op': '<extra model output>', 'impl': '', 'model': model[len(ops)]})
    return o


def run(ctx, res, lines=None):
    exe, exe_fast = ctx.path('C27'), ctx.path('C27fast')
    src = os.path.join(pv.ROOT, 'harness', 'C27.c')
    with ThreadPoolExecutor(max_workers=2) as ex:
        r1 = ex.submit(pv.cc_harness, src, exe, ctx.build, (), True)
        r2 = ex.submit(pv.cc_harness, src, exe_fast, ctx.build, (), False)
        for r in (r1, r2):
            ok, log = r.result()
            if not ok:
                res.infra_errors.append('harness compile failed: ' + log[-1500:]); return
    rng = pv.Rng(ctx.seed)
    q = ctx.quick
    batches = []      # (exe, lines, use_driver)
    if lines is not None:
        fine = any(l.startswith('run fine') for l in lines)
        batches.append((exe, lines, not fine))
    else:
        for c in corpus_cases():
            batches.append((exe, c, not any(l.startswith('run fine') for l in c)))
        k = 0
        for sc, cap in sorted(small_cases(q), key=lambda x: -x[1]):      # longest first
            batches.append((exe_fast, sc + ['run dfs %d' % cap], True))
        seqs = []
        for _ in range(250 if q else 3000):
            seqs += gen_seq_case(rng, k, q); k += 1
        chunk = 1500 if q else 8000
        batches += [(exe, seqs[i:i + chunk], True) for i in range(0, len(seqs), chunk)]   # (chunks may cut a case: harmless, a cut case is not executed)
        coop, cur = [], []
        for _ in range(150 if q else 3000):
            cur += gen_coop_case(rng, k); k += 1
            if len(cur) > 500:
                coop.append(cur); cur = []
        if cur:
            coop.append(cur)
        batches += [(exe_fast, b, True) for b in coop]
        san = []
        for _ in range(30 if q else 500):       # the same under ASan/UBSan
            san += gen_coop_case(rng, k); k += 1
        batches.append((exe, san, True))
        fine = []
        for _ in range(40 if q else 1000):
            fine += gen_coop_case(rng, k, policy='run fine rng %d' % (rng.next() % 1000000007)); k += 1
        batches.append((exe_fast, fine[:len(fine) // 2], False))
        batches.append((exe if q else exe_fast, fine[len(fine) // 2:], False))
        pools = []
        for _ in range(80 if q else 2000):
            pools += gen_pool_case(rng, k, q); k += 1
        batches.append((exe, pools, True))
        big = 10 ** 17
        for elem, align, u, r, n, rounds in ([(8, 8, big, 8, 4, 300), (64, 64, 64 * 12, 64 * 2, 3, 300), (8, 16, big, 0, 8, 150), (24, 8, 24 * 40, 24 * 3, 8, 150)] if q else
                                             [(8, 8, big, 8, 4, 20000), (8, 8, big, 16, 2, 20000), (64, 64, 64 * 12, 64 * 2, 3, 20000), (8, 16, big, 0, 8, 8000),
                                              (24, 8, 24 * 40, 24 * 3, 8, 8000), (100, 256, big, big, 16, 3000), (8, 8, 8 * 6, 8 * 6, 16, 4000)]):
            batches.append((exe_fast, ['case %d %d %d %d %d %d fail=- offs=0,8,72' % (k, elem, align, u, r, n), 'run stress %d %d' % (rounds, rng.next() % 1000003)], True)); k += 1
        batches.append((exe_fast, ['pstress 4 %d 1' % (20000 if q else 400000), 'pstress 8 %d 2' % (5000 if q else 100000), 'pstress 2 %d 3' % (20000 if q else 400000)], False))
    workers = 4 if q else 6
    with ThreadPoolExecutor(max_workers=workers) as ex:
        outs = list(ex.map(lambda b: run_batch(b[0], b[1], b[2] and ctx.driver_ok), batches))
    if lines is None and (not q or any(o['dis'] for o in outs) or not ctx.driver_ok):
        # the correspondence broke (or thorough tier): search harder for a failing execution with free-running threads
        big = 10 ** 17
        hard = []
        for elem, align, u, r, n, it in [(8, 8, 8 * 4000, 0, 8, 200000), (8, 8, 8 * 12, 8 * 2, 4, 300000), (16, 16, big, 16 * 3, 8, 200000), (8, 8, 8 * 4000, 8 * 4, 16, 60000)]:
            hard.append((exe_fast, ['case %d %d %d %d %d %d fail=- offs=0,8' % (9000 + len(hard), elem, align, u, r, n), 'run race %d %d' % (it, rng.next() % 1000003)], True))
        with ThreadPoolExecutor(max_workers=2) as ex:
            houts = list(ex.map(lambda b: run_batch(b[0], b[1], b[2] and ctx.driver_ok), hard))
        batches += hard
        outs += houts
    if not ctx.driver_ok:
        res.notes.append('model driver unavailable: correspondence not run, oracle only')
    stats, feat, keys = {}, {}, set()
    runs = steps = validated = overs = 0
    for b, o in zip(batches, outs):
        runs += o['runs']; steps += o['steps']; overs += o['overshoot_stress']
        if b[2] and ctx.driver_ok:
            validated += o['runs']
        res.disagreements += o['dis']
        res.violations += o['viol'][:6]
        keys |= o['keys']
        for k2, v in o['stats'].items():
            stats[k2] = stats.get(k2, 0) + v
        for k2, v in o['feat'].items():
            feat[k2] = feat.get(k2, 0) + v
        res.samples += o['samples'][:1]
    # keep one instance of the known finding and every other violation
    f1 = [v for v in res.violations if v['key'] == F1]
    res.violations = f1[:1] + [v for v in res.violations if v['key'] != F1][:40]
    res.disagreements = res.disagreements[:50]
    res.samples = res.samples[:6]
    res.evaluations = runs
    for kk in keys:
        res.nontrivial('%08x' % kk)
    res.traces_validated = validated
    res.rule = ('each evaluation = one complete execution of the real arena / mempool code: a sequential history, or one schedule of 2-4 threads under the cooperative scheduler '
                '(exhaustive DFS for the listed small configurations, PRNG otherwise), or one free-running stress run; all but the fine-mode and stress executions are replayed line by '
                'line on the Lean model. distinct = CRC of (configuration, programs, schedule); non-trivial = at least one chunk reused from the cache, one refused allocation, one chunk '
                'freed, or one cache overshoot (measured on the implementation output)')
    res.extra['input_distribution'] = dict(stats, features=feat, scheduler_steps=steps, executions_with_cache_overshoot=feat.get('overshoot', 0) + overs)
    res.extra['inconclusive'] = stats.get('incomplete_runs', 0)
    if lines is None and stats.get('dfs_exhausted_spaces', 0):
        res.extra['exhaustive_spaces'] = stats.get('dfs_exhausted_spaces', 0)


def replay(ctx, res, data):
    done = False
    for v in data.get('violations', []):
        c = v.get('case')
        if isinstance(c, list) and c:
            run(ctx, res, lines=c); done = True
            break
    if not done:
        for d in data.get('disagreements', []):
            c = d.get('case')
            if isinstance(c, list) and c:
                run(ctx, res, lines=c); done = True
                break
    if not done:
        run(ctx, res)
