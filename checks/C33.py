"""C33 — the runtime read-write lock excludes correctly and makes progress."""
import os, re, pv
PROP = 'C33'
LEAN_MODULE = 'ParsecVerif.Props.C33'
DRIVERS = ['pv_C33']
THEOREMS = ['ParsecVerif.RwLock.inv_step',
            'ParsecVerif.C33.C33_exclusion', 'ParsecVerif.C33.C33_exclusion_threads',
            'ParsecVerif.C33.C33_ticket_order', 'ParsecVerif.C33.C33_holder_ticket',
            'ParsecVerif.C33.C33_readers_share',
            'ParsecVerif.C33.C33_no_deadlock', 'ParsecVerif.C33.C33_progress',
            'ParsecVerif.C33.C33_measure', 'ParsecVerif.C33.C33_fair_termination', 'ParsecVerif.C33.C33_writer_distance',
            'ParsecVerif.C33.C33_refine32', 'ParsecVerif.C33.C33_exclusion32', 'ParsecVerif.C33.C33_macro',
            'ParsecVerif.RwLock.and3', 'ParsecVerif.RwLock.andFFFFFF00', 'ParsecVerif.RwLock.pres_or_phid']
IMPL = 'parsec/class/parsec_rwlock.c, parsec/class/parsec_rwlock.h (PARSEC_RWLOCK_IMPL_TICKET: parsec_atomic_rwlock_rdlock/rdunlock/wrlock/wrunlock)'
ENGINE = 'lean-coop'
LEVEL = 'proof'
LEVEL_TEXT = ('Lean 4 theorems about a small-step model of the configured phase-fair ticket lock (one transition per atomic primitive, barrier, spin re-read and plain access to a lock field), '
              'for ANY number of threads, ANY list of read/write lock cycles per thread, ANY interleaving and any starting value of the counters: (1) mutual exclusion — no reachable state has a '
              'writer inside together with another writer or a reader; (2) writers enter in ticket order (the log of tickets at entry is b, b+1, b+2, ...); (3) readers may share (reachable states '
              'with 2 and 3 readers inside); (4) no deadlock — while some thread is unfinished some thread has a state-changing step, and when all unfinished threads wait in spin loops one of the '
              'spin conditions holds; (5) liveness under fairness — every step either leaves the state unchanged or decreases a natural-number measure, hence every schedule made of at least '
              'mu = #threads + 8·#read cycles + 13·#write cycles fair rounds (each thread scheduled at least once per round) runs every thread to the end of its program: every waiting thread acquires '
              'the lock when the others keep releasing it; (6) refinement — the machine over 32-bit words (additions modulo 2^32, equality tests on wrapped values, & and | as in the C text) goes '
              'through the images of the states of the machine over the naturals for fewer than 2^24 threads, so (1) holds for it. Proof: one inductive invariant (class counters + per-thread facts + '
              'ticket uniqueness/existence) preserved by each of the 18 program points. Tie to the current source on every run: the real rdlock/rdunlock/wrlock/wrunlock run under the deterministic '
              'cooperative scheduler (hooks at every atomic primitive and in the three spin loops); every executed schedule is replayed step by step on the compiled Lean machine (32-bit version) '
              'comparing the park point and the four fields rin/rout/win/wout and the occupancy after each step — exhaustive DFS over all schedules of 2-3 threads with 1-2 cycles, random schedules for '
              'up to 5 threads, counters started at 0 and just below the 2^24 / 2^31 / 2^32 wrap-arounds. Independent oracle on the real code: occupancy counters maintained by the harness inside the '
              'critical sections (also in a free-running 16-thread stress with a data invariant), writer entry order = order of the fetch_inc on win, deadlock detection, completion.')
LEVEL_NOTE = ('Sequentially consistent interleavings at the granularity of atomic primitives and individual plain accesses to the lock fields; x86-TSO store buffering, compiler reordering and weaker '
              'architectures are not modelled (the barriers are scheduling points without effect). The theorems are about the model; the C code is tied to it by differential testing under the '
              'cooperative scheduler, whose step (atomic primitive + the plain accesses that follow it) is coarser than the model step (theorem C33_macro: coarse runs are fine runs). Fairness is the '
              'hypothesis "rounds in which every thread is scheduled at least once"; no bound on waiting in terms of other threads\' critical-section lengths (phase-fairness bound) is proved. '
              'wrunlock computes wout+1 on an int32_t: after 2^31 write cycles this is a signed overflow in C (wraps in practice; probed on the real code, matches the modular model). '
              'Not covered: the three non-configured implementations (STATE, 2LOCKS, MYTICKET); a thread that locks recursively or unlocks without holding. '
              'Trusted: Lean kernel, propext/Classical.choice/Quot.sound, the cooperative scheduler, hook H1/H1b, the harness.')
TECHNIQUE = ('Lean 4 proof (inductive invariant over all interleavings by counter abstraction + per-thread facts; termination measure; fair-round induction; refinement to 32-bit words) on a small-step '
             'model; tie = step-by-step schedule replay of the real lock under a cooperative scheduler (exhaustive DFS / random), occupancy oracle, free-running stress')
ASSUMPTIONS = ['sequential consistency at the granularity of parsec_atomic_* operations and plain accesses to the lock fields',
               'usage protocol: every thread alternates lock and the matching unlock, never nests, and leaves its critical section after finitely many of its own steps',
               'fewer than 2^24 threads use one lock (only then are the equality tests on the 32-bit fields exact)']

MAXSTEPS = 600
NEAR = [(0, 0), (16777215, 4294967295), (16777214, 2147483647), (8388607, 4294967294)]


def load_corpus():
    ls = []
    d = os.path.join(pv.ROOT, 'corpus', PROP)
    if os.path.isdir(d):
        for f in sorted(os.listdir(d)):
            if f.endswith('.case'):
                ls += [l.strip() for l in open(os.path.join(d, f)) if l.strip() and not l.startswith('#')]
    return ls


def gen_lines(ctx):
    rng = pv.Rng(ctx.seed)
    q = ctx.quick
    lines = []
    k = [1000]

    def add(a, b, progs, pol):
        lines.append('case %d %d %d %s | %s' % (k[0], a, b, ' '.join(progs), pol)); k[0] += 1
    # exhaustive: every schedule (spin re-reads whose inputs did not change are pruned by the harness)
    full = [['W', 'W'], ['W', 'R']] + ([] if q else [['R', 'R'], ['WR', 'W'], ['RW', 'R'], ['WW', 'R']])
    for p in full:
        add(0, 0, p, 'dfs %d' % (120 if q else 30000))
    # exhaustive modulo commuting local steps (barriers, thread start)
    por = [['W', 'W'], ['R', 'R'], ['W', 'R'], ['RW', 'R'], ['WR', 'W'], ['WW', 'R'], ['RW', 'W'], ['R', '-', 'W']]
    por3 = [['W', 'W', 'R'], ['W', 'R', 'R'], ['RW', 'WR']] + ([] if q else [['W', 'W', 'W'], ['R', 'R', 'R'], ['RW', 'R', 'W'], ['WR', 'W', 'R'], ['WW', 'RR']])
    for p in por:
        add(0, 0, p, 'dfs %d por' % (40 if q else 5000))
    for p in por3:
        add(0, 0, p, 'dfs %d por' % (50 if q else 12000))
    # the same small spaces started just below the wrap-around of the fields
    a, b = NEAR[1 + rng.below(len(NEAR) - 1)]
    for p in ([['W', 'R']] if q else [['W', 'R'], ['W', 'W'], ['WR', 'W']]):
        add(a, b, p, 'dfs %d por' % (30 if q else 3000))
    # random schedules, random programs
    for _ in range(160 if q else 9000):
        n = rng.range(2, 5)
        progs = []
        for _ in range(n):
            ln = rng.range(1, 3) if n <= 3 else rng.range(1, 2)
            progs.append(''.join('W' if rng.chance(2, 5) else 'R' for _ in range(ln)))
        a, b = (0, 0)
        if rng.chance(1, 3):
            a, b = rng.choice(NEAR)
            if rng.chance(1, 2):
                a, b = max(0, a - rng.below(4)), max(0, b - rng.below(4))
        add(a, b, progs, 'rng %d' % (rng.next() % 1000000007))
    # malformed stream: both sides must refuse
    for bad in ['case %d 0 0 X | rng 1', 'case %d 16777216 0 R | rng 1', 'case %d 0 4294967296 R | rng 1', 'case %d 0 0 R R R R R R R R R | rng 1',
                'case %d 0 0 RWRWR | rng 1', 'case %d 0 0 | rng 1', 'case %d a 0 R | rng 1']:
        lines.append(bad % k[0]); k[0] += 1
    return lines


STEP = re.compile(r'^(\S+) rin=(\d+) rout=(\d+) win=(\d+) wout=(\d+) in=(\d+)/(\d+)$')


def oracle_run(ops, impl):
    """The property statement evaluated on ONE execution of the real lock (independent of the Lean model).
    ops[0] is the case line, then `step t` lines, then `end`.  Returns (failure text or None, facts)."""
    facts = {'spins': 0, 'shared': 0, 'stutter': 0, 'complete': False, 'steps': 0, 'wentries': 0}
    if impl[0] == 'bad-op':
        return None, facts
    n = int(impl[0].split('=')[1])
    park = ['start'] * n
    tickets, entries = [], []
    prev_fields = None
    for o, r in zip(ops[1:], impl[1:]):
        if o == 'end':
            names = r.strip('[]').split()
            facts['complete'] = all(x == 'done' for x in names)
            continue
        t = int(o.split()[1])
        m = STEP.match(r)
        if not m:
            return 'unparsable step result %r' % r, facts
        facts['steps'] += 1
        name, fields, rd, wr = m.group(1), m.group(2, 3, 4, 5), int(m.group(6)), int(m.group(7))
        if park[t] == 'wl.rmw:win':
            tickets.append(t)                       # order in which the writers drew their tickets
        if name == 'w.cs':
            entries.append(t)
        if 'spin' in name:
            facts['spins'] += 1
            if park[t] == name and fields == prev_fields:
                facts['stutter'] += 1
        park[t] = name
        prev_fields = fields
        # occupancy reported by the harness must be what the park points say (self-check of the harness)
        if rd != sum(1 for p in park if p == 'r.cs') or wr != sum(1 for p in park if p == 'w.cs'):
            return 'occupancy counters %d/%d do not match the park points %s' % (rd, wr, park), facts
        if wr > 1 or (wr >= 1 and rd >= 1):
            return 'exclusion broken: %d reader(s) and %d writer(s) inside after %s' % (rd, wr, o), facts
        if rd >= 2:
            facts['shared'] = 1
        if entries != tickets[:len(entries)]:
            return 'writers entered in the order %s but drew their tickets in the order %s' % (entries, tickets), facts
    facts['wentries'] = len(entries)
    return None, facts


def sched_of(ops):
    return ' '.join(o.split()[1] for o in ops[1:] if o.startswith('step'))


def run(ctx, res, lines=None):
    exe = ctx.path('C33')
    ok, log = pv.cc_harness(os.path.join(pv.ROOT, 'harness', 'C33.c'), exe, ctx.build)
    if not ok:
        res.infra_errors.append('harness compile failed: ' + log[-1500:]); return
    corpus = load_corpus()
    replaying = lines is not None
    lines = lines if replaying else corpus + gen_lines(ctx)
    policy = {}
    for l in lines:
        w = l.split()
        if len(w) > 1 and ' | ' in l:
            policy[w[1]] = l.split(' | ', 1)[1].split()[0]
    nviol0 = len(res.violations)
    ops, impl, model, stats = pv.differential(ctx, res, [exe], 'pv_C33', stdin='\n'.join(lines) + '\n', timeout=3000)
    # harness-side oracle failures: make them replayable
    for v in res.violations[nviol0:]:
        if ' :: ' in v['what']:
            v['case'] = v['what'].split(' :: ', 1)[1]
            v['key'] = v['what'].split(' :: ', 1)[0] + ' :: ' + v['case']
    runs, cur = [], None
    for i, o in enumerate(ops):
        if o.startswith('case'):
            cur = []; runs.append(cur)
        if cur is not None:
            cur.append(i)
    nruns = 0
    dist = {'by_policy': {}, 'steps': 0, 'spin_parks': 0, 'stutter_rereads': 0, 'runs_with_shared_read': 0, 'runs_near_wraparound': 0,
            'write_entries': 0, 'incomplete_runs': 0, 'refused_malformed': 0, 'threads_hist': {}}
    for idx in runs:
        ro, ri = [ops[i] for i in idx], [impl[i] for i in idx]
        if ri[0] == 'bad-op':
            dist['refused_malformed'] += 1
            continue
        nruns += 1
        w = ro[0].split()
        pol = policy.get(w[1], '?')
        dist['by_policy'][pol] = dist['by_policy'].get(pol, 0) + 1
        f, facts = oracle_run(ro, ri)
        sched = sched_of(ro)
        case = ro[0] + ' | replay ' + sched
        if f is None and not facts['complete'] and pol in ('rng', 'dfs') and facts['steps'] < MAXSTEPS:
            f = 'the run stopped after %d steps with unfinished threads (%s)' % (facts['steps'], ri[-1])
        if f:
            res.violations.append({'key': f.split(':')[0] + ' :: ' + case, 'what': f, 'case': case, 'trace': ri[-12:]})
        dist['steps'] += facts['steps']; dist['spin_parks'] += facts['spins']; dist['stutter_rereads'] += facts['stutter']
        dist['runs_with_shared_read'] += facts['shared']; dist['write_entries'] += facts['wentries']
        dist['threads_hist'][str(len(w) - 4)] = dist['threads_hist'].get(str(len(w) - 4), 0) + 1
        if w[2] != '0' or w[3] != '0':
            dist['runs_near_wraparound'] += 1
        if not facts['complete']:
            dist['incomplete_runs'] += 1
        if facts['spins'] or facts['shared']:
            res.nontrivial(' '.join(w[2:]) + '|' + sched)
        if len(res.violations) >= 8:
            break
    res.evaluations = nruns
    res.traces_validated = nruns
    # free-running stress on the real lock (a search for a failing execution, not part of the proof); a larger search when the
    # correspondence broke but no failing input has been found yet
    if not replaying or res.violations or res.disagreements:
        big = (not ctx.quick) or (bool(res.disagreements) and not res.violations) or not ctx.driver_ok
        it = 40000 if big else 1500
        sl = ['stress 0 0 0 16 %d 20 %d' % (it, ctx.seed), 'stress 1 16777200 4294967200 %d %d 30 %d' % (16 if big else 8, it // 2, ctx.seed + 1),
              'stress 2 8388600 2147483600 8 %d 5 %d' % (it, ctx.seed + 2), 'stress 3 0 0 4 %d 90 %d' % (it // 2, ctx.seed + 3)]
        if big:
            sl += ['stress 4 0 0 32 %d 30 %d' % (it // 2, ctx.seed + 4), 'stress 5 16777000 4294960000 3 %d 50 %d' % (it * 2, ctx.seed + 5)]
        for line in sl:
            rc, out, err = pv.sh([exe], input=line + '\n', timeout=1500)
            _, _, st2, viols = pv.parse_transcript(out)
            for kx, vx in st2.items():
                if kx.startswith('stress'):
                    dist[kx] = max(dist.get(kx, 0), vx) if 'max' in kx else dist.get(kx, 0) + vx
            for v in viols:
                res.violations.append({'key': v, 'what': v, 'case': v.split(' :: ')[-1]})
            if rc != 0 and not viols:
                res.violations.append({'key': 'stress-exit-%d' % rc, 'what': 'stress harness exited with %d: %s' % (rc, err[-400:]), 'case': line})
            if viols or rc != 0:
                break
    dist['dfs_exhausted_spaces'] = stats.get('dfs_exhausted_spaces', 0)
    dist['dfs_truncated_spaces'] = stats.get('dfs_truncated_spaces', 0)
    dist['corpus_lines'] = len(corpus)
    res.rule = ('each evaluation = one schedule of n threads (2..5) running 1..3 read/write lock cycles each on the REAL lock under the cooperative scheduler, replayed step by step on the Lean '
                '32-bit machine (park point, rin/rout/win/wout, occupancy after every step): exhaustive DFS for the listed small configurations (with and without eager local steps), PRNG '
                'schedules for random programs, a third of them started just below the wrap-around of the fields; distinct = (counters, programs, schedule); non-trivial = some thread had to '
                'wait in a spin loop or two readers were inside together')
    res.samples = [{'ops': [ops[i] for i in idx][:40], 'impl': [impl[i] for i in idx][:40]} for idx in runs[-2:]]
    res.extra['input_distribution'] = dist
    res.extra['inconclusive'] = dist['incomplete_runs']


def replay(ctx, res, data):
    lines = [v['case'] for v in data.get('violations', []) if 'case' in v and v['case'].startswith('case')]
    lines += [d['op'] for d in data.get('disagreements', []) if str(d.get('op', '')).startswith('case')]
    run(ctx, res, lines=lines or None)
