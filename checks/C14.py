"""C14 — the communication engine delivers every message exactly once and intact."""
import os, re, json, hashlib, pv
PROP = 'C14'
LEAN_MODULE = 'ParsecVerif.Props.C14'
DRIVERS = ['pv_C14']
THEOREMS = ['ParsecVerif.C14.C14_slots', 'ParsecVerif.C14.C14_served_once', 'ParsecVerif.C14.C14_progress',
            'ParsecVerif.C14.C14_tags', 'ParsecVerif.C14.C14_window_oldest', 'ParsecVerif.C14.C14_delivery_partial',
            'ParsecVerif.C14.C14_served_once_pass', 'ParsecVerif.C14.C14_progress_create', 'ParsecVerif.C14.fill1_active',
            'ParsecVerif.C14.C14_put_get_tags_collide', 'ParsecVerif.C14.C14_testsome_order_matters',
            'ParsecVerif.C14.C14_delivery_order_caveat', 'ParsecVerif.C14.C14_acceptor_sound']
IMPL = 'parsec/parsec_mpi_funnelled.c'
ENGINE = 'lean-trace'
LEVEL = 'proof'
LEVEL_TEXT = ('Lean 4 theorems, for all configurations (any number of tags, posted >= tested >= 1, any dynamic capacity and receive quota), all API call sequences and '
              'all MPI_Testsome outcomes (any ascending set of active indices per pass): the request-array bookkeeping of parsec_mpi_funnelled.c keeps its slot invariant '
              '(every window slot holds a distinct persistent receive of its own tag, callback record = request, storage1 = slot, reqs_in_testsome = window membership; the '
              'dynamic region is gap-free after every pass, its receive counter equals the number of receive slots and never exceeds the quota), every dynamic request ever '
              'created is at every moment in exactly one of {array slot, send FIFO, receive FIFO, served log} and is served at most once, MPI_Start is only issued on a completed '
              'receive that has left the window, the feed loop leaves no installable FIFO entry behind, next_tag returns in-range consecutive tags that do not overlap while the '
              'outstanding blocks fit below MAX_MPI_TAG, and (with the MPI matching rule as an explicit hypothesis) the oldest posted receive of a tag is always inside the tested '
              'window, so a message held by any receive of the pool implies a message held by a tested receive, and the multiset delivered+held+unexpected equals the arrivals.')
LEVEL_NOTE = ('PARTIAL. Theorem: the bookkeeping state machine (model mirrors mpi_no_thread_progress / refill / push_posted_req / put / get / internal callbacks branch by branch). '
              'ASSUMED, not proved: MPI itself (a posted receive gets exactly the bytes of exactly one matching send; MPI_Testsome reports indices in increasing order - '
              'theorem C14_testsome_order_matters shows the removal loop loses a live request otherwise; non-overtaking matching). NOT covered: byte integrity end to end is only '
              'sampled by the multi-rank runs (checksums, guard zones); the comm-thread wake-up logic, GPU paths, tag unregister/rebuild while requests are in flight, '
              'PARSEC_CONTEXT_FLAG_COMM_MT. Tie to the source: 2-4 real MPI ranks run the real file (#included, interposing the library copy) under random scripts and request-window '
              'settings from 1 upward; every MPI_Testsome outcome, served index, restart and state of the real arrays is replayed through the compiled Lean machine line by line; an '
              'independent end-to-end oracle checks each message once/intact and each put/get bytes. Three genuine defects are reported (known_findings.json C14 F1, F2, F3).')
TECHNIQUE = 'Lean 4 proof (inductive invariants, conservation by permutation, potential argument for the window rotation) + trace acceptance of real multi-rank MPI runs + end-to-end oracle'
ASSUMPTIONS = ['MPI point-to-point semantics (exactly-once, intact, non-overtaking matching of posted receives) and MPI_Testsome reporting completed indices in increasing order',
               'single communication thread (funnelled mode); put is only called when can_serve() holds (asserted by the code, respected by remote_dep_mpi.c and by the harness)',
               'within one phase all transfers of one ordered process pair use the same primitive (put or get): mixing them is finding F1']

ENV = {'OMPI_ALLOW_RUN_AS_ROOT': '1', 'OMPI_ALLOW_RUN_AS_ROOT_CONFIRM': '1', 'OMPI_MCA_rmaps_base_oversubscribe': '1'}
PNAMES = ['runtime_comm_mpi_am_posted_requests', 'runtime_comm_mpi_am_tested_requests',
          'runtime_comm_mpi_dynamic_requests', 'runtime_comm_mpi_dynamic_recv_requests']
STREAM = {8: 64, 9: 2048, 10: 16384}
EAGER = 2000
SIZES = [0, 1, 7, 64, 1000, 4096, 4097, 65536, 300000, 1 << 20, 4 << 20]


# ------------------------------------------------------------------ generator
def gen_script(rng, np, nphases, nam, nx, big=False, bipartite=False):
    """A script: phases of bursts of active messages and transfers, each closed by `drain`.  Within a phase
    all transfers between one ordered pair (owner -> peer) use one primitive (see finding F1); messages above the eager
    limit only flow from one rank per phase (send_am is a blocking MPI_Send).  bipartite: in each phase a rank either only
    provides or only receives transfer data (needed when dynamic_recv == dynamic, see finding F3)."""
    lines = []
    seq = {}
    xid = 0
    for ph in range(nphases):
        body = []
        large_sender = rng.below(np) if rng.chance(1, 3) else None
        mode = {}
        givers = [r for r in range(np) if rng.chance(1, 2)] or [0]
        if len(givers) == np:
            givers = givers[:-1]
        takers = [r for r in range(np) if r not in givers]
        for _ in range(rng.range(0, nam)):
            src = rng.below(np) if large_sender is None or rng.chance(1, 2) else large_sender
            dst = (src + 1 + rng.below(np - 1)) % np
            tag = rng.choice([8, 8, 9, 9, 10])
            burst = rng.choice([1, 1, 2, 3, 5, 9])
            for _ in range(burst):
                r = rng.below(10)
                mx = STREAM[tag]
                if r == 0:
                    ln = rng.below(8)
                elif r == 1:
                    ln = mx if (mx <= 2048 or src == large_sender) else min(mx, EAGER)
                elif tag == 10 and src == large_sender and r < 5:
                    ln = rng.range(EAGER, mx)
                else:
                    ln = rng.range(8, min(mx, EAGER))
                k = (src, dst, tag)
                s = seq.get(k, 0)
                if ln >= 8:
                    seq[k] = s + 1
                body.append('am %d %d %d %d %d' % (src, dst, tag, s, ln))
        for _ in range(rng.range(0, nx)):
            owner = rng.below(np)
            peer = (owner + 1 + rng.below(np - 1)) % np
            if bipartite:
                owner, peer = rng.choice(givers), rng.choice(takers)
            m = mode.setdefault((owner, peer), rng.choice(['get', 'put']))
            size = rng.choice(SIZES[:-2] if not big else SIZES)
            if rng.chance(1, 3):
                size = rng.range(0, 70000)
            body.append('xfer %d %s %d %d %d %d' % (xid, m, owner, peer, size, rng.below(2)))
            xid += 1
        for _ in range(rng.range(0, 3)):
            body.append('poll %d %d' % (rng.below(np), rng.choice([1, 3, 20, 200])))
        # shuffle (Fisher-Yates) but keep per-(src,dst,tag) message order = sequence order
        for i in range(len(body) - 1, 0, -1):
            j = rng.below(i + 1)
            body[i], body[j] = body[j], body[i]
        body = _reorder_seq(body)
        lines += body + ['drain']
    return lines


SMALL = [0, 1, 64, 1000, 4000]
LARGE = [300000, 1 << 20]
PATTERNS = ['sLs', 'sLss', 'LsLs', 'ssLs', 'sLsLs', 'sLLs', 'LssLs', 'sLsssL']


def gen_burst(rng, np, xid, cap):
    """One phase: 3-6 put (or get) of mixed small/large sizes between one pair, all issued back to back by the calling rank
    (offers collected first with `pollhold`, then `issue`), so that they sit in consecutive dynamic slots and the small
    ones complete in the same MPI_Testsome while a large one between them is still pending: the swap-with-last removal
    then has to fill a hole from a tail that is itself complete.  Returns (lines, next transfer id)."""
    owner = rng.below(np)
    peer = (owner + 1 + rng.below(np - 1)) % np
    m = rng.choice(['put', 'put', 'get'])
    pat = rng.choice([p for p in PATTERNS if len(p) <= max(3, min(cap, 6))] or ['sLs'])
    caller = owner if m == 'put' else peer
    lines = []
    for ch in pat:
        size = rng.choice(SMALL) if ch == 's' else rng.choice(LARGE)
        lines.append('xfer %d %s %d %d %d 0' % (xid, m, owner, peer, size))
        xid += 1
    lines += ['barrier', 'pollhold %d 600' % caller, 'barrier', 'issue %d' % caller, 'drain']
    return lines, xid


def add_bursts(rng, np, lines, nb, cap):
    xid = 1 + max([int(l.split()[1]) for l in lines if l.startswith('xfer ')] + [-1])
    out = list(lines)
    for _ in range(nb):
        b, xid = gen_burst(rng, np, xid, cap)
        out += b
    return out


def _reorder_seq(body):
    """Active messages of one (src,dst,tag) must be sent in sequence order: re-sort them inside their own positions."""
    pos = {}
    for i, l in enumerate(body):
        w = l.split()
        if w[0] == 'am':
            pos.setdefault((w[1], w[2], w[3]), []).append(i)
    out = list(body)
    for k, idx in pos.items():
        items = sorted((body[i] for i in idx), key=lambda l: (int(l.split()[4]), 0))
        for i, it in zip(idx, items):
            out[i] = it
    return out


def gen_tags(rng):
    """next_tag differential: small MAX_MPI_TAG so that the roll-over branch is taken."""
    m = rng.choice([1, 2, 3, 7, 16, 100, 32767])
    v = rng.range(0, m)
    ks = [rng.range(1, max(1, min(m, 4))) for _ in range(rng.range(3, 20))]
    return 'nexttag %d %d %s' % (m, v, ' '.join(map(str, ks)))


SETTINGS_QUICK = [(1, 1, 1, 1), (3, 2, 2, 1), (4, 1, 3, 2), (2, 2, 30, 15), (5, 3, 4, 4), (8, 2, 1, 1)]
BURST_SETTINGS = [(3, 2, 6, 3), (2, 2, 30, 15), (5, 3, 4, 4), (4, 1, 5, 2), (3, 3, 8, 8)]
SETTINGS_MORE = [(1, 1, 2, 1), (2, 1, 1, 1), (3, 3, 3, 3), (6, 4, 5, 2), (10, 1, 8, 1), (20, 5, 30, 15), (7, 7, 2, 2), (3, 1, 6, 3)]


# ------------------------------------------------------------------ running one case
def run_case(ctx, exe, np, setting, lines, tag, timeout=600, stuck=45):
    """Returns dict(rc, ranks=[raw transcript text per rank], complete, err)."""
    script = ctx.path('script-%s.txt' % tag)
    prefix = ctx.path('out-%s' % tag)
    open(script, 'w').write('\n'.join(lines) + '\n')
    env = dict(ENV)
    env['C14_STUCK_S'] = str(stuck)
    xs = ['-x', 'C14_STUCK_S']
    for n, v in zip(PNAMES, setting):
        env['PARSEC_MCA_' + n] = str(v)
        xs += ['-x', 'PARSEC_MCA_' + n]
    last = None
    for attempt in range(2):
        for r in range(np):
            if os.path.exists('%s.%d' % (prefix, r)):
                os.remove('%s.%d' % (prefix, r))
        rc, out, err = pv.sh(['mpiexec', '--oversubscribe', '-n', str(np)] + xs + [exe, 'run', script, prefix], env=env, timeout=timeout)
        ranks = [open('%s.%d' % (prefix, r)).read() if os.path.exists('%s.%d' % (prefix, r)) else '' for r in range(np)]
        complete = all(t.rstrip().endswith('#end') for t in ranks)
        last = {'rc': rc, 'ranks': ranks, 'complete': complete, 'err': (out + err)[-30000:]}
        if rc == 0 or complete or any(t.strip() for t in ranks):
            break   # only a launch that produced nothing at all (mpiexec start-up failure) is retried
    return last


def split_rank(text):
    ops, impl, ev, viol, stats = [], [], [], [], {}
    for ln in text.splitlines():
        if ln.startswith('E '):
            ev.append(ln.split())
        elif ln.startswith('!viol'):
            viol.append(ln[5:].strip())
        elif ln.startswith('#'):
            w = ln.split()
            if len(w) >= 3 and w[0] == '#stat':
                stats[w[1]] = stats.get(w[1], 0) + int(w[2])
        elif ' => ' in ln:
            a, b = ln.split(' => ', 1)
            ops.append(a.strip()); impl.append(b.strip())
    return ops, impl, ev, viol, stats


# ------------------------------------------------------------------ the property, evaluated on the logs
def oracle(lines, np, ranks_ev):
    """Each active message delivered exactly once with identical bytes to its tag's callback at the destination; each
    put/get moves exactly the requested bytes (checked by the receiver: pattern + guard zones), both completion
    callbacks exactly once.  Returns (failures, order_inversions)."""
    fails = []
    want_am = {}      # (src,dst,tag,seq,len) -> count
    xf = {}
    for l in lines:
        w = l.split()
        if w[0] == 'am':
            src, dst, tag, seq, ln = map(int, w[1:6])
            k = (src, dst, tag, seq if ln >= 8 else -1, ln)
            want_am[k] = want_am.get(k, 0) + 1
        elif w[0] == 'xfer':
            xf[int(w[1])] = (w[2], int(w[3]), int(w[4]), int(w[5]))
    got_am = {}
    order = {}
    inv = 0
    xl, xr, off = {}, {}, {}
    for r in range(np):
        for e in ranks_ev[r]:
            if e[1] == 'am':
                src, dst, tag, seq, ln, ok = map(int, e[2:8])
                k = (src, dst, tag, seq, ln)
                got_am[k] = got_am.get(k, 0) + 1
                if dst != r:
                    fails.append('message %s logged by rank %d' % (k, r))
                if not ok:
                    fails.append('active message src=%d dst=%d tag=%d seq=%d len=%d delivered with wrong bytes/length/callback data' % k)
                if seq >= 0:
                    o = order.setdefault((src, dst, tag), [])
                    if o and o[-1] > seq:
                        inv += 1
                    o.append(seq)
            elif e[1] in ('xl', 'xr'):
                i, where, ok = int(e[2]), int(e[3]), int(e[4])
                d = xl if e[1] == 'xl' else xr
                d.setdefault(i, []).append((where, ok))
            elif e[1] == 'offer':
                off[int(e[4])] = off.get(int(e[4]), 0) + 1
    for k, c in want_am.items():
        g = got_am.get(k, 0)
        if g != c:
            fails.append('active message src=%d dst=%d tag=%d seq=%d len=%d sent %d time(s), delivered %d time(s)' % (k + (c, g)))
    for k, g in got_am.items():
        if k not in want_am:
            fails.append('delivery of a message that was never sent: src=%d dst=%d tag=%d seq=%d len=%d (%d times)' % (k + (g,)))
    for i, (m, owner, peer, size) in xf.items():
        caller, offerer = (owner, peer) if m == 'put' else (peer, owner)
        for name, d, where in (('local', xl, caller), ('remote', xr, offerer)):
            evs = d.get(i, [])
            if len(evs) != 1:
                fails.append('transfer %d (%s %d->%d, %d bytes): %s completion callback ran %d time(s)' % (i, m, owner, peer, size, name, len(evs)))
            else:
                if evs[0][0] != where:
                    fails.append('transfer %d: %s completion on rank %d, expected %d' % (i, name, evs[0][0], where))
                if not evs[0][1]:
                    fails.append('transfer %d (%s %d->%d, %d bytes): %s completion reports wrong bytes / bytes outside the requested range / wrong arguments' % (i, m, owner, peer, size, name))
    for i in list(xl) + list(xr):
        if i not in xf:
            fails.append('completion of unknown transfer %d' % i)
    return fails, inv


def mixes_put_get(lines):
    """Does some phase have a put and a get moving data between the same ordered pair (finding F1)?"""
    seen = {}
    for l in lines:
        w = l.split()
        if w[0] == 'drain':
            seen = {}
        elif w[0] == 'xfer':
            k = (w[3], w[4])
            if seen.setdefault(k, w[2]) != w[2]:
                return True
    return False


def evaluate(ctx, res, exe, np, setting, lines, tag, dist, shrink=True, stuck=45):
    stuck_s = stuck
    """Run one case, compare with the model, evaluate the oracle.  Returns True if clean."""
    r = run_case(ctx, exe, np, setting, lines, tag, stuck=stuck)
    case = {'np': np, 'setting': list(setting), 'script': lines, 'stuck': stuck}
    parts = [split_rank(t) for t in r['ranks']]
    res.evaluations += sum(len(p[0]) for p in parts)
    clean = True
    for p in parts:
        for k, v in p[4].items():
            dist[k] = max(dist.get(k, 0), v) if k.startswith('max_') else dist.get(k, 0) + v
    late = [e for p in parts for e in p[2] if e[1] == 'late']
    for e in late:
        if int(e[4]) == 0:
            res.violations.append({'key': 'F2:tag-registered-after-enable-never-active',
                                   'what': 'tag %s registered (rc=%s) after the engine was enabled: a message sent to it was not delivered in 3000 progress calls; tag status stays %s (ENABLE=2, never ACTIVE=3)' % (e[2], e[3], e[5]),
                                   'case': case})
            clean = False
    stuck = [e for p in parts for e in p[2] if e[1] == 'stuck']
    if stuck and setting[3] >= setting[2]:
        res.violations.append({'key': 'F3:deadlock-when-dynamic-recv-quota-equals-dynamic-requests',
                               'what': 'no request completed for the stuck-detection delay although transfers are outstanding; every dynamic slot holds a receive whose matching send waits in the peer\'s send FIFO: ' + ' || '.join(' '.join(e[2:])[:300] for e in stuck[:2]),
                               'case': case})
        return False
    if stuck:
        fails0, _ = oracle(lines, np, [p[2] for p in parts])
        if shrink:
            def failing(ls):
                if not ls or ls[-1] != 'drain':
                    ls = ls + ['drain']
                rr = run_case(ctx, exe, np, setting, ls, tag + '-s', timeout=200, stuck=8)
                pp = [split_rank(t) for t in rr['ranks']]
                return any(e[1] == 'stuck' for q in pp for e in q[2])
            small = pv.ddmin(lines, failing, max_tests=5)
            case = {'np': np, 'setting': list(setting), 'script': small, 'stuck': 10}
        res.violations.append({'key': 'stuck:' + hashlib.md5('\n'.join(lines).encode()).hexdigest()[:10],
                               'what': 'messages/transfers addressed to a rank never arrive or complete (no request completed for %d s): %s ; first missing: %s' % (
                                   stuck_s, ' || '.join(' '.join(e[2:])[:300] for e in stuck[:2]), (fails0 or ['?'])[0][:200]),
                               'case': case})
        return False
    if r['rc'] != 0 and not r['complete']:
        key = 'crash:' + hashlib.md5('\n'.join(lines).encode()).hexdigest()[:10]
        mpierr = ' '.join(sorted(set(re.findall(r'MPI_ERR_\w+: [^\n]*', r['err']) + re.findall(r'[^\n]*Assertion[^\n]*', r['err']) + re.findall(r'Signal: [^\n]*', r['err']))))[:600]
        what = 'mpiexec -n %d exited with %d before every rank finished the script: %s %s' % (np, r['rc'], mpierr, re.sub(r'\[[\w.-]+:\d+\][^\n]*\n', '', r['err'])[-400:])
        if mixes_put_get(lines):
            # the only scripts that mix put and get on one ordered pair are the F1 reproducers: the mismatched pair of messages
            # shows up as MPI_ERR_TRUNCATE, or (rget protocol) as a write past the receive buffer and a later abort
            key = 'F1:put-get-tag-collision'
        res.violations.append({'key': key, 'what': what, 'case': case})
        return False
    for rk, p in enumerate(parts):
        for v in p[3]:
            res.violations.append({'key': 'harness:' + v[:60], 'what': 'rank %d: %s' % (rk, v), 'case': case}); clean = False
    fails, inv = oracle(lines, np, [p[2] for p in parts])
    dist['order_inversions_per_source_tag'] = dist.get('order_inversions_per_source_tag', 0) + inv
    if fails:
        clean = False
        key = 'F1:put-get-tag-collision' if mixes_put_get(lines) and all('transfer' in f for f in fails) else 'e2e:' + fails[0][:80]
        small = lines
        if shrink and not key.startswith('F1'):
            def failing(ls):
                if not ls or ls[-1] != 'drain':
                    ls = ls + ['drain']
                rr = run_case(ctx, exe, np, setting, ls, tag + '-s', timeout=120)
                pp = [split_rank(t) for t in rr['ranks']]
                return (rr['rc'] != 0 and not rr['complete']) or bool(oracle(ls, np, [q[2] for q in pp])[0])
            small = pv.ddmin(lines, failing, max_tests=24)
        res.violations.append({'key': key, 'what': fails[0], 'all_failures': fails[:6], 'case': {'np': np, 'setting': list(setting), 'script': small}})
    if ctx.driver_ok:
        for rk, p in enumerate(parts):
            ops, impl = p[0], p[1]
            if not ops:
                continue
            rcd, model, derr = pv.run_driver('pv_C14', ops, timeout=300)
            dis = pv.compare(ops, impl, model)
            if dis:
                clean = False
                d0 = dis[0]
                res.disagreements.append({'rank': rk, 'index': d0['index'], 'op': d0['op'], 'impl': d0['impl'][:600], 'model': d0['model'][:600],
                                          'context': ops[max(0, d0['index'] - 6):d0['index']], 'case': case})
                break
    res.traces_validated += len(parts)
    if any(p[4].get('test_nonempty', 0) > 0 for p in parts):
        res.nontrivial('%s|%s|%s' % (np, setting, hashlib.md5('\n'.join(lines).encode()).hexdigest()[:12]))
    return clean


def load_corpus():
    cs = []
    d = os.path.join(pv.ROOT, 'corpus', PROP)
    if os.path.isdir(d):
        for f in sorted(os.listdir(d)):
            if f.endswith('.case'):
                ls = [l.strip() for l in open(os.path.join(d, f)) if l.strip()]
                hdr = dict(x.split('=') for x in ls[0].lstrip('# ').split())
                cs.append((f, int(hdr['np']), (int(hdr['posted']), int(hdr['tested']), int(hdr['dyn']), int(hdr['recv'])),
                           [l for l in ls[1:] if not l.startswith('#')], int(hdr.get('stuck', 45))))
    return cs


def run(ctx, res, cases=None):
    exe = ctx.path('C14')
    ok, log = pv.cc_harness(os.path.join(pv.ROOT, 'harness', 'C14.c'), exe, ctx.build, extra=['-rdynamic'])
    if not ok:
        res.infra_errors.append('harness compile failed: ' + log[-1500:]); return
    rng = pv.Rng(ctx.seed)
    dist = {}
    todo = []
    if cases is None:
        corpus = load_corpus()
        for (f, np, st, ls, stuck) in corpus:
            if ctx.quick and not f.startswith(('00', '01')):
                continue
            todo.append((np, st, ls, 'c' + f[:3], stuck))
        if ctx.quick:
            sets = [SETTINGS_QUICK[(ctx.seed + i) % len(SETTINGS_QUICK)] for i in range(3)]
            for i, st in enumerate(sets):
                g = rng.fork(i)
                np = 2 if i < 2 else 3
                ls = add_bursts(g, np, gen_script(g, np, 2, 5, 5, bipartite=(st[3] >= st[2])), 2, st[2]) + [gen_tags(g)]
                todo.append((np, st, ls, 'g%d' % i, 45))
            g = rng.fork(77)
            st = BURST_SETTINGS[ctx.seed % len(BURST_SETTINGS)]
            todo.append((2, st, add_bursts(g, 2, [], 5, st[2]), 'b0', 45))
        else:
            sets = SETTINGS_QUICK + SETTINGS_MORE
            k = 0
            for rep in range(3):
                for st in sets:
                    g = rng.fork(1000 + k)
                    np = 2 + (k % 3)
                    ls = add_bursts(g, np, gen_script(g, np, g.range(2, 4), 8, 9, big=(k % 5 == 0), bipartite=(st[3] >= st[2])), 3, st[2]) + [gen_tags(g)]
                    todo.append((np, st, ls, 'g%d' % k, 45))
                    k += 1
    else:
        for i, c in enumerate(cases):
            todo.append((c['np'], tuple(c['setting']), c['script'], 'r%d' % i, c.get('stuck', 45)))
    nclean = 0
    for (np, st, ls, tag, stuck) in todo:
        if evaluate(ctx, res, exe, np, st, ls, tag, dist, stuck=stuck):
            nclean += 1
        if len([v for v in res.violations if not v['key'].startswith('F')]) + len(res.disagreements) >= 3:
            break
        if any(v['key'].startswith('stuck:') for v in res.violations):
            break   # a lost completion: one minimised failing script is enough, every further one costs a time-out
    res.rule = ('corpus scripts first, then generated scripts: 2-4 MPI ranks, phases of bursts of active messages (3 stream tags, 0..16384 bytes, messages above the eager '
                'limit from one sender per phase) and put/get transfers of 0..4 MiB (one primitive per ordered pair and phase), random polls, closed by a drain; request parameters '
                '(posted, tested, dynamic, dynamic_recv) from (1,1,1,1) upward; distinct = distinct (ranks, setting, script); non-trivial = at least one MPI_Testsome pass completed a request')
    res.samples = [{'np': np, 'setting': list(st), 'script': ls[:10]} for (np, st, ls, tag, _) in todo[:3]]
    dist['cases'] = len(todo); dist['clean_cases'] = nclean
    dist['settings'] = sorted({'%d/%d/%d/%d' % tuple(st) for (_, st, _, _, _) in todo})
    res.extra['input_distribution'] = dist


def replay(ctx, res, data):
    cases = [v['case'] for v in data.get('violations', []) if isinstance(v.get('case'), dict)] + \
            [d['case'] for d in data.get('disagreements', []) if isinstance(d.get('case'), dict)]
    run(ctx, res, cases=cases or None)
