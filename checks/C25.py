"""C25 — data repository entries are reclaimed exactly when unused."""
import os, re, pv
PROP = 'C25'
LEAN_MODULE = 'ParsecVerif.Props.C25'
DRIVERS = ['pv_C25']
THEOREMS = ['ParsecVerif.DataRepo.inv_step', 'ParsecVerif.C25.C25_present', 'ParsecVerif.C25.C25_reclaim_once',
            'ParsecVerif.C25.C25_no_early', 'ParsecVerif.C25.C25_no_fault', 'ParsecVerif.C25.C25_final',
            'ParsecVerif.C25.C25_progress', 'ParsecVerif.C25.C25_terminates', 'ParsecVerif.C25.protocol_needed']
IMPL = 'parsec/datarepo.c, parsec/datarepo.h (data_repo_lookup_entry, __data_repo_lookup_entry_and_create, __data_repo_entry_used_once, __data_repo_entry_addto_usage_limit)'
ENGINE = 'lean-coop'
LEVEL = 'proof'
LEVEL_TEXT = ('Lean 4 theorems for ANY number of creator threads (lookup_entry_and_create then addto_usage_limit(n)) and user threads (used_once) on any keys and EVERY '
              'interleaving of their critical sections (one transition per bucket-locked section of datarepo.c; lookup_entry_and_create as find-and-retain | allocate | re-check-and-insert-or-retain), '
              'under the usage protocol as an explicit guard: the entry of a key is in the table iff a creator still holds it or the uses done differ from the limits announced (C25_present); '
              'every incarnation is reclaimed exactly once, by the very section after which no creator holds it and all announced uses are done, and never twice (C25_reclaim_once); no section '
              'reclaims while a creator holds it or announced uses are outstanding (C25_no_early); no call ever meets a missing entry and the budget clause alone implies presence (C25_no_fault); '
              'when all calls returned nothing is leaked: allocations = frees (C25_final); balanced systems never block before everything returned (C25_progress). '
              'Tie to the current source on every run: the real functions on fabricated execution streams and mempools, (a) sequential API histories under ASan/UBSan compared line by line '
              '(entry fields, real data_repo_lookup_entry, live mempool entries), (b) a cooperative scheduler at critical-section granularity (exhaustive DFS for small configurations, PRNG for larger) and '
              'at atomic-operation granularity (every parsec_atomic_* is a switch point; a section is observed when its bucket lock is released), each executed schedule replayed on the Lean machine, '
              '(c) a free-running 16-thread stress with an oracle written from the property statement.')
LEVEL_NOTE = ('The theorems are about the model: critical sections are atomic (justified by the bucket lock, C32/C33) and sequentially consistent; int32 wrap-around of the counters is not modelled. '
              'The usage protocol (a use only while the entry exists and within announced+promised limits; announce only by a creator that holds) is a hypothesis; protocol_needed shows it is necessary. '
              'The hash table is treated as a map from keys to entries (collisions and resizes are exercised by the tie, not modelled). Reclaim is observed without a hook through the mempools\' '
              'free lists. Trusted: Lean kernel, propext/Classical.choice/Quot.sound, the harness, scheduler and hook H1.')
TECHNIQUE = ('Lean 4 proof (inductive invariant over all interleavings; per-key measures of the thread list) on a small-step model; tie = differential replay of sequential histories and of '
             'cooperative schedules of the real code, plus stress with an independent oracle')
ASSUMPTIONS = ['sequential consistency; each bucket-locked section of datarepo.c is atomic',
               'usage protocol of the runtime: used_once only while the entry exists and within the limits announced or promised by creators that obtained the entry; addto_usage_limit once per lookup_entry_and_create',
               'fewer than 2^31 uses / creators per entry (no int32 wrap-around)']

SPEC_RE = re.compile(r'^(c(\d+):(\d+)|u(\d+))$')


def parse_specs(caseline):
    th = []
    for w in caseline.split()[3:]:
        m = SPEC_RE.match(w)
        if m:
            th.append(('c', int(m.group(2)), int(m.group(3))) if m.group(2) is not None else ('u', int(m.group(4)), 0))
    return th


# ------------------------------------------------------------------ generators
def gen_specs(rng, maxthreads, nkeys, keymul=1):
    keys = [(rng.below(50) * keymul + j) for j in range(nkeys)]
    specs = []
    for k in keys:
        nc = rng.range(1, 3)
        tot = 0
        for _ in range(nc):
            n = rng.choice([0, 0, 1, 1, 2, 3])
            specs.append('c%d:%d' % (k, n)); tot += n
        for _ in range(max(0, tot + rng.choice([0, 0, 0, 0, 1, -1]))):
            specs.append('u%d' % k)
    # shuffle
    for i in range(len(specs) - 1, 0, -1):
        j = rng.below(i + 1); specs[i], specs[j] = specs[j], specs[i]
    return specs[:maxthreads]


def gen_seq_case(rng, k):
    nkeys = rng.choice([1, 1, 2, 3, 6, 12, 24])
    specs = gen_specs(rng, 200, nkeys, keymul=rng.choice([1, 1, 4, 16]))
    # (hash mask, initial bits, collisions before a resize, maximal bits): distinct hashes with eager resizes, or forced
    # collisions in a table that cannot grow out of them (bounded: a bucket that stays over the hint resizes at every unlock)
    opts = rng.choice(['hmask=%d bits=%d coll=%d' % (2 ** 64 - 1, rng.choice([1, 2, 3]), rng.choice([16, 2, 1])),
                       'hmask=%d bits=%d coll=64' % (rng.choice([0, 1, 3]), rng.choice([1, 2])),
                       'hmask=%d bits=1 coll=%d maxbits=%d' % (rng.choice([0, 1, 3]), rng.choice([1, 2]), rng.choice([4, 6]))])
    lines = ['case %d seq %s %s' % (k, opts, ' '.join(specs))]
    phase = [0] * len(specs)
    keys = sorted({int(re.sub(r'^[cu](\d+).*', r'\1', s)) for s in specs})
    th = parse_specs(lines[0])
    left = {k: 0 for k in keys}            # budget not yet used, per key (approximate: only steers the generator)
    for _ in range(rng.range(4, 3 * len(specs) + 6)):
        r = rng.below(100)
        ready = [t for t in range(len(specs)) if (th[t][0] == 'c' and phase[t] < 2) or (th[t][0] == 'u' and phase[t] == 0 and left[th[t][1]] > 0)]
        t = rng.choice(ready) if ready and r >= 10 else rng.below(len(specs))
        if r < 5:
            lines.append('%s %d' % (rng.choice(['create', 'announce', 'use', 'fuse']), rng.range(0, len(specs))))   # mostly outside the protocol
        elif r < 13:
            lines.append('lookup %d' % rng.choice(keys + [rng.below(60)]))
        elif th[t][0] == 'c':
            if phase[t] == 0:
                lines.append('create %d' % t); phase[t] = 1; left[th[t][1]] += th[t][2]
            elif phase[t] == 1:
                lines.append('announce %d' % t); phase[t] = 2
            else:
                continue
        else:
            lines.append('%s %d' % ('fuse' if r > 97 else 'use', t))
            if phase[t] == 0 and left[th[t][1]] > 0:
                phase[t] = 1; left[th[t][1]] -= 1
        lines.append('live')
    lines.append('end')
    return lines


DFS_SMALL = ['c1:1 u1', 'c1:0 c1:0', 'c1:1 c1:1 u1 u1', 'c1:2 c1:0 u1 u1', 'hmask=0 c1:1 c2:1 u1 u2', 'c3:1 u3 u3', 'c1:1 c1:0 u1']
DFS_LARGE = ['c1:1 c1:1 c1:0 u1 u1', 'hmask=0 c1:1 c1:1 c2:1 u1 u1 u2']


def gen_coop(ctx, rng):
    lines, k = [], 0
    for c in DFS_SMALL:
        lines.append('case %d coop %s | dfs %d' % (k, c, 120 if ctx.quick else 100000)); k += 1
    if not ctx.quick:
        for c in DFS_LARGE:
            lines.append('case %d coop %s | dfs %d' % (k, c, 5000)); k += 1
    for _ in range(100 if ctx.quick else 2500):
        specs = gen_specs(rng, 10, rng.choice([1, 1, 2]))
        opts = rng.choice(['', '', 'hmask=0', 'hmask=1 bits=1'])
        lines.append('case %d coop %s %s | rng %d' % (k, opts, ' '.join(specs), rng.next() % 1000000007)); k += 1
    for _ in range(80 if ctx.quick else 2000):
        specs = gen_specs(rng, 8, rng.choice([1, 1, 2]))
        opts = rng.choice(['', 'hmask=0', 'hmask=1 bits=1'])
        lines.append('case %d fine %s %s | rng %d' % (k, opts, ' '.join(specs), rng.next() % 1000000007)); k += 1
    return lines


def load_corpus():
    cs = []
    d = os.path.join(pv.ROOT, 'corpus', PROP)
    if os.path.isdir(d):
        for f in sorted(os.listdir(d)):
            if f.endswith('.case'):
                cs.append((f, [l.rstrip('\n') for l in open(os.path.join(d, f)) if l.strip() and not l.startswith('#')]))
    return cs


# ------------------------------------------------------------------ the property, as an executable oracle on the real code's outputs
KV = re.compile(r'k=(\d+) p=(\d) cnt=(-?\d+) lmt=(-?\d+) ret=(-?\d+)(?: ph=(\d))?')


def oracle(ops, impl):
    """ops/impl of ONE run (case line first).  Written from the property statement: bookkeeping of the API calls that
    returned (phases reported by the harness), never of the entry's counters.  Returns failure texts."""
    th = parse_specs(ops[0])
    fails = []
    if not impl[0].startswith('ok'):
        return fails
    phase = [0] * len(th)
    present = {}
    tainted = set()      # keys on which a use outside the budget was forced: the hypothesis of the property is void
    live_prev = 0
    since_live = 0          # state-changing calls since the last `live` observation
    pending_drop = None

    def hold(k): return sum(1 for i, t in enumerate(th) if t[0] == 'c' and t[1] == k and phase[i] == 1)
    def ann(k): return sum(t[2] for i, t in enumerate(th) if t[0] == 'c' and t[1] == k and phase[i] == 2)
    def use(k): return sum(1 for i, t in enumerate(th) if t[0] == 'u' and t[1] == k and phase[i] == 1)
    fine_sections = {}
    for o, r in zip(ops[1:], impl[1:]):
        w = o.split()
        if r in ('rejected', 'bad-op', '<no-result>'):
            continue
        if w[0] in ('cs', 'create', 'announce', 'use', 'fuse'):
            m = KV.match(r)
            if not m or m.group(6) is None:
                fails.append('%s: unreadable result %s' % (o, r)); continue
            t = int(w[1]); k = int(m.group(1)); p = m.group(2) == '1'
            if w[0] == 'fuse':
                tainted.add(k)
            was = present.get(k, False)
            phase[t] = int(m.group(6))
            present[k] = p
            if k not in tainted:
                want = hold(k) > 0 or ann(k) != use(k)
                if p and not want:
                    fails.append('%s: entry of key %d still findable although no creator holds it and all %d announced uses happened' % (o, k, ann(k)))
                if want and not p:
                    fails.append('%s: entry of key %d reclaimed although %d creator(s) hold it and %d of %d announced uses happened' % (o, k, hold(k), use(k), ann(k)))
            since_live += 1
            pending_drop = (o, k) if (was and not p and since_live == 1) else None
        elif w[0] == 'fcs':
            m = KV.match(r)
            if m:
                present[int(m.group(1))] = m.group(2) == '1'
                fine_sections[int(w[1])] = fine_sections.get(int(w[1]), 0) + 1
        elif w[0] == 'live':
            lv = int(r)
            if lv == -999:
                fails.append('%s: a mempool free list is corrupt (an entry was freed twice)' % o)
            elif pending_drop and lv != live_prev - 1:
                fails.append('%s: the entry of key %d left the table but the number of live mempool entries went %d -> %d (reclaimed exactly once means -1)' % (pending_drop[0], pending_drop[1], live_prev, lv))
            elif lv < sum(1 for v in present.values() if v):
                fails.append('%s: %d entries in the table but only %d live mempool entries (an entry in the table was freed)' % (o, sum(1 for v in present.values() if v), lv))
            live_prev = lv; pending_drop = None; since_live = 0
        elif w[0] == 'lookup':
            k = int(w[1])
            if k in present and (r == '1') != present[k]:
                fails.append('%s: data_repo_lookup_entry says %s, the table %s the entry' % (o, r, 'holds' if present[k] else 'does not hold'))
        elif w[0] == 'end':
            m = re.match(r'\[(.*)\] live=(-?\d+) tsize=(\d+)', r)
            if not m:
                fails.append('end: unreadable %s' % r); continue
            if fine_sections:      # fine mode: every started call returned; users that ran have exactly one section
                for t, n in fine_sections.items():
                    phase[t] = 1 if th[t][0] == 'u' else 2
            cells = dict((int(c.split(':')[0]), c.split(':')[1].split('/')) for c in m.group(1).split())
            for k, c in cells.items():
                if k in tainted:
                    continue
                want = hold(k) > 0 or ann(k) != use(k)
                if (c[0] == '1') != want:
                    fails.append('end: key %d %s but holders=%d announced=%d uses=%d' % (k, 'still findable' if c[0] == '1' else 'reclaimed', hold(k), ann(k), use(k)))
            if int(m.group(2)) != int(m.group(3)):
                fails.append('end: %s entries in the table but %s live mempool entries (leak, or reclaimed more than once)' % (m.group(3), m.group(2)))
    return fails


def split_runs(ops, impl, model):
    runs, cur = [], None
    for i, o in enumerate(ops):
        if o.startswith('case '):
            cur = {'ops': [], 'impl': [], 'model': []}; runs.append(cur)
        if cur is not None:
            cur['ops'].append(o); cur['impl'].append(impl[i]); cur['model'].append(model[i] if i < len(model) else '<missing>')
    return runs


def replay_line(run):
    """a replayable form of one cooperative run: the case line with the executed section-level schedule"""
    sched = [o.split()[1] for o in run['ops'] if o.startswith('cs ')]
    return run['ops'][0] + (' | replay ' + ' '.join(sched) if ' coop ' in run['ops'][0] else '')


def shrink_seq(exe, env, ops):
    """smallest sub-script of a sequential case on which the oracle still fails on the real code"""
    def failing(sub):
        rc, out, err = pv.sh([exe], input='\n'.join([ops[0]] + list(sub)) + '\n', timeout=60, env=env)
        o, i, _, _ = pv.parse_transcript(out)
        return rc != 0 or bool(o and oracle(o, i))
    small = pv.ddmin(ops[1:], failing, max_tests=300)
    rc, out, err = pv.sh([exe], input='\n'.join([ops[0]] + small) + '\n', timeout=60, env=env)
    o, i, _, _ = pv.parse_transcript(out)
    return [ops[0]] + small, (oracle(o, i) if o else []) or ['harness exit %d' % rc], list(zip(o, i))


def evaluate(res, runs, stats, kind, hist, exe=None, env=None, orig=None):
    for r in runs:
        res.evaluations += 1
        res.traces_validated += 1
        f = oracle(r['ops'], r['impl'])
        mode = r['ops'][0].split()[2]
        hist[mode] = hist.get(mode, 0) + 1
        if hist[mode] in (3, 9) and len(res.samples) < 8:
            res.samples.append({'ops': r['ops'][:40], 'impl': r['impl'][:40]})
        case = r['ops'] if mode == 'seq' else [replay_line(r)] if mode == 'coop' else [(orig or {}).get(r['ops'][0], r['ops'][0])]
        if f and len(res.violations) < 6:
            if mode == 'seq' and exe and sum(1 for v in res.violations if v.get('shrunk')) < 2:
                small, sf, tr = shrink_seq(exe, env, r['ops'])
                res.violations.append({'key': 'C25:' + ' ; '.join(small)[:300], 'what': sf[0], 'case': small, 'all_failures': sf[:5], 'trace': tr[:60], 'shrunk': True})
                continue
            res.violations.append({'key': 'C25:' + ' ; '.join(case)[:300], 'what': f[0], 'case': case, 'all_failures': f[:5], 'trace': list(zip(r['ops'], r['impl']))[:60]})
        if r['impl'] != r['model'] and len(res.disagreements) < 6:
            i = next(i for i in range(len(r['ops'])) if r['impl'][i] != r['model'][i])
            res.disagreements.append({'case': case, 'op': r['ops'][i], 'index': i, 'impl': r['impl'][i], 'model': r['model'][i]})
        text = ' '.join(r['impl'])
        if len(r['ops']) > 5 and (' p=0 ' in text.split('ok', 1)[-1] and ' p=1 ' in text) and ('ret=2' in text or 'cnt=2' in text or text.count(' p=0 ') > 2):
            res.nontrivial(' '.join(r['ops'][0].split()[2:]) + '|' + ' '.join(o for o in r['ops'][1:] if not o.startswith(('live', 'lookup'))))


def run(ctx, res, cases=None):
    exe, exe_san = ctx.path('C25'), ctx.path('C25-san')
    src = os.path.join(pv.ROOT, 'harness', 'C25.c')
    ok, log = pv.cc_harness(src, exe, ctx.build)
    ok2, log2 = pv.cc_harness(src, exe_san, ctx.build, sanitize=True)
    if not (ok and ok2):
        res.infra_errors.append('harness compile failed: ' + (log if not ok else log2)[-1500:]); return
    env = {'ASAN_OPTIONS': 'detect_leaks=0'}
    rng = pv.Rng(ctx.seed)
    hist, stats = {}, {}
    res.samples = []
    corpus = load_corpus()
    if cases is not None:
        seq_lines = [l for c in cases for l in c if True]
        coop_lines = []
        seq_text, coop_text = [], []
        for c in cases:
            (seq_text if ' seq ' in c[0] else coop_text).extend(c)
    else:
        seq_text, coop_text = [], []
        for name, c in corpus:
            (seq_text if ' seq ' in c[0] else coop_text).extend(c)
        for k in range(260 if ctx.quick else 5000):
            seq_text += gen_seq_case(rng.fork(k), 1000 + k)
        coop_text += gen_coop(ctx, rng.fork(777777))
    if seq_text:
        ops, impl, model, st = pv.differential(ctx, res, [exe_san], 'pv_C25', stdin='\n'.join(seq_text) + '\n', timeout=1500, env=env, tag='-seq')
        res.evaluations -= len(ops)
        for a, b in st.items():
            stats[a] = stats.get(a, 0) + b
        evaluate(res, split_runs(ops, impl, model), st, 'seq', hist, exe_san, env)
        stats['seq_ops'] = len(ops); stats['seq_rejected'] = impl.count('rejected')
    if coop_text:
        ops, impl, model, st = pv.differential(ctx, res, [exe], 'pv_C25', stdin='\n'.join(coop_text) + '\n', timeout=3000, tag='-coop')
        res.evaluations -= len(ops)
        for a, b in st.items():
            stats[a] = stats.get(a, 0) + b
        evaluate(res, split_runs(ops, impl, model), st, 'coop', hist, orig={l.split(' | ')[0]: l for l in coop_text if ' | ' in l})
        stats['coop_steps'] = sum(1 for o in ops if o.startswith(('cs ', 'fcs ')))
    if cases is None:
        # free-running threads: a search for a failing execution with the oracle inside the harness (not a proof)
        big = bool(res.disagreements or res.violations) or not ctx.quick
        sl = []
        for i, (thr, keys, hm, bits, coll) in enumerate([(16, 6, 2 ** 64 - 1, 2, 16), (16, 2, 0, 1, 16), (16, 24, 2 ** 64 - 1, 1, 2), (16, 8, 3, 1, 16), (3, 1, 0, 1, 16), (16, 1, 0, 1, 16)]):
            sl.append('stress %d %d %d %d %d %d %d' % ((60000 if big else 6000), thr, keys, hm, bits, coll, ctx.seed * 100 + i))
        rc, out, err = pv.sh([exe], input='\n'.join(sl) + '\n', timeout=2400)
        _, _, st2, viols = pv.parse_transcript(out)
        for a, b in st2.items():
            stats[a] = stats.get(a, 0) + b
        for v in viols[:5]:
            res.violations.append({'key': 'C25:' + v[:200], 'what': v, 'case': sl})
        if rc != 0:
            res.violations.append({'key': 'C25:stress-exit-%d' % rc, 'what': 'free-running stress of the real repository crashed (exit %d): %s' % (rc, err[-500:]), 'case': sl})
        res.evaluations += st2.get('stress_rounds', 0)
    res.rule = ('evaluation = one complete history: a sequential API script (corpus + random, 1..24 keys, hash collisions and table resizes forced), or one schedule of 2..10 real threads under the '
                'cooperative scheduler (exhaustive DFS over all section-level interleavings of the listed small configurations, PRNG schedules at section and at atomic-operation granularity), '
                'each replayed on the Lean machine and checked by the oracle; plus free-running stress rounds. distinct = (configuration, executed schedule / script); non-trivial = the entry '
                'was created and reclaimed in the run and was retained twice or used twice or re-created')
    res.extra['input_distribution'] = dict(stats, runs_by_mode=hist, corpus_cases=len(corpus))
    res.extra['inconclusive'] = stats.get('incomplete_runs', 0)
    return


def replay(ctx, res, data):
    cases = [v['case'] for v in data.get('violations', []) if isinstance(v.get('case'), list) and v['case'] and v['case'][0].startswith('case')]
    cases += [d['case'] for d in data.get('disagreements', []) if isinstance(d.get('case'), list) and d['case'] and d['case'][0].startswith('case')]
    run(ctx, res, cases=cases or None)
