"""C07 — a task becomes ready exactly once, when its last input arrives."""
import os, pv
PROP = 'C07'
LEAN_MODULE = 'ParsecVerif.Props.C07'
DRIVERS = ['pv_C07']
THEOREMS = ['ParsecVerif.C07.cinv_step', 'ParsecVerif.C07.counter_exactly_once', 'ParsecVerif.C07.counter_word',
            'ParsecVerif.C07.counter_step_progress',
            'ParsecVerif.DepWordMask.minv_step', 'ParsecVerif.DepWordMask.maskOK_of_flows', 'ParsecVerif.C07.mask_exactly_once',
            'ParsecVerif.C07.mask_word_bits', 'ParsecVerif.C07.mask_word_final', 'ParsecVerif.C07.mask_step_progress']
IMPL = 'parsec/parsec.c (parsec_update_deps_with_counter, parsec_update_deps_with_mask, parsec_check_IN_dependencies_with_*)'
ENGINE = 'lean-coop'
LEVEL = 'proof'
LEVEL_TEXT = ('Lean 4 theorems for EVERY interleaving of the concurrent releases at atomic-operation granularity, in both modes. Counter mode: for every goal n>=1, at most one call '
              'returns ready, it does so only when all other calls have returned, and exactly one does once all returned (inductive invariant by counter abstraction, no bound '
              'on n or on the schedule). Mask mode: the same statement for the fetch-or results of parsec_update_deps_with_mask, for all IN masks, goal masks and released-flow lists '
              'satisfying the explicit decidable hypothesis MaskOK (distinct released flows below bit 30, in the goal and not in the IN mask; every goal bit is an IN bit or a released flow; '
              'goal without IN_DONE) and every schedule (bit-by-bit inductive invariant of the word, including the plain-read/fetch-or race on IN_DONE); MaskOK is proved for the generator\'s '
              'inMask/goalMask/releaseBits of every flow list of at most 30 flows with at least one released flow; the word never has a bit outside IN_DONE, the IN mask and the released flows. '
              'The model is tied to the current source on every run: the real parsec_update_deps_with_counter/_with_mask run on a fabricated task class '
              '(data, collection, control, control-gather, guarded-off and write-only flows) under a deterministic cooperative scheduler hooked at every atomic primitive; every '
              'executed schedule is replayed step by step on the Lean machine (program point and word value after each step, return values) — exhaustively for small thread counts, '
              'randomly for larger ones.')
LEVEL_NOTE = ('Mask mode is now a theorem too (ParsecVerif.C07.mask_exactly_once over ParsecVerif.DepWordMask.MInv), under the hypothesis MaskOK, which is proved for the model of the goal/IN-mask '
              'computation (itself checked against the real parsec_check_IN_dependencies_with_mask on every run) but excludes classes with control gathers (those use counters) and assumes one '
              'release per listed flow. Sequentially consistent '
              'interleavings of atomic operations only (no weak-memory effects). Trusted: Lean kernel, propext/Classical.choice/Quot.sound, the cooperative scheduler and hook H1.')
TECHNIQUE = 'Lean 4 proof (inductive invariant over all interleavings, counter abstraction) on a small-step model; tie = step-by-step schedule replay of the real code under a cooperative scheduler'
ASSUMPTIONS = ['sequential consistency at the granularity of parsec_atomic_* operations', 'each required input is released exactly once (usage protocol of the runtime)']

KINDS_COUNTER = ['D', 'D', 'D', 'L', 'C1', 'C1', 'G0', 'G1', 'G2', 'G3', 'CN', 'W']
KINDS_MASK = ['D', 'D', 'D', 'L', 'C1', 'C1', 'CN', 'W']


def nthreads(mode, flows):
    n = 0
    for f in flows:
        if f in ('D', 'C1'):
            n += 1
        elif f.startswith('G'):
            n += int(f[1:])
        elif f.startswith('X:'):
            for d in f[2:].split(','):
                if d[0] != 'f':
                    n += 1 if d[1] == 'T' else 0
                    break
        elif f.startswith('K:'):
            for d in f[2:].split(','):
                if d[0] != 'f':
                    v = int(d[1:])
                    n += (v - 1) if v > 0 else 1
    return n


def gen_flow(rng, mode):
    """one flow token; a third of the flows carry several guarded input dependencies"""
    if rng.chance(2, 3):
        return rng.choice(KINDS_COUNTER if mode == 'counter' else KINDS_MASK)
    nd = rng.range(1, 4)
    if rng.chance(2, 3):   # data flow: at least one applicable dep
        while True:
            deps = [rng.choice('ntf') + rng.choice('TL') for _ in range(nd)]
            if any(d[0] != 'f' for d in deps):
                return 'X:' + ','.join(deps)
    if mode == 'mask':     # control flow under masks: at most one applicable dep, no gather
        k = rng.range(-1, nd - 1)
        return 'K:' + ','.join((rng.choice('nt') if i == k else 'f') + '0' for i in range(nd))
    return 'K:' + ','.join(rng.choice('ntf') + str(rng.choice([0, 0, 1, 2, 3])) for _ in range(nd))


def gen_cases(ctx):
    rng = pv.Rng(ctx.seed)
    lines = []
    k = 0
    # exhaustive schedules for small configurations
    small = [('counter', ['D']), ('counter', ['D', 'D']), ('counter', ['D', 'C1', 'L']), ('counter', ['G2', 'CN']), ('counter', ['D', 'G2']),
             ('mask', ['X:fL,tT,nL', 'D']), ('mask', ['X:tT,nL', 'X:nL,tT', 'K:f0,n0']), ('counter', ['X:fT,tT,nL', 'K:t0,f2,n3']),
             ('mask', ['D']), ('mask', ['D', 'C1']), ('mask', ['L', 'D', 'W', 'C1']), ('mask', ['D', 'D', 'C1'])]
    if not ctx.quick:
        small += [('counter', ['D', 'D', 'G2']), ('mask', ['D', 'D', 'C1', 'D', 'CN'])]
    for mode, fl in small:
        lines.append('case %d %s %s | dfs %d' % (k, mode, ' '.join(fl), 3000 if ctx.quick else 400000)); k += 1
    for _ in range(300 if ctx.quick else 6000):
        mode = rng.choice(['counter', 'mask'])
        while True:
            fl = [gen_flow(rng, mode) for _ in range(rng.range(1, 7))]
            n = nthreads(mode, fl)
            if 1 <= n <= 8:
                break
        lines.append('case %d %s %s | rng %d' % (k, mode, ' '.join(fl), rng.next() % 1000000007)); k += 1
    return lines


def oracle_run(ops, impl):
    """ops/impl of one run: case line, steps, rets.  Returns failure text or None."""
    rets = impl[-1].strip('[]').split()
    if 'unfinished' in rets:
        return None
    if rets.count('done1') != 1:
        return 'ready was returned %d times by the %d concurrent releases (%s)' % (rets.count('done1'), len(rets), impl[-1])
    dones = [r.split()[0] for r in impl[1:-1] if r.startswith('done')]
    if dones and dones[-1] != 'done1':
        return 'ready was returned before the last release completed: completion order %s' % dones
    return None


def run(ctx, res, lines=None):
    exe = ctx.path('C07')
    ok, log = pv.cc_harness(os.path.join(pv.ROOT, 'harness', 'C07.c'), exe, ctx.build)
    if not ok:
        res.infra_errors.append('harness compile failed: ' + log[-1500:]); return
    lines = lines or gen_cases(ctx)
    ops, impl, model, stats = pv.differential(ctx, res, [exe], 'pv_C07', stdin='\n'.join(lines) + '\n', timeout=3000)
    # split into runs
    runs, cur = [], None
    for i, o in enumerate(ops):
        if o.startswith('case'):
            cur = []; runs.append(cur)
        if cur is not None:
            cur.append(i)
    nsched = 0
    modes = {'counter': 0, 'mask': 0}
    for idx in runs:
        ro, ri = [ops[i] for i in idx], [impl[i] for i in idx]
        if not ri[-1].startswith('['):
            continue
        nsched += 1
        modes[ro[0].split()[2]] += 1
        f = oracle_run(ro, ri)
        sched = ' '.join(o.split()[1] for o in ro[1:-1])
        if f:
            res.violations.append({'key': ro[0] + ' | replay ' + sched, 'what': f, 'case': ro[0] + ' | replay ' + sched, 'trace': ri})
        if len(ro) > 4:
            res.nontrivial(ro[0].split(' ', 2)[2] + '|' + sched)
    res.evaluations = nsched
    if res.disagreements or not ctx.quick or not ctx.driver_ok:
        # search for a concrete failing execution with free-running threads (not a proof, a search)
        sl = ['case %d %s | stress %d' % (i, c, 40000 if ctx.quick else 400000) for i, c in enumerate(
            ['counter D D', 'counter D D D D', 'counter D G3 C1 L', 'mask D C1', 'mask D D L C1 D', 'counter D D D D D D D D'])]
        rc, out, err = pv.sh([exe], input='\n'.join(sl) + '\n', timeout=1200)
        _, _, st2, viols = pv.parse_transcript(out)
        stats.update(st2)
        for v in viols:
            res.violations.append({'key': v, 'what': v, 'case': v})
    res.traces_validated = nsched
    res.rule = ('each evaluation = one complete schedule of n concurrent releases executed by the real functions under the cooperative scheduler and replayed on the Lean machine; '
                'exhaustive DFS over all schedules for the listed small configurations, PRNG schedules for random flow lists (n<=8 threads); distinct = (flow list, schedule); non-trivial = at least 3 steps')
    res.samples = [{'ops': [ops[i] for i in idx], 'impl': [impl[i] for i in idx]} for idx in runs[-2:]]
    res.extra['input_distribution'] = dict(stats, runs_by_mode=modes, steps=len(ops) - 2 * nsched)
    res.extra['inconclusive'] = stats.get('incomplete_runs', 0)


def replay(ctx, res, data):
    lines = [v['case'] for v in data.get('violations', []) if 'case' in v]
    run(ctx, res, lines=lines or None)
