"""C20 — block-cyclic data distributions are consistent."""
import os, json, math, pv
PROP = 'C20'
LEAN_MODULE = 'ParsecVerif.Props.C20'
DRIVERS = ['pv_C20']
THEOREMS = ['ParsecVerif.C20.owner_in_range', 'ParsecVerif.C20.local_iff_owner', 'ParsecVerif.C20.slot_in_range',
            'ParsecVerif.C20.slot_injective', 'ParsecVerif.C20.slot_surjective', 'ParsecVerif.C20.memory_disjoint',
            'ParsecVerif.C20.key_roundtrip', 'ParsecVerif.C20.key_injective', 'ParsecVerif.C20.vp_grid', 'ParsecVerif.C20.vpid_in_range',
            'ParsecVerif.C20.datakey_partial', 'ParsecVerif.C20.kcyclic_datakey_collision',
            'ParsecVerif.C20.kview_in_window', 'ParsecVerif.C20.kview_injective', 'ParsecVerif.C20.kview_slot_injective',
            'ParsecVerif.C20.sym_owner_in_range', 'ParsecVerif.C20.sym_local_iff_owner', 'ParsecVerif.C20.sym_lower_slot_in_range',
            'ParsecVerif.C20.sym_lower_slot_injective', 'ParsecVerif.C20.sym_upper_slot_in_range', 'ParsecVerif.C20.sym_upper_slot_injective',
            'ParsecVerif.C20.band_owner_in_range', 'ParsecVerif.C20.band_slot_injective', 'ParsecVerif.C20.band_slot_in_range',
            'ParsecVerif.C20.tab_slot_in_range', 'ParsecVerif.C20.tab_slot_injective', 'ParsecVerif.C20.tab_slot_surjective',
            'ParsecVerif.C20.vec_owner_in_range', 'ParsecVerif.C20.vec_diag_slot_injective', 'ParsecVerif.C20.vec_init_terminates_iff',
            'ParsecVerif.C20.vec_diag_init_hangs', 'ParsecVerif.C20.vec_row_slot_collision']
IMPL = ('parsec/data_dist/matrix/{two_dim_rectangle_cyclic,grid_2Dcyclic,sym_two_dim_rectangle_cyclic,two_dim_rectangle_cyclic_band,'
        'two_dim_tabular,vector_two_dim_cyclic,matrix}.c')
ENGINE = 'lean-seq'
LEVEL = 'proof'
LEVEL_TEXT = ('Lean 4 theorems, for ALL tile/matrix sizes, submatrix offsets, process grids P x Q, k-cyclicity factors kp,kq and grid offsets ip,jq, about a model that '
              'mirrors parsec_matrix_block_cyclic_init / twoDBC_* / twoDBC_kcyclic_* / parsec_grid_2Dcyclic_init branch by branch: the owner is a valid rank; a tile passes a '
              'rank\'s locality assertions iff that rank is the owner; the data_map position of an owned tile is below nb_local_tiles, injective on the rank\'s tiles and onto '
              '[0, nb_local_tiles) (so tile-storage memory blocks never overlap); data_key / key2coords round-trip; vp_p*vp_q = nb_vp and vpid < nb_vp. '
              'k-cyclic VIEW: kview_compute (cycle walking) terminates inside the window and is injective for all view factors, hence distinct view tiles of a rank use distinct slots. '
              'SYMMETRIC (square tile grids, both triangles): owner in range, local iff owner, coord2pos below nb_local_tiles (for UPPER by a double-counting argument: the init counts by rows, coord2pos by columns) and injective. '
              'BAND (composition of two 2D collections) and TABULAR (all tables): slot in range / injective (tabular also onto). VECTOR: owner in range, DIAG slot injective. '
              'Three defects of the real code are proved on the model with witnesses and reproduced on the real code (k-cyclic data_of key collision, vector DIAG init '
              'non-termination, vector ROW/COL slot collision). Tie on every run: the real init functions and accessors are executed for every rank\'s view in one process (exhaustive small box + '
              'random parameters over all six variants, both storages, nb_vp in {1,6} quick / {1,2,4,6,7,12} thorough) and the full ownership/slot/key/offset/vpid tables are compared with the compiled Lean model; '
              'an independent Python oracle of the property statement is evaluated on the implementation\'s tables.')
LEVEL_NOTE = ('Theorems are about the Lean model (Nat arithmetic; all C operands are non-negative ints far below 2^31 in the tested box, overflow is not modelled). '
              'Not theorems, only differential + oracle: surjectivity (no slot wasted) for sym/kview/band, '
              'LAPACK-storage element offsets (slot theorems hold for both storages), the vector ROW/COL variants (they are defective, see findings). '
              'vp grid: ceilf(sqrtf(n)) is modelled as the integer ceiling square root. Trusted: Lean kernel, propext/Classical.choice/Quot.sound, the harness '
              '(it enlarges data_map after init so that an out-of-range position is observed instead of corrupting the heap; it adds room for device_copies[0] as parsec_data_init does), '
              'differential testing as the model-code tie.')
TECHNIQUE = 'Lean 4 proof (div/mod arithmetic, loop induction) on a hand-written model, tied by differential correspondence of full ownership/slot/key tables with the real accessors for every rank'
ASSUMPTIONS = ['positive tile and matrix sizes, submatrix inside the matrix (i+m <= lm, j+n <= ln), P,Q,kp,kq >= 1, ip < P, jq < Q, nb_vp >= 1',
               'no int overflow (sizes far below 2^31)', 'symmetric distributions are used on square tile grids (lmt = lnt)',
               'the band collection is built as in tests/collections/two_dim_band (band has 2*band_size-1 tile rows, same tile size and node count)']

KEY_F1 = 'F1-kcyclic-data_of-key'
KEY_F2 = 'F2-vector-diag-init-hang'
KEY_F3 = 'F3-vector-row-col-init-swapped'
KEY_F4 = 'F4-vector-diag-nb_local_tiles-overcount'


def ceil_div(a, b):
    return (a + b - 1) // b


# ------------------------------------------------------------------ generators
def tm_random(rng, big):
    mb, nb = rng.range(1, 4), rng.range(1, 4)
    if rng.chance(1, 3):
        mb = nb = rng.range(1, 3)
    hi = 14 if not big else 40
    lmt, lnt = rng.range(1, hi), rng.range(1, hi)
    while lmt * lnt > (150 if not big else 900):
        lmt, lnt = rng.range(1, hi), rng.range(1, hi)
    lm = lmt * mb - (rng.below(mb) if rng.chance(1, 2) else 0)
    ln = lnt * nb - (rng.below(nb) if rng.chance(1, 2) else 0)
    if rng.chance(1, 2):
        i, j, m, n = 0, 0, lm, ln
    else:
        i = rng.below(lm); m = rng.range(1, lm - i)
        j = rng.below(ln); n = rng.range(1, ln - j)
        if rng.chance(1, 2):
            i -= i % mb; j -= j % nb
    return mb, nb, lm, ln, i, j, m, n


def grid_random(rng, maxnodes=16, kmax=5):
    while True:
        P, Q = rng.range(1, 6), rng.range(1, 6)
        if rng.chance(1, 8):
            P, Q = rng.choice([(1, 16), (16, 1), (4, 4), (2, 8), (8, 2), (1, 1)])
        if P * Q <= maxnodes:
            break
    kp = 1 if rng.chance(1, 3) else rng.range(1, kmax)
    kq = 1 if rng.chance(1, 3) else rng.range(1, kmax)
    return P, Q, kp, kq, rng.below(P), rng.below(Q)


def gen_ops(rng, quick, V):
    ops = []
    st = {}

    def add(kind, op):
        ops.append(op)
        st[kind] = st.get(kind, 0) + 1
    # exhaustive small box for the 2D block-cyclic distribution (tile size 1, so lmt = lm)
    if V == 1:
        for P in (1, 2, 3):
            for ip in range(P):
                for Q in (1, 2):
                    for jq in range(Q):
                        for kp in (1, 2, 3):
                            for kq in (1, 2):
                                for lm in range(1, 8 if quick else 11):
                                    for ln in ((1, 3, 4) if quick else (1, 2, 3, 4, 5, 7)):
                                        add('bc-box', 'bc T 1 1 %d %d 0 0 %d %d %d %d %d %d %d %d %d' % (lm, ln, lm, ln, P, Q, kp, kq, ip, jq, V))
    n_bc = (500 if quick else 3000) if V == 1 else (250 if quick else 1000)
    for k in range(n_bc):
        r = rng.fork(k)
        tm = tm_random(r, not quick)
        g = grid_random(r)
        add('bc', 'bc %s %s %s %d' % (r.choice(['T', 'T', 'L']), ' '.join(map(str, tm)), ' '.join(map(str, g)), V))
    for k in range((150 if quick else 1000) if V == 1 else (60 if quick else 300)):
        r = rng.fork(100000 + k)
        tm = tm_random(r, not quick)
        P, Q, kp, kq, ip, jq = grid_random(r)
        add('kv', 'kv %s %s %d %d %d %d %d %d %d' % (r.choice(['T', 'T', 'L']), ' '.join(map(str, tm)), P, Q, kp, kq, ip, jq, V))
    for k in range((150 if quick else 1000) if V == 1 else (60 if quick else 300)):
        r = rng.fork(200000 + k)
        mb = r.range(1, 3)
        lt = r.range(1, 12 if quick else 28)
        lm = lt * mb - (r.below(mb) if r.chance(1, 2) else 0)
        if r.chance(2, 3):
            i, m = 0, lm
        else:
            i = r.below(lm); i -= i % mb; m = r.range(1, lm - i)
        P, Q = r.range(1, 5), r.range(1, 5)
        while P * Q > 16:
            P, Q = r.range(1, 5), r.range(1, 5)
        add('sym', 'sym %s %d %d %d %d %d %d %d %d %d %d %d' % (r.choice(['U', 'L']), mb, mb, lm, lm, i, i, m, m, P, Q, V))
    for k in range((120 if quick else 800) if V == 1 else (40 if quick else 200)):
        r = rng.fork(300000 + k)
        mb, nb = r.range(1, 3), r.range(1, 3)
        lmt, lnt = r.range(1, 10 if quick else 22), r.range(1, 10 if quick else 22)
        P, Q, kp, kq, ip, jq = grid_random(r, kmax=3)
        nodes = P * Q
        divs = [d for d in range(1, nodes + 1) if nodes % d == 0]
        bP = r.choice(divs); bQ = nodes // bP
        bkp, bkq = r.range(1, 3), r.range(1, 3)
        bs = r.range(1, 4)
        add('band', 'band %d %d %d %d %d %d %d %d %d %d %d %d %d %d %d %d %d %d' % (
            mb, nb, lmt * mb, lnt * nb, P, Q, kp, kq, ip, jq, bP, bQ, bkp, bkq, r.below(bP), r.below(bQ), bs, V))
    for k in range((120 if quick else 800) if V == 1 else (40 if quick else 200)):
        r = rng.fork(400000 + k)
        mb, nb, lm, ln, i, j, m, n = tm_random(r, False)
        nodes = r.range(1, 9)
        cnt = ceil_div(lm, mb) * ceil_div(ln, nb)
        skew = r.below(3)
        ranks = [(r.below(nodes) if skew == 0 else (e % nodes if skew == 1 else min(r.below(nodes), r.below(nodes)))) for e in range(cnt)]
        vps = [r.below(V) for _ in range(cnt)]
        add('tab', 'tab %d %d %d %d %d %d %d %d %d %d %s' % (nodes, mb, nb, lm, ln, i, j, m, n, V, ' '.join(map(str, ranks + vps))))
    nhang = 0
    for k in range((160 if quick else 1000) if V == 1 else (40 if quick else 200)):
        r = rng.fork(500000 + k)
        mb = r.range(1, 3)
        lmt = r.range(1, 30)
        lm = lmt * mb - (r.below(mb) if r.chance(1, 2) else 0)
        if r.chance(1, 2):
            i, m = 0, lm
        else:
            i = r.below(lm); m = r.range(1, lm - i)
        P, Q = r.range(1, 5), r.range(1, 5)
        d = r.choice(['D', 'D', 'R', 'C'])
        if d == 'D':
            # each rank whose init does not terminate costs 0.3 s of CPU: keep only a few such configurations
            hangs = sum(1 for rk in range(P * Q) if vec_hangs(P, Q, rk))
            if hangs:
                if nhang >= (2 if quick else 6) or hangs > 3:
                    P = Q = r.range(1, 4)
                else:
                    nhang += 1
        add('vec', 'vec %s %d %d %d %d %d %d %d' % (d, mb, lm, i, m, P, Q, V))
    if V == 1:
        add('reject', 'bc T 0 1 4 4 0 0 4 4 1 1 1 1 0 0 1')
        add('reject', 'bc T 1 1 4 4 2 0 3 4 1 1 1 1 0 0 1')
        add('reject', 'bc T 1 1 4 4 0 0 4 4 2 2 1 1 2 0 1')
        add('reject', 'kv T 1 1 4 4 0 0 4 4 2 2 0 1 0 0 1')
        add('reject', 'sym L 1 1 4 5 0 0 4 5 2 2 1')
        add('reject', 'band 1 1 4 4 2 2 1 1 0 0 3 1 1 1 0 0 1 1')
        add('reject', 'vec D 1 4 0 5 2 2 1')
        add('reject', 'tab 2 1 1 2 2 0 0 2 2 1 0 1 2 1 0 0 0 0')
        add('reject', 'frobnicate 1 2 3')
        add('reject', 'bc Q 1 1 4 4 0 0 4 4 1 1 1 1 0 0 1')
    return ops, st


def vec_hangs(P, Q, rank):
    """predicate of known finding F2, from the code text: pmq % gcd == 0 and the loop `while (drank % Q != 0) drank += Q` is entered"""
    rr, cr = (rank // Q) % P, rank % Q
    pmq = abs(cr - rr)
    return pmq % math.gcd(P, Q) == 0 and pmq % Q != 0


# ------------------------------------------------------------------ the property, evaluated on the implementation's tables
def parse_result(r):
    """-> (H ints, R entries (list of str), T entries (list of str)) or None"""
    if not r.startswith('H '):
        return None
    try:
        h, rest = r[2:].split(' | R', 1)
        rr, tt = rest.split(' | T', 1)
        return [int(x) for x in h.split()], rr.split(), tt.split()
    except ValueError:
        return None


def oracle(op, result):
    """Independent statement of C20 on one configuration.  Returns list of (category, text)."""
    w = op.split()
    kind = w[0]
    if result in ('rejected', 'bad-op'):
        return []
    pr = parse_result(result)
    if pr is None:
        return [('unparsable', 'result not a table: %s' % result[:80])]
    H, R, T = pr
    fails = []
    if kind in ('bc', 'kv'):
        lap = w[1] == 'L'
        mb, nb, lm, ln, i, j, m, n, P, Q, kp, kq, ip, jq, V = map(int, w[2:])
        nodes = P * Q
    elif kind == 'sym':
        lap = False
        mb, nb, lm, ln, i, j, m, n, P, Q, V = map(int, w[2:])
        nodes = P * Q
    elif kind == 'band':
        lap = False
        mb, nb, lm, ln, P, Q, kp, kq, ip, jq, bP, bQ, bkp, bkq, bip, bjq, bs, V = map(int, w[1:])
        i = j = 0; m, n = lm, ln
        nodes = P * Q
    elif kind == 'tab':
        lap = False
        nodes, mb, nb, lm, ln, i, j, m, n, V = map(int, w[1:11])
    elif kind == 'vec':
        lap = False
        mb, lm, i, m, P, Q, V = map(int, w[2:])
        nb, ln, j, n = 1, 1, 0, 1
        nodes = P * Q
    else:
        return []
    lmt, lnt = ceil_div(lm, mb), ceil_div(ln, nb)
    oi, oj = i // mb, j // nb
    mt = (i + m - 1) // mb - oi + 1
    nt = (j + n - 1) // nb - oj + 1
    bsiz = mb * nb
    if len(T) != mt * nt:
        return [('table-size', 'expected %d tile entries, got %d' % (mt * nt, len(T)))]
    if len(R) != nodes:
        return [('table-size', 'expected %d rank entries, got %d' % (nodes, len(R)))]
    full = (i == 0 and j == 0 and m == lm and n == ln)
    # per rank: capacity of each storage
    caps = []
    for e in R:
        if e == 'hang':
            caps.append(None)
        else:
            f = e.split(':')
            caps.append([int(f[0]), int(f[1])] if kind == 'band' else [int(f[0])])
    for r, c in enumerate(caps):
        if c is None:
            fails.append(('init-hang', 'init of rank %d does not terminate' % r))
    llm = [int(e.split(':')[3]) if kind in ('bc', 'kv') and e != 'hang' else 0 for e in R]
    lln = [int(e.split(':')[4]) if kind in ('bc', 'kv') and e != 'hang' else 0 for e in R]
    seen_keys = {}
    slots = {}     # (owner, which) -> {slot: tile}
    mem = {}       # (owner, which) -> list of (tile, set or interval)
    dkeys = {}
    owned = {}
    stored_tiles = 0
    for idx, e in enumerate(T):
        tm_, tn_ = idx // nt, idx % nt
        gm, gn = tm_ + oi, tn_ + oj
        tile = (tm_, tn_)
        if e == 'x':
            if kind != 'sym':
                fails.append(('unexpected-x', 'tile %s' % (tile,)))
            else:
                up = w[1] == 'U'
                if (up and gm <= gn) or (not up and gm >= gn):
                    fails.append(('stored-tile-has-no-owner', 'tile %s of the stored triangle has no owner' % (tile,)))
            continue
        if kind == 'sym':
            up = w[1] == 'U'
            if not ((up and gm <= gn) or (not up and gm >= gn)):
                fails.append(('owner-outside-triangle', 'tile %s' % (tile,)))
        f = e.split(':')
        if len(f) != 8:
            fails.append(('unparsable', 'tile %s entry %s' % (tile, e)))
            continue
        own, key, km, kn = int(f[0]), int(f[1]), int(f[2]), int(f[3])
        stored_tiles += 1
        # 1. exactly one valid owner (all views agree: checked by the harness, !viol lines)
        if not (0 <= own < nodes):
            fails.append(('owner-out-of-range', 'tile %s owner %d not in [0,%d)' % (tile, own, nodes)))
            continue
        # 3. data keys map back to their coordinates
        if (km, kn) != tile:
            fails.append(('key-roundtrip', 'tile %s key %d maps back to (%d,%d)' % (tile, key, km, kn)))
        if key in seen_keys:
            fails.append(('key-collision', 'tiles %s and %s share key %d' % (seen_keys[key], tile, key)))
        seen_keys[key] = tile
        if caps[own] is None:
            continue     # owner's init hung: nothing else observable
        if f[4] in ('-', 'diverge') or f[4].startswith('-'):
            fails.append(('slot-missing', 'tile %s: no usable slot (%s)' % (tile, f[4])))
            continue
        if kind == 'band':
            which, slot = map(int, f[4].split('.'))
        else:
            which, slot = 0, int(f[4])
        owned[own] = owned.get(own, 0) + 1
        # 2. one-to-one onto local storage slots
        sl = slots.setdefault((own, which), {})
        if slot in sl:
            fails.append(('slot-collision', 'rank %d: tiles %s and %s both use slot %d' % (own, sl[slot], tile, slot)))
        else:
            sl[slot] = tile
        cap = caps[own][which]
        if not (0 <= slot < cap):
            fails.append(('slot-out-of-range', 'rank %d: tile %s uses slot %d but nb_local_tiles = %d' % (own, tile, slot, cap)))
        dkey = int(f[5])
        if kind in ('bc', 'sym', 'tab', 'vec'):
            if dkey != key:
                fails.append(('data-key-mismatch', 'tile %s: data_key = %d but data_of(...)->key = %d' % (tile, key, dkey)))
        dk = dkeys.setdefault((own, which), {})
        if dkey in dk and dk[dkey] != tile and kind in ('kv', 'band'):
            fails.append(('data-key-collision', 'rank %d storage %d: tiles %s and %s carry data key %d' % (own, which, dk[dkey], tile, dkey)))
        dk[dkey] = tile
        # memory
        if f[6] != '-':
            off = int(f[6])
            if lap:
                rows = min(mb, lm - gm * mb)
                cols = min(nb, ln - gn * nb)
                cells = set(off + c * llm[own] + r for c in range(cols) for r in range(rows))
                limit = llm[own] * lln[own]
            else:
                cells = (off, off + bsiz)
                limit = cap * bsiz
            lst = mem.setdefault((own, which), [])
            for (t2, c2) in lst:
                ov = (cells & c2) if lap else (cells[0] < c2[1] and c2[0] < cells[1])
                if ov and slot not in (None,) and sl.get(slot) == tile:
                    fails.append(('memory-overlap', 'rank %d: tiles %s and %s overlap in memory' % (own, t2, tile)))
                    break
            lst.append((tile, cells))
            hi = max(cells) + 1 if lap else cells[1]
            lo = min(cells) if lap else cells[0]
            if lo < 0 or hi > limit:
                fails.append(('memory-out-of-range', 'rank %d: tile %s occupies up to element %d of %d' % (own, tile, hi, limit)))
        # 4. virtual process in range
        vp = int(f[7])
        if not (0 <= vp < V):
            fails.append(('vpid-out-of-range', 'tile %s vpid %d not in [0,%d)' % (tile, vp, V)))
    if kind == 'kv':
        alld = set()
        for d in dkeys.values():
            alld |= set(d)
        if alld != set(seen_keys):
            fails.append(('view-not-a-permutation', 'the view maps the tiles onto data keys %s..., not onto the key set of the submatrix' % sorted(alld ^ set(seen_keys))[:4]))
    # storage is exactly as large as the set of local tiles
    if full:
        for r in range(nodes):
            if caps[r] is None:
                continue
            if kind == 'band':
                continue
            if owned.get(r, 0) != caps[r][0]:
                fails.append(('nbl-mismatch', 'rank %d owns %d tiles but nb_local_tiles = %d' % (r, owned.get(r, 0), caps[r][0])))
    else:
        for r in range(nodes):
            if caps[r] is not None and kind != 'band' and owned.get(r, 0) > caps[r][0]:
                fails.append(('nbl-mismatch', 'rank %d owns %d tiles of the submatrix but nb_local_tiles = %d' % (r, owned.get(r, 0), caps[r][0])))
    if all(c is not None for c in caps):
        tot = sum(c[0] for c in caps)
        want = {'bc': lmt * lnt, 'kv': lmt * lnt, 'tab': lmt * lnt, 'vec': lmt, 'band': lmt * lnt,
                'sym': lmt * (lmt + 1) // 2}[kind]
        if tot != want:
            fails.append(('nbl-sum', 'sum of nb_local_tiles over the ranks is %d, the (stored part of the) matrix has %d tiles' % (tot, want)))
        if kind == 'band':
            tb = sum(c[1] for c in caps)
            if tb != (2 * bs - 1) * lnt:
                fails.append(('nbl-sum', 'band storage: sum %d, band has %d tiles' % (tb, (2 * bs - 1) * lnt)))
    return fails


def classify(op, cat, text, result):
    """stable key: a known-finding id when the failure is exactly that finding's predicate, else kind:category:op"""
    w = op.split()
    kind = w[0]
    if kind == 'bc' and cat == 'data-key-mismatch':
        mb, nb, lm, ln, i, j, m, n, P, Q, kp, kq, ip, jq, V = map(int, w[2:])
        if kp > 1 or kq > 1:
            # exactly the reduced key ((n % (kq*Q)) * lmt + m % (kp*P)) of the first tile stored in the slot
            H, R, T = parse_result(result)
            lmt = H[0]
            nt = H[3]
            ok = True
            for idx, e in enumerate(T):
                f = e.split(':')
                gm, gn = idx // nt + i // mb, idx % nt + j // nb
                if int(f[5]) != (gn % (kq * Q)) * lmt + gm % (kp * P):
                    ok = False
            if ok:
                return KEY_F1
    if kind == 'band' and cat == 'data-key-collision':
        mb, nb, lm, ln, P, Q, kp, kq, ip, jq, bP, bQ, bkp, bkq, bip, bjq, bs, V = map(int, w[1:])
        which = int(text.split('storage ')[1].split(':')[0])
        if (which == 1 and (bkp > 1 or bkq > 1)) or (which == 0 and (kp > 1 or kq > 1)):
            return KEY_F1     # the inner collection is k-cyclic: its data_of reduces the key modulo k*P / k*Q
    if kind == 'vec':
        d = w[1]
        mb, lm, i, m, P, Q, V = map(int, w[2:])
        if d == 'D' and cat == 'init-hang':
            r = int(text.split('rank ')[1].split()[0])
            if vec_hangs(P, Q, r):
                return KEY_F2
        if d in ('R', 'C') and cat in ('slot-collision', 'slot-out-of-range', 'nbl-mismatch', 'nbl-sum', 'data-key-mismatch', 'memory-out-of-range', 'memory-overlap'):
            return KEY_F3
        if d == 'D' and cat in ('nbl-mismatch', 'nbl-sum') and P != Q:
            if cat == 'nbl-sum' or 'owns' in text and int(text.split('owns ')[1].split()[0]) < int(text.split('= ')[1]):
                return KEY_F4
    return '%s:%s:%s' % (kind, cat, op if len(op) < 200 else op[:200] + '...')


# ------------------------------------------------------------------ run
def load_corpus():
    cs = []
    d = os.path.join(pv.ROOT, 'corpus', PROP)
    if os.path.isdir(d):
        for f in sorted(os.listdir(d)):
            if f.endswith('.case'):
                cs += [l.strip() for l in open(os.path.join(d, f)) if l.strip() and not l.startswith('#')]
    return cs


def vp_of(op):
    w = op.split()
    try:
        if w[0] == 'tab':
            return int(w[10])
        return int(w[-1])
    except (ValueError, IndexError):
        return 1


def run_batch(ctx, res, exe, V, ops, tag):
    env = {'ASAN_OPTIONS': 'detect_leaks=0', 'VERIF_SEED': str(ctx.seed)}
    if V != 1:
        env['HWLOC_SYNTHETIC'] = 'pack:%d core:1 pu:1' % V
    return pv.differential(ctx, res, [exe, str(V)], 'pv_C20', env=env, stdin='\n'.join(ops) + '\n', tag=tag, timeout=600 if ctx.quick else 3000)


def shrink(ctx, exe, op, key):
    """greedy numeric shrinking of one failing op (same finding key), a few batched rounds"""
    cur = op
    for _ in range(8):
        w = cur.split()
        cands = []
        for k, x in enumerate(w):
            if x.isdigit() and int(x) > 0 and not (w[0] == 'tab' and k > 10):
                for nv in sorted(set([int(x) - 1, int(x) // 2])):
                    if nv == vp_of(cur) and k == (10 if w[0] == 'tab' else len(w) - 1):
                        pass
                    c = list(w); c[k] = str(nv)
                    c = ' '.join(c)
                    if vp_of(c) == vp_of(cur):
                        cands.append(c)
        if not cands:
            break
        env = {'ASAN_OPTIONS': 'detect_leaks=0'}
        V = vp_of(cur)
        if V != 1:
            env['HWLOC_SYNTHETIC'] = 'pack:%d core:1 pu:1' % V
        rc, out, err = pv.sh([exe, str(V)], input='\n'.join(cands) + '\n', env=env, timeout=300)
        o2, i2, _, _ = pv.parse_transcript(out)
        nxt = None
        for o, r in zip(o2, i2):
            if any(classify(o, c, t, r) == key or (key.count(':') >= 2 and classify(o, c, t, r).split(':')[:2] == key.split(':')[:2]) for c, t in oracle(o, r)):
                if sum(map(int, [x for x in o.split() if x.isdigit()])) < sum(map(int, [x for x in cur.split() if x.isdigit()])):
                    nxt = o
                    break
        if nxt is None:
            break
        cur = nxt
    return cur


def run(ctx, res, ops_override=None):
    exe_san = ctx.path('C20')
    ok, log = pv.cc_harness(os.path.join(pv.ROOT, 'harness', 'C20.c'), exe_san, ctx.build, sanitize=True)
    if not ok:
        res.infra_errors.append('harness compile failed: ' + log[-1500:]); return
    exe = exe_san
    if ctx.quick and ops_override is None:
        # The library itself is not instrumented, so ASan/UBSan only watch the harness; their allocator makes the run ~8x
        # more expensive.  Quick tier: sanitized run of the corpus + a slice of the generated ops, plain build for the bulk.
        exe = ctx.path('C20fast')
        ok, log = pv.cc_harness(os.path.join(pv.ROOT, 'harness', 'C20.c'), exe, ctx.build, sanitize=False)
        if not ok:
            res.infra_errors.append('harness compile failed: ' + log[-1500:]); return
    rng = pv.Rng(ctx.seed)
    corpus = load_corpus()
    vps = [1, 6] if ctx.quick else [1, 2, 4, 6, 7, 12]
    dist = {}
    all_ops, all_impl = [], []
    seen_keys = {}
    batches = []
    for V in vps:
        if ops_override is not None:
            ops = [o for o in ops_override if vp_of(o) == V]
            st = {'replay': len(ops)}
            if ops:
                batches.append((V, exe_san, ops, st))
            continue
        ops, st = gen_ops(rng.fork(7000 + V), ctx.quick, V)
        cz = [o for o in corpus if vp_of(o) == V]
        st['corpus'] = len(cz)
        if exe != exe_san and V == 1:
            k = len(ops) // 12
            sl = ops[::12][:k]
            batches.append((V, exe_san, cz + sl, {'corpus': len(cz), 'sanitized_slice': len(sl)}))
            st.pop('corpus')
            batches.append((V, exe, ops, st))
        else:
            batches.append((V, exe, cz + ops, st))
    if ops_override is not None:
        other = [o for o in ops_override if vp_of(o) not in vps]
        for V in sorted(set(vp_of(o) for o in other)):
            if 1 <= V <= 64:
                batches.append((V, exe_san, [o for o in other if vp_of(o) == V], {'replay': 0}))
    for (V, ex, ops, st) in batches:
        o2, impl, model, stats = run_batch(ctx, res, ex, V, ops, ':V%d' % V)
        for k, v in st.items():
            dist['%s@V%d' % (k, V)] = dist.get('%s@V%d' % (k, V), 0) + v
        # harness-side `!viol <category> <op> tile ...` lines: attach the op as the replayable case, one entry per (category, op)
        keep, seen_hv = [], set()
        for v in res.violations:
            w = v.get('what', '')
            cat = w.split(' ', 1)[0]
            if 'case' not in v and cat in ('views-disagree', 'rank_of_key', 'data_of_key', 'vpid_of_key', 'tab-shared-buffer', 'op-timeout'):
                opx = w.split(' ', 1)[1]
                for sep in (' tile (', ' rank '):
                    if sep in opx:
                        opx = opx.split(sep)[0]
                        break
                kx = 'harness:%s:%s' % (cat, opx[:200])
                if kx in seen_hv or len(seen_hv) >= 12:
                    continue
                seen_hv.add(kx)
                v = {'key': kx, 'what': w, 'case': opx}
            keep.append(v)
        res.violations[:] = keep
        if len(o2) != len(ops):
            res.violations.append({'key': 'harness-stopped:V%d' % V, 'what': 'harness produced %d of %d results; first missing op: %s' % (len(o2), len(ops), ops[len(o2)] if len(o2) < len(ops) else None),
                                   'case': ops[len(o2)] if len(o2) < len(ops) else None})
        all_ops += o2
        all_impl += impl
        for o, r in zip(o2, impl):
            fails = oracle(o, r)
            for cat, text in fails:
                key = classify(o, cat, text, r)
                if key in seen_keys:
                    seen_keys[key]['count'] += 1
                    continue
                v = {'key': key, 'what': '%s: %s' % (cat, text), 'case': o, 'count': 1}
                if len(seen_keys) >= 40 and not key.startswith('F'):
                    dist['violations_not_listed'] = dist.get('violations_not_listed', 0) + 1
                    continue
                seen_keys[key] = v
                res.violations.append(v)
            if r not in ('rejected', 'bad-op') and ' | T ' in r:
                pr = parse_result(r)
                # non-trivial: more than one rank and more than two tiles
                if pr and len(pr[1]) > 1 and len(pr[2]) > 2:
                    res.nontrivial(o)
    exe = exe_san
    # shrink new (non-known) violations, a few only
    known = {k['key'] for k in pv.known_findings(PROP)}
    for v in [v for v in res.violations if v['key'] not in known and v.get('case') and ':' in v['key']][:2]:
        try:
            small = shrink(ctx, exe, v['case'], v['key'])
            if small != v['case']:
                v['original_case'] = v['case']
                v['case'] = small
        except Exception as ex:   # shrinking is best effort
            v['shrink_error'] = str(ex)[:200]
    res.traces_validated = sum(1 for r in all_impl if r.startswith('H '))
    res.rule = ('every op is one distribution configuration; the harness builds the descriptor for EVERY rank (myrank = 0..P*Q-1) with the real init and prints the table '
                'owner/key/key2coords/slot/data->key/offset/vpid of every tile of the submatrix plus nb_local_tiles per rank. bc: exhaustive box P<=3,Q<=2,kp<=3,kq<=2, all ip,jq, '
                'lmt<=7(10) x lnt in {1,3,4} + random (tile sizes 1..4, up to 14(40) tiles per dimension, grids up to 16 ranks, k up to 5, offsets, both storages); kv/sym/band/tab/vec random. '
                'nb_vp values: %s. distinct = distinct op line; non-trivial = more than one rank and more than two tiles' % vps)
    step = max(1, len(all_ops) // 6)
    res.samples = ['%s => %s' % (o, (r if len(r) < 260 else r[:260] + '...')) for o, r in list(zip(all_ops, all_impl))[::step][:6]]
    dist['kinds'] = {}
    for o in all_ops:
        k = o.split()[0]
        dist['kinds'][k] = dist['kinds'].get(k, 0) + 1
    dist['rejected'] = sum(1 for r in all_impl if r == 'rejected')
    dist['bad_op'] = sum(1 for r in all_impl if r == 'bad-op')
    dist['violation_counts'] = {k: v['count'] for k, v in seen_keys.items()}
    res.extra['input_distribution'] = dist
    res.extra['exhaustive'] = False
    res.extra['variants'] = {'theorems': ['2D block-cyclic (plain and k-cyclic, grid offsets): all five statements + exact slot count', 'k-cyclic view: in window, injective',
                                          'symmetric (both triangles): owner, local-iff-owner, slots in range + injective', 'band (composition)', 'tabular',
                                          'vector (owner range, diag slots; defects proved)'],
                             'differential_only': ['surjectivity for kview/sym/band', 'LAPACK-storage offsets', 'vector ROW/COL (defective)']}


def replay(ctx, res, data):
    cases = [v['case'] for v in data.get('violations', []) if v.get('case')] + [d['op'] for d in data.get('disagreements', []) if d.get('op')]
    run(ctx, res, ops_override=cases or None)
