"""C31 — lists and dequeues keep their contents and order."""
import os, re, pv
PROP = 'C31'
LEAN_MODULE = 'ParsecVerif.Props.C31'
DRIVERS = ['pv_C31']
THEOREMS = ['ParsecVerif.C31.push_sorted_spec', 'ParsecVerif.C31.push_sorted_perm', 'ParsecVerif.C31.chain_sorted_spec',
            'ParsecVerif.C31.chain_sorted_perm', 'ParsecVerif.C31.sort_spec', 'ParsecVerif.C31.ring_push_sorted_spec',
            'ParsecVerif.C31.deque_conservation', 'ParsecVerif.C31.fifo_order', 'ParsecVerif.C31.sorted_invariant',
            'ParsecVerif.C31.pop_front_max', 'ParsecVerif.C31.locked_linearizable', 'ParsecVerif.C31.locked_realtime', 'ParsecVerif.C31.locked_mutex',
            'ParsecVerif.C31.locked_complete', 'ParsecVerif.C31.directions_differ_when_unsorted', 'ParsecVerif.C31.sort_not_stable']
IMPL = 'parsec/class/list.h, parsec/class/list_item.h, parsec/class/dequeue.h, parsec/class/fifo.h (header-only inlines) + the CAS spin lock of parsec/include/parsec/sys/atomic.h'
ENGINE = 'lean-seq'
LEVEL = 'proof'
LEVEL_TEXT = ('Lean 4 theorems, unbounded (every list, every priority including ties, every call sequence, every interleaving): push_sorted on a non-increasing list gives the same list '
              'for both search directions of the pivot heuristic, keeps the order and puts the item after all items of greater-or-equal priority; chain_sorted with its moving cursor equals '
              'one-by-one sorted insertion, hence is a sorted stable merge and a permutation; the bottom-up merge sort yields a non-decreasing permutation for every list; ring sorted '
              'insertion keeps a ring non-increasing; conservation for every push/pop/chain/sort sequence, FIFO order for every fifo sequence, sortedness invariant for every '
              'push_sorted/chain_sorted/pop sequence; and for the locked variants a small-step machine (one transition per atomic operation: emptiness pre-check, CAS on the lock with the '
              'critical section, unlock) is proved linearizable and mutually exclusive for every number of threads, every program and every schedule. The model mirrors list.h/list_item.h '
              'branch by branch and is tied to the current source on every run: random and corpus call scripts run on the REAL inline functions (all list/dequeue/fifo flavours, ASan+UBSan) '
              'and are compared line by line (return value and the contents of every list and ring after every call, list_prev chain checked against list_next) with the compiled Lean model; '
              'concurrent locked calls run under the cooperative scheduler hooked at every atomic primitive (exhaustive DFS for small configurations, PRNG schedules otherwise) and every schedule '
              'is replayed step by step on the Lean machine; an independent Python oracle written from the property text (sorted-insertion rule, permutation, order, dequeue functions, '
              'linearization search with real-time order) is evaluated on the outputs of the real code.')
LEVEL_NOTE = ('Granularity of the concurrency theorem: a critical section is one step and plain accesses are not scheduling points; sequentially consistent interleavings only. Below that '
              'granularity the real code has one non-linearizable behaviour (known finding sortpop-null: the unlocked emptiness pre-check of pop_front/pop_back can observe the list while '
              'parsec_list_sort has temporarily unlinked all items) which is searched by a free-running stress run, not by the theorem. Real-time order is theorem locked_realtime (the history at '
              'any cut is a prefix of every later history and holds exactly the calls linearized so far) and is also checked by the Python oracle on every run. Priorities are '
              'unbounded integers in the model; the harness keeps |priority| <= 2^30 (the pivot expression overflows int for head=tail=INT_MAX, undefined behaviour in C). The sorted theorems '
              'assume a sorted list, as the API documents; on unsorted lists only conservation is proved (and the two search directions provably differ). Trusted: Lean kernel, '
              'propext/Classical.choice/Quot.sound, the harness, the cooperative scheduler and hook H1, differential testing as tie.')
TECHNIQUE = 'Lean 4 proof (induction over lists / call sequences, chunk invariant for the merge sort passes, inductive invariant with ghost history over all interleavings) on a hand-written model mirroring the code, tied by differential correspondence with the real inline functions'
ASSUMPTIONS = ['sequential consistency at the granularity of parsec_atomic_* operations; a lock-protected critical section is atomic (proved: mutual exclusion of the CAS lock in the model)',
               'sorted-insertion theorems assume the list/ring is already in non-increasing order (API precondition)',
               '|priority| <= 2^30 in the harness (no int overflow in the pivot expression)']

CORPUS_STRESS = []
HARNESS = os.path.join(pv.ROOT, 'harness', 'C31.c')
ENV = {'ASAN_OPTIONS': 'detect_leaks=0'}
PBIG = 1 << 30

# ------------------------------------------------------------------ parsing
ITEM_RE = re.compile(r'(-?\d+):(\d+)')
CONT_RE = re.compile(r'([LR][01])=\[([^\]]*)\]')


def items_of(s):
    return [(int(p), int(i)) for p, i in ITEM_RE.findall(s)]


def parse_state(res):
    """'ret | L0=[..] L1=[..] R0=[..] R1=[..]' -> (ret, dict) ; None for lines without a state"""
    if ' | ' not in res:
        return res, None
    ret, st = res.split(' | ', 1)
    return ret.strip(), {k: items_of(v) for k, v in CONT_RE.findall(st)}


def sorted_desc(l):
    return all(l[i][0] >= l[i + 1][0] for i in range(len(l) - 1))


def sorted_asc(l):
    return all(l[i][0] <= l[i + 1][0] for i in range(len(l) - 1))


def stable_insert(l, x):
    """the property: after every item of greater-or-equal priority"""
    k = 0
    while k < len(l) and l[k][0] >= x[0]:
        k += 1
    return l[:k] + [x] + l[k:]


def ring_insert(l, x):
    """list_item.h doc: before the first p such that A_LOWER_PRIORITY_THAN_B(item, p) is false; else last"""
    k = 0
    while k < len(l) and x[0] < l[k][0]:
        k += 1
    return l[:k] + [x] + l[k:]


def fmt(l):
    return '[' + ' '.join('%d:%d' % x for x in l) + ']'


# ------------------------------------------------------------------ the property, as an executable oracle on the implementation's outputs
def oracle_seq(ops, impl, stats=None):
    """Returns a list of failure descriptions.  The oracle follows the implementation's own states."""
    fails = []
    P = {'L0': [], 'L1': [], 'R0': [], 'R1': []}
    for o, r in zip(ops, impl):
        w = o.split()
        ret, N = parse_state(r)
        if N is None:
            continue            # rejected / bad-op / ok of `case`
        E = dict(P)             # expected, where the property prescribes it
        loose = None            # (container, multiset, predicate description)
        eret = None
        op = w[0]
        try:
            if op in ('pf', 'pb', 'ps'):
                L = 'L' + w[2]; x = (int(w[4]), int(w[3])); eret = 'ok'
                if op == 'pf':
                    E[L] = [x] + P[L]
                elif op == 'pb':
                    E[L] = P[L] + [x]
                elif sorted_desc(P[L]):
                    E[L] = stable_insert(P[L], x)
                    if stats is not None:
                        stats['ps_on_sorted'] = stats.get('ps_on_sorted', 0) + 1
                        if any(y[0] == x[0] for y in P[L]):
                            stats['ps_with_tie'] = stats.get('ps_with_tie', 0) + 1
                else:
                    E.pop(L); loose = (L, sorted(P[L] + [x]), None)
                    if stats is not None:
                        stats['ps_on_unsorted'] = stats.get('ps_on_unsorted', 0) + 1
            elif op in ('popf', 'popb'):
                L = 'L' + w[2]
                if P[L]:
                    x = P[L][0] if op == 'popf' else P[L][-1]
                    eret = '%d:%d' % x
                    E[L] = P[L][1:] if op == 'popf' else P[L][:-1]
                else:
                    eret = 'null'
            elif op in ('cf', 'cb', 'cs'):
                L = 'L' + w[2]; R = 'R' + w[3]; eret = 'ok'
                E[R] = []
                if op == 'cf':
                    E[L] = P[R] + P[L]
                elif op == 'cb':
                    E[L] = P[L] + P[R]
                elif sorted_desc(P[L]):
                    cur = list(P[L])
                    for x in P[R]:
                        cur = stable_insert(cur, x)
                    E[L] = cur
                    if stats is not None and P[R]:
                        stats['cs_on_sorted'] = stats.get('cs_on_sorted', 0) + 1
                else:
                    E.pop(L); loose = (L, sorted(P[L] + P[R]), None)
            elif op == 'sort':
                L = 'L' + w[2]; eret = 'ok'
                E.pop(L); loose = (L, sorted(P[L]), 'asc')
                if stats is not None and len(P[L]) >= 2:
                    stats['sorts'] = stats.get('sorts', 0) + 1
                    stats['sort_max_len'] = max(stats.get('sort_max_len', 0), len(P[L]))
            elif op == 'unchain':
                L = 'L' + w[2]; R = 'R' + w[3]
                E[R] = P[L]; E[L] = []; eret = 'ring' if P[L] else 'null'
            elif op == 'empty':
                eret = '0' if P['L' + w[2]] else '1'
            elif op == 'has':
                eret = '1' if int(w[2]) in [y[1] for y in P['L' + w[1]]] else '0'
            elif op == 'rm':
                L = 'L' + w[1]; k = [y[1] for y in P[L]].index(int(w[2]))
                eret = 'ghost' if k == 0 else '%d:%d' % P[L][k - 1]
                E[L] = P[L][:k] + P[L][k + 1:]
            elif op in ('ab', 'aa'):
                if op == 'ab':
                    L = 'L' + w[1]; pos = w[2]; x = (int(w[4]), int(w[3]))
                else:
                    L = 'L' + w[2]; pos = w[3]; x = (int(w[5]), int(w[4]))
                eret = 'ok'
                if pos == 'g':
                    E[L] = P[L] + [x] if op == 'ab' else [x] + P[L]
                else:
                    k = [y[1] for y in P[L]].index(int(pos))
                    k = k if op == 'ab' else k + 1
                    E[L] = P[L][:k] + [x] + P[L][k:]
            elif op in ('rpush', 'rps'):
                R = 'R' + w[1]; x = (int(w[3]), int(w[2])); eret = 'ok'
                if op == 'rpush':
                    E[R] = P[R] + [x]
                elif sorted_desc(P[R]):
                    E[R] = ring_insert(P[R], x)
                    if stats is not None:
                        stats['rps_on_sorted'] = stats.get('rps_on_sorted', 0) + 1
                else:
                    E.pop(R); loose = (R, sorted(P[R] + [x]), None)
            elif op == 'rmerge':
                R = 'R' + w[1]; R2 = 'R' + w[2]; eret = 'ok'
                E[R] = P[R] + P[R2]; E[R2] = []
            elif op == 'rchop':
                R = 'R' + w[1]; eret = '%d:%d' % P[R][0]
                E[R] = P[R][1:]
            else:
                P = N; continue
        except (ValueError, IndexError):
            fails.append('%s: the call was issued although its precondition does not hold in state %s' % (o, {k: fmt(v) for k, v in P.items()}))
            P = N; continue
        if eret is not None and ret != eret:
            fails.append('%s: returned %s, expected %s (before: %s)' % (o, ret, eret, ' '.join('%s=%s' % (k, fmt(v)) for k, v in sorted(P.items()))))
        for k, v in E.items():
            if N.get(k) != v:
                fails.append('%s: %s is %s, expected %s (before: %s)' % (o, k, fmt(N.get(k, [])), fmt(v), fmt(P[k])))
        if loose:
            k, ms, order = loose
            if sorted(N.get(k, [])) != ms:
                fails.append('%s: %s = %s is not a permutation of the items it must hold %s' % (o, k, fmt(N.get(k, [])), fmt(ms)))
            if order == 'asc' and not sorted_asc(N.get(k, [])):
                fails.append('%s: %s = %s is not ordered by priority' % (o, k, fmt(N.get(k, []))))
        P = N
    return fails


# ------------------------------------------------------------------ sequential case generator
PRIO_SETS = [[0, 1], [0, 1, 2], [-2, -1, 0, 1, 2, 3], [1, 2, 3, 4, 5, 6, 7, 8, 9], [-1, 0], [PBIG, PBIG - 1, -PBIG, 0, 1, 2, 3, -1, -3], [2, 1], list(range(-20, 21))]


class Gen:
    def __init__(self, rng):
        self.rng = rng
        self.where = {}            # id -> container name
        self.cont = {'L0': [], 'L1': [], 'R0': [], 'R1': []}   # ids only (order irrelevant for validity)
        self.ops = []
        self.dead = set()          # indices of calls that must be rejected / bad-op (they change nothing)
        self.prios = rng.choice(PRIO_SETS)
        self.maxid = rng.choice([8, 16, 40, 120])

    def fresh(self):
        for _ in range(20):
            i = self.rng.below(self.maxid)
            if i not in self.where:
                return i
        free = [i for i in range(self.maxid) if i not in self.where]
        return self.rng.choice(free) if free else None

    def put(self, c, i):
        self.where[i] = c; self.cont[c].append(i)

    def take(self, c, i):
        del self.where[i]; self.cont[c].remove(i)

    def prio(self):
        return self.rng.choice(self.prios)

    def fl(self, s):
        return self.rng.choice(s)

    def step(self, kinds):
        rng = self.rng
        k = rng.choice(kinds)
        L = rng.below(2); R = rng.below(2); LN = 'L%d' % L; RN = 'R%d' % R
        if k in ('pf', 'pb', 'ps'):
            i = self.fresh()
            if i is None:
                return
            f = self.fl('nkde' if k == 'pf' else 'nkdefg' if k == 'pb' else 'nk')
            self.ops.append('%s %s %d %d %d' % (k, f, L, i, self.prio())); self.put(LN, i)
        elif k in ('popf', 'popb'):
            f = self.fl('nkdefgtuv' if k == 'popf' else 'nkdetu')
            self.ops.append('%s %s %d' % (k, f, L))
            # which item leaves is not known to the generator: resolved by replaying membership lazily (see sync)
            self.unknown = True
        elif k in ('cf', 'cb', 'cs'):
            if not self.cont[RN] and k != 'cs':
                return
            f = self.fl('nkde' if k == 'cf' else 'nkdefg' if k == 'cb' else 'nk')
            self.ops.append('%s %s %d %d' % (k, f, L, R))
            for i in list(self.cont[RN]):
                self.take(RN, i); self.put(LN, i)
        elif k == 'sort':
            self.ops.append('sort %s %d' % (self.fl('nk'), L))
        elif k == 'unchain':
            if self.cont[RN]:
                return
            self.ops.append('unchain %s %d %d' % (self.fl('nk'), L, R))
            for i in list(self.cont[LN]):
                self.take(LN, i); self.put(RN, i)
        elif k == 'empty':
            self.ops.append('empty %s %d' % (self.fl('nkdefg'), L))
        elif k == 'has':
            self.ops.append('has %d %d' % (L, rng.below(self.maxid)))
        elif k == 'rm':
            if not self.cont[LN]:
                return
            i = rng.choice(self.cont[LN]); self.ops.append('rm %d %d' % (L, i)); self.take(LN, i)
        elif k in ('ab', 'aa'):
            i = self.fresh()
            if i is None:
                return
            pos = 'g' if (not self.cont[LN] or rng.chance(1, 4)) else str(rng.choice(self.cont[LN]))
            if k == 'ab':
                self.ops.append('ab %d %s %d %d' % (L, pos, i, self.prio()))
            else:
                self.ops.append('aa %s %d %s %d %d' % (self.fl('nk'), L, pos, i, self.prio()))
            self.put(LN, i)
        elif k in ('rpush', 'rps'):
            i = self.fresh()
            if i is None:
                return
            self.ops.append('%s %d %d %d' % (k, R, i, self.prio())); self.put(RN, i)
        elif k == 'rmerge':
            R2 = 1 - R
            if not self.cont[RN] or not self.cont['R%d' % R2]:
                return
            self.ops.append('rmerge %d %d' % (R, R2))
            for i in list(self.cont['R%d' % R2]):
                self.take('R%d' % R2, i); self.put(RN, i)
        elif k == 'rchop':
            if not self.cont[RN]:
                return
            self.ops.append('rchop %d' % R); self.unknown = True


PROFILES = {
    'sorted': ['ps'] * 8 + ['rps'] * 4 + ['cs'] * 3 + ['popf', 'popb', 'rpush', 'empty'],
    'deque': ['pf'] * 3 + ['pb'] * 3 + ['popf'] * 2 + ['popb'] * 2 + ['rpush'] * 3 + ['cf', 'cb', 'unchain', 'empty', 'rmerge'],
    'sort': ['pb'] * 5 + ['pf'] * 2 + ['rpush'] * 2 + ['cb'] + ['sort'] * 2 + ['popf'],
    'mixed': ['pf', 'pb', 'ps', 'ps', 'popf', 'popb', 'cf', 'cb', 'cs', 'cs', 'sort', 'unchain', 'empty', 'has', 'rm', 'ab', 'aa', 'rpush', 'rpush', 'rps', 'rps', 'rmerge', 'rchop'],
}


def simulate_membership(ops, dead=()):
    """exact membership after the ops, using the property's own functions (needed because pops remove an item the
    generator cannot name without order).  Order inside containers follows the reference functions; where the property
    leaves the order open (sorted insert into an unsorted list) any order is fine for membership."""
    S = {'L0': [], 'L1': [], 'R0': [], 'R1': []}
    for n, o in enumerate(ops):
        if n in dead:
            continue
        w = o.split()
        op = w[0]
        if op in ('pf', 'pb', 'ps'):
            L = 'L' + w[2]; x = (int(w[4]), int(w[3]))
            S[L] = [x] + S[L] if op == 'pf' else S[L] + [x] if op == 'pb' else stable_insert(S[L], x)
        elif op == 'popf':
            S['L' + w[2]] = S['L' + w[2]][1:]
        elif op == 'popb':
            S['L' + w[2]] = S['L' + w[2]][:-1]
        elif op in ('cf', 'cb', 'cs'):
            L = 'L' + w[2]; R = 'R' + w[3]
            if op == 'cf':
                S[L] = S[R] + S[L]
            elif op == 'cb':
                S[L] = S[L] + S[R]
            else:
                for x in S[R]:
                    S[L] = stable_insert(S[L], x)
            S[R] = []
        elif op == 'sort':
            S['L' + w[2]] = sorted(S['L' + w[2]], key=lambda y: y[0])
        elif op == 'unchain':
            S['R' + w[3]] = S['L' + w[2]]; S['L' + w[2]] = []
        elif op == 'rm':
            S['L' + w[1]] = [y for y in S['L' + w[1]] if y[1] != int(w[2])]
        elif op == 'ab':
            L = 'L' + w[1]; x = (int(w[4]), int(w[3]))
            k = len(S[L]) if w[2] == 'g' else [y[1] for y in S[L]].index(int(w[2]))
            S[L] = S[L][:k] + [x] + S[L][k:]
        elif op == 'aa':
            L = 'L' + w[2]; x = (int(w[5]), int(w[4]))
            k = 0 if w[3] == 'g' else [y[1] for y in S[L]].index(int(w[3])) + 1
            S[L] = S[L][:k] + [x] + S[L][k:]
        elif op == 'rpush':
            S['R' + w[1]] = S['R' + w[1]] + [(int(w[3]), int(w[2]))]
        elif op == 'rps':
            S['R' + w[1]] = ring_insert(S['R' + w[1]], (int(w[3]), int(w[2])))
        elif op == 'rmerge':
            S['R' + w[1]] = S['R' + w[1]] + S['R' + w[2]]; S['R' + w[2]] = []
        elif op == 'rchop':
            S['R' + w[1]] = S['R' + w[1]][1:]
    return S


def gen_case(rng, length):
    g = Gen(rng)
    prof = rng.choice(['sorted', 'sorted', 'deque', 'sort', 'mixed', 'mixed'])
    kinds = PROFILES[prof]
    phase_left = 0
    for _ in range(length):
        if prof == 'mixed' and phase_left == 0 and rng.chance(1, 12):
            kinds = PROFILES[rng.choice(['sorted', 'deque', 'sort', 'mixed'])]; phase_left = rng.range(4, 15)
        elif phase_left > 0:
            phase_left -= 1
            if phase_left == 0:
                kinds = PROFILES[prof]
        g.unknown = False
        g.step(kinds)
        if g.unknown:   # a pop/chop removed an item the generator cannot name: recompute membership
            S = simulate_membership(g.ops, g.dead)
            g.where = {}; g.cont = {k: [] for k in S}
            for c, l in S.items():
                for (_, i) in l:
                    g.put(c, i)
        if rng.chance(1, 50):   # a call outside the precondition / a malformed line now and then: must change nothing on both sides
            inuse = sorted(g.where)
            cands = ['ps n 0 600 1', 'ps n 0 %d %d' % (g.maxid + 1, PBIG + 1), 'pb k 1 %d %d' % (g.maxid + 2, -PBIG - 1), 'popf q 0', 'sort 0', 'rmerge 0 0', 'pf n 2 1 1',
                     'foo', 'pf n 0 1', 'cs x 0 0', 'empty t 0', 'has 0 -1', 'rm 0 512', 'aa n 0 zz 3 1', 'pf n 0 3 1x']
            if inuse:
                cands += ['pf n 0 %d 1' % rng.choice(inuse), 'rpush 1 %d 0' % rng.choice(inuse), 'ab 0 g %d 2' % rng.choice(inuse)]
            notl1 = [i for i in range(g.maxid) if g.where.get(i) != 'L1']
            if notl1:
                cands += ['rm 1 %d' % rng.choice(notl1), 'aa n 1 %d %d 1' % (rng.choice(notl1), g.maxid + 3)]
            if not g.cont['R1']:
                cands += ['cf n 0 1', 'cb f 1 1', 'rchop 1', 'rmerge 0 1']
            if g.cont['R0']:
                cands += ['unchain n 0 0']
            g.dead.add(len(g.ops)); g.ops.append(rng.choice(cands))
    return g.ops, prof


# ------------------------------------------------------------------ concurrent configurations
def seq_sem(op, l):
    """reference sequential meaning of a locked call: list of (new list, return string) alternatives, or None if the
    property does not determine the result (sorted insertion into an unsorted list, sort with ties)."""
    k = op[0]
    if k == 'pf':
        return [([op[1][0]] + l, 'ok')]
    if k == 'pb':
        return [(l + [op[1][0]], 'ok')]
    if k == 'ps':
        return [(stable_insert(l, op[1][0]), 'ok')] if sorted_desc(l) else None
    if k == 'cf':
        return [(op[1] + l, 'ok')]
    if k == 'cb':
        return [(l + op[1], 'ok')]
    if k == 'cs':
        if not sorted_desc(l):
            return None
        cur = list(l)
        for x in op[1]:
            cur = stable_insert(cur, x)
        return [(cur, 'ok')]
    if k == 'sort':
        if len(set(p for p, _ in l)) != len(l):
            return None
        return [(sorted(l), 'ok')]
    if k == 'unchain':
        return [([], 'ring' + fmt(l))]
    if k == 'empty':
        return [(l, '0' if l else '1')]
    if k in ('popf', 'tpopf'):
        alts = [(l[1:], '%d:%d' % l[0])] if l else [(l, 'null')]
        return alts + ([(l, 'null')] if k == 'tpopf' and l else [])
    if k in ('popb', 'tpopb'):
        alts = [(l[:-1], '%d:%d' % l[-1])] if l else [(l, 'null')]
        return alts + ([(l, 'null')] if k == 'tpopb' and l else [])
    raise ValueError(k)


def parse_conc(line):
    w = line.split()
    init = items_of(w[2][5:])
    progs = []
    for t in w[3:]:
        pr = []
        for o in t[2:].split(','):
            name, _, rest = o.partition(':')
            pr.append((name, items_of(rest)))
        progs.append(pr)
    return init, progs


RET_RE = re.compile(r'ring\[[^\]]*\]|\S+')


def linearizable(init, progs, intervals, rets, final):
    """search for a sequential order of the completed calls that respects program order and real-time order and
    produces the observed return values and the final list.  Returns True / False / None (property silent)."""
    n = len(progs)
    seen = set()
    silent = [False]

    def dfs(idx, l):
        key = (idx, tuple(l))
        if key in seen:
            return False
        seen.add(key)
        if all(idx[t] == len(rets[t]) for t in range(n)):
            return l == final
        for t in range(n):
            k = idx[t]
            if k >= len(rets[t]):
                continue
            inv = intervals[t][k][0]
            if any(u != t and idx[u] < len(rets[u]) and intervals[u][idx[u]][1] < inv for u in range(n)):
                continue
            alts = seq_sem(progs[t][k], l)
            if alts is None:
                silent[0] = True
                continue
            for nl, r in alts:
                if r == rets[t][k]:
                    ni = idx[:t] + (k + 1,) + idx[t + 1:]
                    if dfs(ni, nl):
                        return True
        return False
    ok = dfs(tuple([0] * n), list(init))
    if ok:
        return True
    return None if silent[0] else False


def check_conc_run(ops, impl):
    """one run = conc line, step lines, final line (implementation transcript).  Returns (failure or None, stats)."""
    init, progs = parse_conc(ops[0])
    n = len(progs)
    pcs = [('idle', 0)] * n
    inv = [[None] * len(p) for p in progs]
    resp = [[None] * len(p) for p in progs]
    for s, (o, r) in enumerate(zip(ops[1:-1], impl[1:-1])):
        t = int(o.split()[1])
        m = re.match(r'(idle|cas|fence|other)(-?\d+) lock=(\d) L=\[([^\]]*)\]', r)
        if not m:
            return 'unparsable step line: %s' % r, {}
        if '!prev-chain-broken' in r:
            return 'after step %d (thread %d) the lock is free but the list_prev chain is not the mirror image of the list_next chain: %s' % (s, t, r), {}
        kind, k = m.group(1), int(m.group(2))
        if kind == 'other':
            return 'a worker parked at an unexpected atomic operation: %s' % r, {}
        ok_, kk = pcs[t]
        if ok_ == 'idle' and kk < len(progs[t]) and inv[t][kk] is None:
            inv[t][kk] = s
        if kind == 'idle' and k > 0 and resp[t][k - 1] is None:
            resp[t][k - 1] = s
        pcs[t] = (kind, k)
        # mutual exclusion as observed: lock word is 1 iff some thread is parked between its CAS and its unlock
        nf = sum(1 for (a, _) in pcs if a == 'fence')
        if nf > 1 or (nf == 1) != (m.group(3) == '1'):
            return 'lock word %s with %d thread(s) inside the critical section after step %d' % (m.group(3), nf, s), {}
    fin = impl[-1]
    mf = re.match(r'lock=(\d) L=\[([^\]]*)\](.*)', fin)
    if not mf:
        return 'unparsable final line: %s' % fin, {}
    final = items_of(mf.group(2))
    rets = [RET_RE.findall(x) for x in re.findall(r'T\d+=\[((?:[^\[\]]|\[[^\]]*\])*)\]', mf.group(3))]
    if len(rets) != n:
        return 'unparsable final line: %s' % fin, {}
    if any(len(rets[t]) != len(progs[t]) for t in range(n)):
        return None, {'incomplete': 1}
    intervals = [[(inv[t][k], resp[t][k] if resp[t][k] is not None else 10 ** 9) for k in range(len(progs[t]))] for t in range(n)]
    # conservation first (cheap, always applicable)
    given = sorted(init + [x for p in progs for o in p for x in o[1]])
    got = list(final)
    for t in range(n):
        for r in rets[t]:
            got += items_of(r) if r not in ('ok', 'null', '0', '1') else []
    if sorted(got) != given:
        return 'items lost or duplicated: handed in %s, found (list + returned) %s' % (fmt(given), fmt(sorted(got))), {}
    lin = linearizable(init, progs, intervals, rets, final)
    if lin is False:
        return 'no linearization: the return values %s and final list %s cannot be produced by any sequential order of the calls compatible with program and real-time order' % (rets, fmt(final)), {}
    return None, {'silent': 1} if lin is None else {}


def gen_conc(rng, quick):
    lines = []
    k = 0

    def cfg(init, progs, pol):
        nonlocal k
        lines.append('conc %d init=%s %s | %s' % (k, '+'.join('%d:%d' % x for x in init), ' '.join('T=' + ','.join(p) for p in progs), pol)); k += 1
    D = 400 if quick else 12000
    # exhaustive (bounded) schedule enumeration of small configurations
    cfg([(5, 1), (3, 2)], [['ps:4:3'], ['popf']], 'dfs %d' % D)
    cfg([(3, 1)], [['popf'], ['popb'], ['empty']], 'dfs %d' % D)
    cfg([(3, 1), (3, 2)], [['ps:3:3', 'popb'], ['cs:3:4+5:5+1:6']], 'dfs %d' % D)
    cfg([], [['pb:1:1', 'popf'], ['tpopf', 'pf:2:2']], 'dfs %d' % D)
    cfg([(1, 1), (2, 2), (3, 3)], [['sort'], ['tpopb', 'popf']], 'dfs %d' % D)
    cfg([(2, 1)], [['unchain'], ['pf:1:2'], ['tpopf']], 'dfs %d' % D)
    cfg([(9, 1)], [['cf:1:2+2:3', 'popb'], ['cb:3:4+4:5', 'empty']], 'dfs %d' % D)
    if not quick:
        cfg([(4, 1), (4, 2)], [['ps:4:3', 'popf'], ['ps:4:4', 'popb'], ['tpopf']], 'dfs %d' % D)
        cfg([(1, 1)], [['popf', 'pb:5:2'], ['popb', 'pf:6:3'], ['empty', 'tpopb']], 'dfs %d' % D)
    for _ in range(300 if quick else 4000):
        fam = rng.choice(['sorted', 'sorted', 'deque'])
        nid = [100]
        if fam == 'sorted':
            prs = rng.choice([[0, 1], [1, 2, 3], [-1, 0, 1, 2]])
            init = sorted([(rng.choice(prs), i + 1) for i in range(rng.below(5))], key=lambda x: -x[0])
            kinds = ['ps', 'ps', 'ps', 'cs', 'popf', 'popb', 'tpopf', 'tpopb', 'empty', 'unchain']
            pool = None
        else:
            pool = list(range(1, 60))      # distinct priorities: a concurrent sort has one possible result
            init = [(pool.pop(rng.below(len(pool))), i + 1) for i in range(rng.below(5))]
            kinds = ['pf', 'pb', 'cf', 'cb', 'popf', 'popb', 'tpopf', 'tpopb', 'empty', 'unchain', 'sort']

        def it():
            nid[0] += 1
            pr = rng.choice(prs) if pool is None else pool.pop(rng.below(len(pool)))
            return '%d:%d' % (pr, nid[0])
        progs = []
        for _t in range(rng.range(2, 4)):
            pr = []
            for _o in range(rng.range(1, 3)):
                kd = rng.choice(kinds)
                if kd in ('pf', 'pb', 'ps'):
                    pr.append(kd + ':' + it())
                elif kd in ('cf', 'cb', 'cs'):
                    pr.append(kd + ':' + '+'.join(it() for _ in range(rng.range(1, 3))))
                else:
                    pr.append(kd)
            progs.append(pr)
        cfg(init, progs, 'rng %d' % (rng.next() % 1000000007))
    return lines


# ------------------------------------------------------------------ corpus
def load_corpus():
    seq, conc = [], []
    global CORPUS_STRESS
    CORPUS_STRESS = []
    d = os.path.join(pv.ROOT, 'corpus', PROP)
    if os.path.isdir(d):
        for f in sorted(os.listdir(d)):
            if f.endswith('.case'):
                ls = [l.strip() for l in open(os.path.join(d, f)) if l.strip() and not l.startswith('#')]
                if ls and ls[0].startswith('stress '):
                    CORPUS_STRESS += [tuple(int(x) for x in l.split()[1:4]) for l in ls]
                elif ls and ls[0].startswith('conc '):
                    conc += ls
                elif ls:
                    seq.append(ls)
    return seq, conc


def nontrivial_seq(ops, impl):
    """a sorted insertion / sort that meets a tie in a container of at least 3 items"""
    P = {'L0': [], 'L1': [], 'R0': [], 'R1': []}
    hit = False
    for o, r in zip(ops, impl):
        ret, N = parse_state(r)
        if N is None:
            continue
        w = o.split()
        if w[0] == 'ps' and len(P['L' + w[2]]) >= 3 and any(y[0] == int(w[4]) for y in P['L' + w[2]]):
            hit = True
        elif w[0] == 'cs' and len(P['L' + w[2]]) >= 2 and len(P['R' + w[3]]) >= 2:
            hit = True
        elif w[0] == 'sort' and len(P['L' + w[2]]) >= 4 and len(set(p for p, _ in P['L' + w[2]])) < len(P['L' + w[2]]):
            hit = True
        elif w[0] == 'rps' and len(P['R' + w[1]]) >= 3 and any(y[0] == int(w[3]) for y in P['R' + w[1]]):
            hit = True
        elif w[0] in ('cf', 'cb', 'unchain', 'rm') and len(P['L' + w[2 if w[0] != 'rm' else 1]]) >= 3:
            hit = True
        P = N
    return hit


def run_seq(ctx, res, exe, cases, ncorpus):
    stats = {}
    results, hstats, viols, (rc, err) = pv.run_script(exe, 'pv_C31', cases, env=ENV, use_driver=ctx.driver_ok, harness_args=['seq'], timeout=600 if ctx.quick else 2400)
    hist = {}
    for v in viols:
        # structural failure reported by the harness (list_prev chain, item reachable twice, items lost): find the case
        res.violations.append({'key': 'structure:' + v, 'what': v, 'case': None})
    for k, r in enumerate(results):
        res.evaluations += 1
        for o in r['ops']:
            hist[o.split()[0]] = hist.get(o.split()[0], 0) + 1
        bad_struct = (len(r['impl']) < len(r['ops']) or '' in r['impl']) and viols
        if r['crashed'] or bad_struct:
            prefix = r['ops'][:len(r['impl']) + 1]
            def still(ops):
                rs = pv.run_script(exe, 'pv_C31', [ops], env=dict(ENV, C31_ALARM='3'), use_driver=False, harness_args=['seq'], timeout=60)
                return rs[0][0]['crashed'] or bool(rs[2]) or len(rs[0][0]['impl']) < len(ops) or '' in rs[0][0]['impl']
            small = pv.ddmin(prefix, still, max_tests=120) if still(prefix) else prefix
            what = ('real code crashed / sanitizer abort (rc=%s): %s' % (r.get('rc'), r.get('stderr', '')[-400:])) if r['crashed'] and not viols else ('structure check failed: %s' % '; '.join(viols[:2]))
            res.violations = [v for v in res.violations if v.get('case') is not None]
            res.violations.append({'key': 'seq:' + ' ; '.join(small), 'what': what + ' after ops ' + ' ; '.join(small), 'case': small})
            break
        fails = oracle_seq(r['ops'], r['impl'], stats)
        if fails:
            def failing(ops):
                rs = pv.run_script(exe, 'pv_C31', [ops], env=ENV, use_driver=False, harness_args=['seq'], timeout=60)[0][0]
                return bool(oracle_seq(ops, rs['impl']))
            small = pv.ddmin(r['ops'], failing)
            rs = pv.run_script(exe, 'pv_C31', [small], env=ENV, use_driver=False, harness_args=['seq'], timeout=60)[0][0]
            sf = oracle_seq(small, rs['impl']) or fails
            res.violations.append({'key': 'seq:' + ' ; '.join(small), 'what': sf[0], 'case': small, 'all_failures': sf[:5], 'impl': rs['impl']})
        if ctx.driver_ok and r['impl'] != r['model']:
            small = pv.ddmin(r['ops'], lambda ops: pv_case_disagrees(exe, ops))
            rs = pv.run_script(exe, 'pv_C31', [small], env=ENV, harness_args=['seq'], timeout=60)[0][0]
            res.disagreements.append({'case': small, 'impl': rs['impl'], 'model': rs['model']})
        if nontrivial_seq(r['ops'], r['impl']):
            res.nontrivial('seq:' + ' ; '.join(r['ops']))
        if len(res.violations) + len(res.disagreements) >= 5:
            break
    res.traces_validated += len(results)
    res.samples += [{'ops': r['ops'][:10], 'impl': r['impl'][:10]} for r in results[ncorpus:ncorpus + 2]]
    stats.update(hstats)
    return hist, stats, sum(r['impl'].count('rejected') for r in results)


def pv_case_disagrees(exe, ops):
    rs, _, _, _ = pv.run_script(exe, 'pv_C31', [ops], env=ENV, harness_args=['seq'], timeout=120)
    r = rs[0]
    return r['crashed'] or r['impl'] != r['model'][:len(r['impl'])] or len(r['impl']) != len(r['ops'])


def run_conc(ctx, res, exe, lines):
    ops, impl, model, stats = pv.differential(ctx, res, [exe, 'conc'], 'pv_C31', stdin='\n'.join(lines) + '\n', timeout=900 if ctx.quick else 3000)
    # `final` is printed by the harness as an op of its own: fine for the driver (it answers `final`)
    runs, cur = [], None
    for i, o in enumerate(ops):
        if o.startswith('conc '):
            cur = []; runs.append(cur)
        if cur is not None:
            cur.append(i)
    for v in res.violations:      # harness-side failure (watchdog, crash): attach the configuration and the schedule reached
        if 'case' not in v and runs:
            lo = [ops[i] for i in runs[-1]]
            v['case'] = lo[0] + ' | replay ' + ' '.join(o.split()[1] for o in lo[1:] if o.startswith('step '))
    nrun = silent = incomplete = 0
    for idx in runs:
        ro, ri = [ops[i] for i in idx], [impl[i] for i in idx]
        if ri[0] == 'bad-op' or not ro[-1].startswith('final'):
            continue
        nrun += 1
        sched = ' '.join(o.split()[1] for o in ro[1:-1])
        case = ro[0] + ' | replay ' + sched
        f, st = check_conc_run(ro, ri)
        silent += st.get('silent', 0); incomplete += st.get('incomplete', 0)
        if f:
            res.violations.append({'key': 'conc:' + case, 'what': f, 'case': case, 'trace': ri[-6:]})
            if len(res.violations) >= 5:
                break
        if len(ro) > 8:
            res.nontrivial('conc:' + ro[0].split(' ', 2)[2] + '|' + sched)
    res.traces_validated += nrun
    if runs:
        idx = runs[-1]
        res.samples.append({'ops': [ops[i] for i in idx][:14], 'impl': [impl[i] for i in idx][:14]})
    stats.update({'conc_runs': nrun, 'conc_oracle_silent': silent, 'conc_incomplete': incomplete, 'conc_steps': len(ops) - 2 * nrun})
    return stats


def run_stress(ctx, res, exe, stats, heavy):
    cfgs = [(n, r, k) for (n, r, k) in CORPUS_STRESS]
    if res.violations:
        pass        # a failing input is already in hand: no need to search further with free-running threads
    else:
        cfgs += [(4, 20000, 0), (4, 20000, 1)] if not heavy else [(8, 400000, 0), (3, 400000, 0), (8, 300000, 1), (2, 300000, 1), (6, 20000, 2)]
    for n, rounds, kind in cfgs:
        rc, out, err = pv.sh([exe, 'stress', str(n), str(rounds), str(kind)], timeout=900, env={'VERIF_SEED': str(ctx.seed)})
        _, _, st2, viols = pv.parse_transcript(out)
        for k, v in st2.items():
            stats[k] = stats.get(k, 0) + v
        if rc != 0:
            res.violations.append({'key': 'stress-crash-%d' % kind, 'what': 'free-running stress kind %d with %d threads exited with %d: %s' % (kind, n, rc, err[-300:]), 'case': 'stress %d %d %d' % (n, rounds, kind)})
        for v in viols:
            if 'stress-sortpop' in v:
                res.violations.append({'key': 'sortpop-null', 'what': v, 'case': 'stress %d %d %d' % (n, rounds, kind)})
            else:
                res.violations.append({'key': 'stress:' + re.sub(r'\d+', 'N', v), 'what': v, 'case': 'stress %d %d %d' % (n, rounds, kind)})


def run(ctx, res, seq_cases=None, conc_lines=None):
    exe_s, exe_c = ctx.path('C31s'), ctx.path('C31c')
    ok, log = pv.cc_harness(HARNESS, exe_s, ctx.build, sanitize=True)
    ok2, log2 = pv.cc_harness(HARNESS, exe_c, ctx.build, sanitize=False)
    if not ok or not ok2:
        res.infra_errors.append('harness compile failed: ' + (log if not ok else log2)[-1500:]); return
    rng = pv.Rng(ctx.seed)
    cseq, cconc = load_corpus()
    replaying = seq_cases is not None or conc_lines is not None
    profs = {}
    if not replaying:
        n = 600 if ctx.quick else 6000
        gen = []
        for k in range(n):
            ops, prof = gen_case(rng.fork(k), rng.range(5, 70 if ctx.quick else 220))
            gen.append(ops); profs[prof] = profs.get(prof, 0) + 1
        seq_cases = cseq + gen
        conc_lines = cconc + gen_conc(rng.fork(10 ** 6), ctx.quick)
    hist, stats, rejected = ({}, {}, 0)
    if seq_cases:
        hist, stats, rejected = run_seq(ctx, res, exe_s, seq_cases, len(cseq) if not replaying else 0)
    cstats = run_conc(ctx, res, exe_c, conc_lines) if conc_lines else {}
    if not replaying:
        run_stress(ctx, res, exe_c, cstats, heavy=(not ctx.quick) or bool(res.disagreements) or not ctx.driver_ok)
    res.rule = ('sequential: corpus scripts first, then random call scripts (length 5..70 quick / 5..220 thorough; profiles sorted / deque / sort / mixed; priority sets with 2..41 values incl. +-2^30, '
                'so ties are the norm; all list/dequeue/fifo flavours) on the real inline functions under ASan+UBSan, contents of both lists and both rings compared after every call; '
                'concurrent: 2..4 threads x 1..3 locked calls under the cooperative scheduler, bounded exhaustive DFS for the listed small configurations and PRNG schedules for random ones, every '
                'schedule replayed on the Lean machine and searched for a linearization; distinct = distinct script / (configuration, schedule); non-trivial = a sorted insertion, chain or sort that '
                'meets a tie in a container of >= 3 items (sequential) or a schedule of more than 7 steps (concurrent)')
    res.extra['input_distribution'] = {'seq_op_histogram': hist, 'seq_profiles': profs, 'seq_rejected_calls': rejected, 'seq_oracle': stats, 'corpus_seq_cases': len(cseq),
                                       'corpus_conc_lines': len(cconc), 'concurrent': cstats}
    res.extra['inconclusive'] = cstats.get('incomplete_runs', 0) + cstats.get('conc_oracle_silent', 0)


def replay(ctx, res, data):
    seqs, concs = [], []
    for v in data.get('violations', []):
        c = v.get('case')
        if isinstance(c, list):
            seqs.append(c)
        elif isinstance(c, str) and c.startswith('conc '):
            concs.append(c)
    for d in data.get('disagreements', []):
        if isinstance(d.get('case'), list):
            seqs.append(d['case'])
    if seqs or concs:
        run(ctx, res, seq_cases=seqs, conc_lines=concs)
    else:
        run(ctx, res)
