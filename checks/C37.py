"""C37 — taskpool identifiers resolve to the registered taskpool."""
import os, json, re, time, pv
PROP = 'C37'
LEAN_MODULE = 'ParsecVerif.Props.C37'
DRIVERS = ['pv_C37']
_T = 'ParsecVerif.C37.'
THEOREMS = [_T + t for t in [
    'refines_map_partial', 'lookup_spec_partial', 'lookup_registered_partial', 'lookup_unregistered_partial',
    'lookup_registered_full_false', 'caller_chosen_id_trace',
    'lookup_before_first_reserve_crashes', 'lookup_zero_uninitialised', 'register_unreserved_crashes', 'register_beyond_double_crashes',
    'wf_always', 'lookup_crash_iff',
    'reserved_ids_increasing', 'reserved_ids_nodup', 'reserved_ids_consecutive',
    'interleaving_linearizes', 'mutual_exclusion', 'concurrent_reserved_distinct', 'concurrent_reserved_consecutive',
    'sync_same_next_id', 'sync_next_reserve_agrees', 'sync_preserves_lookup']]
IMPL = 'parsec/parsec.c (parsec_taskpool_reserve_id/_register/_unregister/_lookup/_sync_ids_context, parsec_taskpool_release_resources)'
ENGINE = 'lean-seq'
LEVEL = 'proof'
LEVEL_TEXT = ('Lean 4 theorems, unbounded: (1,2) every history of reserve/register/unregister/lookup/sync/fini calls whose ids come from reserve_id never crashes and answers, call by call, '
              'exactly like a finite map id->taskpool (refinement by a simulation invariant: array length = size, pos < size, only cell 0 uninitialised, all cells above pos free) — so a lookup '
              'returns the taskpool registered under the id and nothing after its unregistration; (3) in EVERY history between two resets the ids returned by reserve_id are strictly increasing '
              '(pairwise distinct), and for every set of thread programs and EVERY interleaving at atomic-operation granularity (CAS of the lock incl. failed attempts, fence of the unlock) the '
              'execution equals the sequential history in lock-acquisition order, so concurrently reserved ids are distinct (and consecutive); (4) for any number of processes in any reachable '
              'states, after the collective every process has pos = max and the next reserve_id returns max+1 everywhere, with all lookups preserved. The model mirrors parsec.c branch by branch '
              '(NULL array, single doubling, realloc/fill ranges, unchecked store) and is tied to the current source on every run: corpus + random histories on the real functions in forked '
              'children under a guard-page allocator (any out-of-bounds access inside libparsec faults), threads under the cooperative scheduler (exhaustive DFS for small programs, PRNG schedules '
              'otherwise) replayed step by step on the Lean machine, and 1..4 MPI ranks with different prior histories; an independent map oracle is evaluated on all implementation outputs.')
LEVEL_NOTE = ('Clauses 1/2 are proved under the id discipline (ids come from reserve_id / are <= pos; id 0 is not looked up): theorems *_partial. The full statement is FALSE of the code for '
              'application-chosen ids (theorem lookup_registered_full_false, replayed on the real code: corpus 003) and three bounds defects are proved about the model and reproduced on the real '
              'code (lookup(0) before the first reservation = NULL dereference; cell 0 never initialised; register of an id >= 2*size or of a never-reserved taskpool writes out of bounds) — '
              'reported as findings F1-F3. Interleavings are sequentially consistent at the granularity of parsec_atomic_* operations; uint32 wrap-around (>= 2^31 ids) is not modelled; the '
              'MPI all-reduce is assumed to return the maximum. Trusted: Lean kernel, propext/Classical.choice/Quot.sound, harness + guard allocator + cooperative scheduler, differential testing as tie.')
TECHNIQUE = ('Lean 4 proof (refinement to a finite map by simulation invariant; monotonicity induction over all histories; linearization invariant over all interleavings; max-synchronisation lemma) '
             'on a hand-written model, tied by differential correspondence: sequential scripts, cooperative-scheduler schedule replay, multi-rank MPI runs')
ASSUMPTIONS = ['fewer than 2^31 identifiers per epoch (no uint32/int wrap-around)', 'MPI_Allreduce(MAX) returns the maximum of the contributed values',
               'sequential consistency at the granularity of parsec_atomic_* operations; every registry access happens under taskpool_array_lock (true of parsec.c)',
               'asserts are compiled out (RelWithDebInfo/-DNDEBUG build): the asserted preconditions of unregister are respected by the harness (rejected otherwise)']

NH = 16
F1 = 'F1:lookup-of-id-0'
F2 = 'F2:register-of-unreserved-id-out-of-bounds'
F3 = 'F3:taskpool-registered-under-unreserved-id-not-found'
ENV = dict(pv.MPI_ENV, OMPI_MCA_mpi_yield_when_idle='1')


# ------------------------------------------------------------------ generators
def gen_seq(rng, length, wild=False, allow_fini=False):
    """One sequential history.  wild=False: ids come from reserve_id only (the id discipline)."""
    ops = []
    reserved = {}      # handle -> id of this epoch
    registered = {}    # handle -> id
    pos = 0
    fini_done = False
    heavy = rng.chance(1, 4)     # reserve-heavy: forces several doublings
    for _ in range(length):
        r = rng.below(100)
        if wild and r < 10:
            h = rng.below(NH)
            v = rng.choice([0, 1, pos, pos + 1, pos + 2, 2 * pos + 1, rng.range(0, 40), rng.range(0, 40), 4294967295, rng.range(41, 5000)])
            ops.append('setid %d %d' % (h, v)); reserved.pop(h, None)
        elif wild and r < 14:
            ops.append('lookup 0')
        elif wild and r < 17:
            ops.append(rng.choice(['register %d' % rng.below(NH), 'frobnicate', 'reserve', 'lookup -1', 'reserve 16', 'lookupown 99', 'setid 3', 'register 4294967296']))
        elif r < (60 if heavy else 34):
            h = rng.below(NH); pos += 1
            ops.append('reserve %d' % h); reserved[h] = pos
        elif r < (70 if heavy else 54):
            cand = [h for h in reserved if h not in registered] or list(reserved)
            if not cand:
                continue
            h = rng.choice(cand); registered[h] = reserved[h]
            ops.append('register %d' % h)
        elif r < (76 if heavy else 66):
            h = rng.choice(list(registered)) if registered and rng.chance(5, 6) else rng.below(NH)
            ops.append('unregister %d' % h); registered.pop(h, None)
        elif r < (88 if heavy else 84):
            if registered and rng.chance(1, 2):
                i = rng.choice(list(registered.values()))
            else:
                i = rng.range(1, pos + 3)
            ops.append('lookup %d' % i)
        elif r < 94:
            if reserved:
                ops.append('lookupown %d' % rng.choice(list(reserved)))
        elif r < 98:
            ops.append('sync')
        elif allow_fini and not fini_done and len(ops) > 3:
            ops.append('fini'); fini_done = True; reserved.clear(); registered.clear(); pos = 0
    return ops


def gen_prog(rng):
    """thread program: R [G [S] [U [S]]] with lookups sprinkled in; handles are the thread's own"""
    p = ['R']
    k = rng.below(10)
    if k >= 3:
        p.append('G')
        if rng.chance(1, 2):
            p.append('S')
        if k >= 6:
            p.append('U')
            if rng.chance(1, 2):
                p.append('S')
    if rng.chance(1, 3):
        p.insert(rng.range(1, len(p)), 'L%d' % rng.range(1, 8))
    if rng.chance(1, 6) and len(p) < 7:
        p.append('R')
    return p


def gen_coop(ctx, rng):
    lines = []
    k = 0
    small = [('pre=0 R / R', 200), ('pre=1 R G S / R S', 600), ('pre=0 R G S U / R L1', 1500), ('pre=2 R / R / R', 1500)]
    if not ctx.quick:
        small += [('pre=0 R G S / R G S / R', 6000), ('pre=3 R G U S / R G S / R L4', 6000), ('pre=0 R / R / R / R', 6000)]
    for spec, mx in small:
        lines.append('case %d coop %s | dfs %d' % (k, spec, mx)); k += 1
    for _ in range(14 if ctx.quick else 250):
        n = rng.range(2, 7)
        progs = [' '.join(gen_prog(rng)) for _ in range(n)]
        lines.append('case %d coop pre=%d %s | rng %d %d' % (k, rng.choice([0, 0, 1, 2, 3, 5, 7, 13, 30]), ' / '.join(progs), rng.next() % 1000000007, 6 if ctx.quick else 10)); k += 1
    return lines


def gen_mpi(rng, K, rounds):
    """script for K ranks: private (disciplined) histories, then the collective, then a reserve on every rank"""
    lines = ['case 0 %d' % K]
    st = [{'reserved': {}, 'registered': {}, 'pos': 0} for _ in range(K)]
    fini_at = rng.range(rounds // 3, max(rounds // 3, rounds - 3))
    for rd in range(rounds):
        if rd == fini_at:
            lines.append('finiall')     # every process: parsec_init + parsec_fini = reset of the registry
            st = [{'reserved': {}, 'registered': {}, 'pos': 0} for _ in range(K)]
        for r in range(K):
            s = st[r]
            for _ in range(rng.choice([0, 0, 1, 2, 3, 5, 9, 17]) if rng.chance(3, 4) else 0):
                x = rng.below(100)
                if x < 45:
                    h = rng.below(NH); s['pos'] += 1; s['reserved'][h] = s['pos']
                    lines.append('@%d reserve %d' % (r, h))
                elif x < 62:
                    cand = [h for h in s['reserved'] if h not in s['registered']] or list(s['reserved'])
                    if cand:
                        h = rng.choice(cand); s['registered'][h] = s['reserved'][h]
                        lines.append('@%d register %d' % (r, h))
                elif x < 72:
                    if s['registered']:
                        h = rng.choice(list(s['registered'])); s['registered'].pop(h)
                        lines.append('@%d unregister %d' % (r, h))
                elif x < 90:
                    i = rng.choice(list(s['registered'].values())) if s['registered'] and rng.chance(2, 3) else rng.range(1, s['pos'] + 3)
                    lines.append('@%d lookup %d' % (r, i))
                elif s['reserved']:
                    lines.append('@%d lookupown %d' % (r, rng.choice(list(s['reserved']))))
        Ks = rng.range(1, K) if rng.chance(2, 3) else K       # the collective runs among ranks 0..Ks-1
        lines.append('sync %d' % Ks if Ks < K or rng.chance(1, 2) else 'sync')
        m = max(s['pos'] for s in st[:Ks])
        for s in st[:Ks]:
            s['pos'] = m
        for r in range(Ks):
            if st[r]['registered'] and rng.chance(1, 2):
                lines.append('@%d lookup %d' % (r, rng.choice(list(st[r]['registered'].values()))))
            if rng.chance(9, 10):
                h = rng.below(NH); st[r]['pos'] += 1; st[r]['reserved'][h] = st[r]['pos']
                lines.append('@%d reserve %d' % (r, h))
        if rng.chance(1, 8):
            lines.append('@%d reserve 0' % K)     # no such rank: rejected
    return lines


# ------------------------------------------------------------------ independent oracle (from the property text)
def oracle(ops, impl):
    """Abstract map id -> taskpool, evaluated on the implementation's outputs of ONE process.
    Returns list of (key, text).  key None = not a known class (the caller keys it by the case)."""
    fails = []
    ident = {}       # handle -> identifier of the taskpool
    origin = {}      # handle -> 'reserved' (by reserve_id in this epoch) | 'chosen' (written by the application / stale)
    reg = {}         # id -> (handle, origin at registration)
    handed = set()   # ids handed out by reserve_id since the last reset
    for o, r in zip(ops, impl):
        w = o.split()
        if r in ('rejected', 'bad-op', '<no-result>', 'dead'):
            continue
        if w[0] == 'reserve':
            if r == 'crash':
                fails.append((None, '%s: crashed' % o)); break
            i = int(r)
            if i in handed:
                fails.append((None, '%s: returned id %d which reserve_id already handed out' % (o, i)))
            if i < 1:
                fails.append((None, '%s: returned id %d' % (o, i)))
            handed.add(i); ident[int(w[1])] = i; origin[int(w[1])] = 'reserved'
        elif w[0] == 'setid':
            ident[int(w[1])] = int(w[2]); origin[int(w[1])] = 'chosen'
        elif w[0] == 'register':
            h = int(w[1])
            if r == 'crash':
                if origin.get(h, 'chosen') == 'chosen':
                    fails.append((F2, '%s: out-of-bounds store: the taskpool id %s was not obtained from reserve_id' % (o, ident.get(h, 4294967295))))
                else:
                    fails.append((None, '%s: crashed although id %d came from reserve_id' % (o, ident[h])))
                break
            reg[ident.get(h, 4294967295)] = (h, origin.get(h, 'chosen'))
        elif w[0] == 'unregister':
            h = int(w[1])
            if r == 'ok' and reg.get(ident.get(h), (None,))[0] == h:
                del reg[ident[h]]
        elif w[0] in ('lookup', 'lookupown'):
            i = int(w[1]) if w[0] == 'lookup' else ident.get(int(w[1]), 4294967295)
            want = reg.get(i)
            if r in ('crash', 'junk'):
                fails.append((F1 if i == 0 else None, '%s (id %d): %s instead of %s' % (o, i, 'crash (NULL dereference or access outside the array)' if r == 'crash' else 'content of an uninitialised cell', 'tp %d' % want[0] if want else 'nothing')))
                if r == 'crash':
                    break
            elif want is not None:
                if r != 'tp %d' % want[0]:
                    fails.append((F3 if want[1] == 'chosen' and r == 'null' else None, '%s (id %d): returned %s while taskpool %d is registered under this id' % (o, i, r, want[0])))
            elif r != 'null':
                fails.append((None, '%s (id %d): returned %s but no taskpool is registered under this id' % (o, i, r)))
        elif w[0] == 'fini':
            reg.clear(); handed.clear()
            for h in origin:
                origin[h] = 'chosen'
    return fails


def load_corpus():
    cs = []
    d = os.path.join(pv.ROOT, 'corpus', PROP)
    if os.path.isdir(d):
        for f in sorted(os.listdir(d)):
            if f.endswith('.case'):
                cs.append([l.strip() for l in open(os.path.join(d, f)) if l.strip() and not l.startswith('#')])
    return cs


# ------------------------------------------------------------------ sequential part
def run_seq(ctx, res, exe, cases, ncorpus, hist, use_driver=True, tag='seq'):
    results, stats, viols, (rc, err) = pv.run_script(exe, 'pv_C37', cases, env=ENV, use_driver=use_driver and ctx.driver_ok, timeout=1500)
    if rc != 0:
        res.violations.append({'key': 'harness-exit-%d' % rc, 'what': 'harness exited with %d: %s' % (rc, err[-500:])})
    nfail = 0
    for k, r in enumerate(results):
        res.evaluations += 1
        for o in r['ops']:
            hist[o.split()[0]] = hist.get(o.split()[0], 0) + 1
        if len(r['impl']) != len(r['ops']):
            res.violations.append({'key': 'short-transcript:' + ' ; '.join(r['ops'][:len(r['impl']) + 1]), 'what': 'harness produced %d results for %d ops' % (len(r['impl']), len(r['ops'])), 'case': r['ops']})
            break
        fails = oracle(r['ops'], r['impl'])
        known = [f for f in fails if f[0]]
        new = [f for f in fails if not f[0]]
        for key in sorted(set(f[0] for f in known)):
            if not any(v.get('key') == key for v in res.violations):
                res.violations.append({'key': key, 'what': [f[1] for f in known if f[0] == key][0], 'case': r['ops']})
        if new:
            nfail += 1
            def failing(ops):
                rr = pv.run_script(exe, 'pv_C37', [ops], env=ENV, use_driver=False, timeout=120)[0][0]
                return any(not f[0] for f in oracle(rr['ops'], rr['impl']))
            small = pv.ddmin(r['ops'], failing, max_tests=80) if nfail <= 2 else r['ops']
            rr = pv.run_script(exe, 'pv_C37', [small], env=ENV, use_driver=False, timeout=120)[0][0]
            sf = [f[1] for f in oracle(rr['ops'], rr['impl']) if not f[0]] or [f[1] for f in new]
            res.violations.append({'key': ' ; '.join(small), 'what': sf[0], 'case': small, 'impl': rr['impl'], 'all_failures': sf[:5]})
        if use_driver and ctx.driver_ok and r['impl'] != r['model']:
            small = pv.ddmin(r['ops'], lambda ops: pv.case_disagrees(exe, 'pv_C37', ops, env=ENV), max_tests=80) if len(res.disagreements) < 2 else r['ops']
            rs = pv.run_script(exe, 'pv_C37', [small], env=ENV, timeout=120)[0][0]
            res.disagreements.append({'case': small, 'impl': rs['impl'], 'model': rs['model']})
        if any(x.startswith('tp ') or x in ('crash', 'junk') for x in r['impl']) and len(r['ops']) > 3:
            res.nontrivial(tag + ':' + ' ; '.join(r['ops']))
        if len([v for v in res.violations if not str(v.get('key', '')).startswith('F')]) + len(res.disagreements) >= 6:
            break
    for k in ('crashed_cases',):
        hist['#' + k] = hist.get('#' + k, 0) + stats.get(k, 0)
    return results


# ------------------------------------------------------------------ cooperative part
def coop_oracle(case_line, runs):
    """runs: list of (sched, rets-string) of one batch (one child: the registry persists).  ids handed out must be distinct;
    a thread looking up its own id gets itself iff it is registered at that time (its own program order decides)."""
    fails = []
    spec = case_line.split(' coop ', 1)[1]
    progs = [p.split() for p in spec.split(' ', 1)[1].split(' / ')]
    seen = set()
    for sched, rets in runs:
        per = [x.split() for x in rets.strip()[1:-1].split(';')]
        for t, prog in enumerate(progs):
            toks = per[t] if t < len(per) else []
            i = 0
            registered = False
            for op in prog:
                if i >= len(toks):
                    break
                if op == 'R':
                    v = toks[i]; i += 1
                    if v in seen:
                        fails.append('id %s was handed out twice (thread %d, schedule %s)' % (v, t, sched))
                    seen.add(v); registered = False   # a new id: not registered under it
                elif op == 'G':
                    i += 1; registered = True
                elif op == 'U':
                    if toks[i] == 'ok':
                        registered = False
                    i += 1
                elif op == 'S':
                    if toks[i] == 'tp':
                        got = 'tp ' + toks[i + 1]; i += 2
                    else:
                        got = toks[i]; i += 1
                    want = 'tp %d' % t if registered else 'null'
                    if got != want:
                        fails.append('thread %d looked up its own id and got %s, expected %s (schedule %s)' % (t, got, want, sched))
                else:   # L<id>
                    i += 2 if toks[i] == 'tp' else 1
    return fails


def run_coop(ctx, res, exe, lines, dist):
    ops, impl, model, stats = pv.differential(ctx, res, [exe], 'pv_C37', stdin='\n'.join(lines) + '\n', timeout=3000, env=ENV, tag='-coop')
    # group: batches start at `fresh`; runs start at `case`
    batches, cur, run = [], None, None
    for o, r in zip(ops, impl):
        if o == 'fresh':
            cur = {'case': None, 'runs': []}; batches.append(cur); run = None
        elif o.startswith('case') and cur is not None:
            cur['case'] = o; run = {'sched': [], 'rets': None}; cur['runs'].append(run)
        elif o.startswith('step') and run is not None:
            run['sched'].append(o.split()[1])
        elif o == 'rets' and run is not None:
            run['rets'] = r
    nruns = 0
    byline = {l.split(' | ')[0]: l for l in lines}
    for b in batches:
        rs = [(' '.join(x['sched']), x['rets']) for x in b['runs'] if x['rets'] is not None]
        nruns += len(rs)
        for sched, _ in rs:
            if len(sched) > 8:
                res.nontrivial('coop:' + b['case'].split(' coop ')[1] + '|' + sched)
        for f in coop_oracle(b['case'], rs)[:3]:
            res.violations.append({'key': byline.get(b['case'], b['case']), 'what': f, 'case': byline.get(b['case'], b['case'])})
    res.evaluations += nruns - len(ops)     # pv.differential counted every transcript line; an evaluation is one schedule
    dist['coop_runs'] = nruns
    dist['coop_steps'] = sum(1 for o in ops if o.startswith('step'))
    for k, v in stats.items():
        dist['coop_' + k] = v
    return nruns, [(ops[i], impl[i]) for i in range(min(len(ops), 14))]


# ------------------------------------------------------------------ MPI part
def run_mpi(ctx, res, exe, K, lines, tag, dist):
    script = ctx.path('mpi-%s.in' % tag)
    prefix = ctx.path('mpi-%s.out' % tag)
    open(script, 'w').write('\n'.join(lines) + '\n')
    for attempt in range(3):
        # a launch that dies without any registry-related symptom (observed once on an oversubscribed machine, not
        # reproducible in 50 reruns of the same script) is retried; a failure caused by the script is deterministic
        for r in range(K):
            if os.path.exists('%s.%d' % (prefix, r)):
                os.remove('%s.%d' % (prefix, r))
        rc, out, err = pv.sh(['mpiexec', '--oversubscribe', '-n', str(K), exe, 'mpi', script, prefix], env=ENV, timeout=900)
        if rc == 0:
            break
        if all(os.path.exists('%s.%d' % (prefix, r)) and open('%s.%d' % (prefix, r)).read().rstrip().endswith('#end') for r in range(K)):
            # every rank executed the whole script and closed its transcript; the non-zero status comes from the MPI
            # teardown after parsec_init/parsec_fini (seen in about 1 of 40 launches on an oversubscribed machine)
            dist['mpi_nonzero_exit_after_complete_run'] = dist.get('mpi_nonzero_exit_after_complete_run', 0) + 1
            rc = 0
            break
        dist['mpi_retries'] = dist.get('mpi_retries', 0) + 1
        pv.log('[C37] mpiexec -n %d failed (rc %d), attempt %d: %s' % (K, rc, attempt + 1, (out + err)[-300:]))
    if rc != 0:
        res.violations.append({'key': 'mpi-run-failed:' + tag, 'what': 'mpiexec -n %d exited with %d: %s' % (K, rc, (out + err)[-600:]), 'case': lines})
        return
    tr = []
    for r in range(K):
        o, i, _, _ = pv.parse_transcript(open('%s.%d' % (prefix, r)).read())
        tr.append(list(zip(o, i)))
    ptr = [0] * K
    impl = []
    def take(r, line):
        if ptr[r] < len(tr[r]) and tr[r][ptr[r]][0] == line:
            ptr[r] += 1
            return tr[r][ptr[r] - 1][1]
        return '<missing>'
    for l in lines:
        if l.startswith('@'):
            r = int(l[1:].split()[0])
            impl.append(take(r if r < K else 0, l))
        elif l == 'finiall':
            got = [take(r, l) for r in range(K)]
            impl.append(got[0] if len(set(got)) == 1 else '<ranks differ: %s>' % got)
        else:
            part = K
            if l.startswith('sync ') and l[5:].isdigit() and 1 <= int(l[5:]) <= K:
                part = int(l[5:])
            got = [take(r, l) for r in range(part)]
            impl.append(got[0] if len(set(got)) == 1 else '<ranks differ: %s>' % got)
    if '<missing>' in impl:
        res.violations.append({'key': 'mpi-transcript-short:' + tag, 'what': 'a rank did not execute line %d (%s)' % (impl.index('<missing>'), lines[impl.index('<missing>')]), 'case': lines})
        return
    if ctx.driver_ok:
        rcd, model, derr = pv.run_driver('pv_C37', lines)
        for d in pv.compare(lines, impl, model)[:5]:
            d['case'] = lines[:d['index'] + 1] if isinstance(d.get('index'), int) else lines
            res.disagreements.append(d)
    # oracle: per-rank map semantics, and agreement of the first reservation after each collective
    for r in range(K):
        mine = [(l.split(' ', 1)[1], x) if l != 'finiall' else ('fini', x) for l, x in zip(lines, impl) if l.startswith('@%d ' % r) or l == 'finiall']
        for key, text in oracle([m[0] for m in mine], [m[1] for m in mine])[:3]:
            res.violations.append({'key': key or ('mpi:' + tag + ':rank%d:' % r + text), 'what': 'rank %d of %d: %s' % (r, K, text), 'case': lines})
    nsync = 0
    after = None
    part = K
    ph = dist.setdefault('mpi_sync_participants', {})
    for l, x in zip(lines, impl):
        if l.split()[0] == 'sync':
            nsync += 1; after = {}; part = int(l[5:]) if l != 'sync' else K
            ph[str(part)] = ph.get(str(part), 0) + 1
        elif l == 'finiall':
            after = None      # the reset: ids restart at 1 on every process
        elif after is not None and l.startswith('@') and l.split()[1] == 'reserve' and int(l[1:].split()[0]) >= part:
            pass      # this rank did not take part in the collective
        elif after is not None and l.startswith('@') and l.split()[1] == 'reserve' and x not in ('rejected',):
            r = int(l[1:].split()[0])
            if r not in after:
                after[r] = x
                if len(set(after.values())) > 1:
                    res.violations.append({'key': 'mpi:' + tag + ':sync%d' % nsync, 'what': 'after synchronisation %d the next reserve_id returned different ids on different ranks: %s' % (nsync, after), 'case': lines[:lines.index(l) + 1] if l in lines else lines})
                    after = None
    res.evaluations += nsync
    dist['mpi_syncs'] = dist.get('mpi_syncs', 0) + nsync
    dist['mpi_ops'] = dist.get('mpi_ops', 0) + len(lines)
    dist.setdefault('mpi_ranks', []).append(K)
    if nsync:
        res.nontrivial('mpi:%s:%d:%s' % (tag, K, ' ; '.join(lines[:40])))
    return list(zip(lines, impl))[:16]


def run(ctx, res, cases=None, coop_lines=None, mpi_scripts=None):
    pv.log('[C37] lean build + audits + repo build took %.1fs' % (time.time() - ctx.t0)); t0 = time.time()
    exe = ctx.path('C37')
    # no ASan: libparsec is not instrumented; the harness brings its own guard-page allocator for the registry array
    ok, log = pv.cc_harness(os.path.join(pv.ROOT, 'harness', 'C37.c'), exe, ctx.build, sanitize=False)
    if not ok:
        res.infra_errors.append('harness compile failed: ' + log[-1500:]); return
    pv.log('[C37] harness compile %.1fs' % (time.time() - t0))
    rng = pv.Rng(ctx.seed)
    corpus = load_corpus()
    hist, dist = {}, {}
    replaying = cases is not None or coop_lines is not None or mpi_scripts is not None
    # --- sequential histories
    if not replaying:
        n = 66 if ctx.quick else 2000
        nfini = 1 if ctx.quick else 12      # MPI_Init of a singleton costs seconds on a loaded machine; the MPI part resets too
        cases = list(corpus)
        for k in range(n):
            r = rng.fork(k)
            wild = (k % 6 == 5)
            cases.append(gen_seq(r, r.range(4, 45 if ctx.quick else 140), wild=wild, allow_fini=(k < nfini * 3 and k % 3 == 0)))
        for k in range(3 if ctx.quick else 40):     # long reserve-heavy histories: many doublings
            r = rng.fork(100000 + k)
            cases.append(gen_seq(r, r.range(150, 400 if ctx.quick else 1500)))
    t0 = time.time()
    results = run_seq(ctx, res, exe, cases, len(corpus), hist) if cases else []
    res.traces_validated += len(results)
    pv.log('[C37] sequential: %d cases %.1fs' % (len(results), time.time() - t0)); t0 = time.time()
    # --- threads under the cooperative scheduler
    sample_coop = []
    if not replaying:
        coop_lines = gen_coop(ctx, rng.fork(777))
    if coop_lines:
        nruns, sample_coop = run_coop(ctx, res, exe, coop_lines, dist)
        res.traces_validated += nruns
        pv.log('[C37] cooperative: %d schedules %.1fs' % (nruns, time.time() - t0)); t0 = time.time()
    # --- several processes
    sample_mpi = []
    if not replaying:
        mpi_scripts = []
        # quick: ONE launch of 4 processes; the collectives run among the first 1..4 of them (sub-communicators)
        for j, K in enumerate([4] if ctx.quick else [4, 4, 3, 2, 1, 4]):
            mpi_scripts.append((K, gen_mpi(rng.fork(5000 + 10 * j + K), K, 16 if ctx.quick else 60)))
    for j, (K, lines) in enumerate(mpi_scripts or []):
        s = run_mpi(ctx, res, exe, K, lines, 'n%d-%d' % (K, j), dist)
        if s and not sample_mpi:
            sample_mpi = s
        res.traces_validated += 1
    pv.log('[C37] mpi: %d launches %.1fs' % (len(mpi_scripts or []), time.time() - t0))
    # --- search harder for a failing input when the correspondence broke (or always in the thorough tier)
    if not replaying and (res.disagreements or not ctx.quick) and not [v for v in res.violations if not str(v.get('key', '')).startswith('F')]:
        sl = ['case %d coop pre=0 %s | stress %d' % (i, ' / '.join(['R'] * n), 20000 if ctx.quick else 100000) for i, n in enumerate((2, 4, 8))]
        rc, out, err = pv.sh([exe], input='\n'.join(sl) + '\n', timeout=1200, env=ENV)
        _, _, st2, viols = pv.parse_transcript(out)
        dist['stress_reservations'] = st2.get('stress_reservations', 0)
        for v in viols:
            res.violations.append({'key': v, 'what': v, 'case': sl})
        extra = []
        for k in range(600 if ctx.quick else 1500):
            r = rng.fork(900000 + k)
            extra.append(gen_seq(r, r.range(6, 120), wild=(k % 4 == 3)))
        run_seq(ctx, res, exe, extra, 0, hist, use_driver=False, tag='search')
    res.rule = ('sequential: corpus first, then random call histories on the real functions, each in a forked child (pristine registry) with a guard-page allocator; 5 of 6 histories follow the id '
                'discipline, 1 of 6 adds application-chosen ids / lookup(0) / malformed calls; reserve-heavy and 150..400(1500)-call histories force up to 10 doublings; some histories include the fini reset. '
                'cooperative: thread programs R [G [S] [U [S]]] (+ lookups) on own handles, exhaustive DFS (spin steps pruned) for small programs and PRNG schedules (spins included), every schedule replayed on the Lean machine. '
                'MPI: 4 processes (thorough: also 1..3), per-rank random disciplined histories, the collective among the first 1..4 processes (sub-communicator passed to parsec_taskpool_sync_ids_context), reserve on every participant, repeated. evaluation = one history / one schedule / one collective round; '
                'distinct = distinct op sequence or (programs, schedule); non-trivial = a lookup found a taskpool or hit a bounds defect / schedule longer than 8 steps / a script with at least one collective')
    res.samples = ([{'ops': r['ops'][:14], 'impl': r['impl'][:14]} for r in results[len(corpus):len(corpus) + 2]] +
                   [{'ops': r['ops'], 'impl': r['impl']} for r in results[:3]] +
                   ([{'coop': sample_coop}] if sample_coop else []) + ([{'mpi': sample_mpi}] if sample_mpi else []))
    dist['op_histogram'] = hist
    dist['corpus_cases'] = len(corpus)
    dist['sequential_cases'] = len(results)
    dist['growths_reached'] = max([sum(1 for o in r['ops'] if o.startswith('reserve')) for r in results] or [0])
    res.extra['input_distribution'] = dist
    res.extra['inconclusive'] = dist.get('coop_incomplete_runs', 0)


def replay(ctx, res, data):
    cases, coop, mpi = [], [], []
    for v in data.get('violations', []) + data.get('disagreements', []):
        c = v.get('case')
        if isinstance(c, str) and ' coop ' in c:
            coop.append(c)
        elif isinstance(c, list) and c and ' coop ' in c[0]:
            coop += c
        elif isinstance(c, list) and c and c[0].startswith('case ') and len(c[0].split()) == 3:
            mpi.append((int(c[0].split()[2]), c))
        elif isinstance(c, list):
            cases.append(c)
    if not (cases or coop or mpi):
        return run(ctx, res)
    run(ctx, res, cases=cases, coop_lines=coop, mpi_scripts=mpi)
