"""C13 — collective activations reach each destination exactly once."""
import os, json, itertools, pv
PROP = 'C13'
LEAN_MODULE = 'ParsecVerif.Props.C13'
DRIVERS = ['pv_C13']
THEOREMS = ['ParsecVerif.C13.sends_iff_edges', 'ParsecVerif.C13.never_twice', 'ParsecVerif.C13.delivered_count',
            'ParsecVerif.C13.general_iff', 'ParsecVerif.C13.deliveries_iff', 'ParsecVerif.C13.star_exactly_once',
            'ParsecVerif.C13.same_sets_exactly_once', 'ParsecVerif.C13.fifo_quiescent',
            'ParsecVerif.C13.general_false_chain', 'ParsecVerif.C13.general_false_binomial']
IMPL = ('parsec/remote_dep.c (parsec_remote_dep_activate, parsec_remote_dep_propagate, parsec_gather_collective_pattern, remote_dep_bcast_*_child), '
        'parsec/remote_dep.h (remote_dep_rank_to_bit/bit_to_rank), parsec/remote_dep_mpi.c (remote_dep_dequeue_send, remote_dep_nothread_send, remote_dep_mpi_pack_dep)')
ENGINE = 'lean-seq'
LEVEL = 'proof'
LEVEL_TEXT = ('Lean 4 theorems, for every communicator size n <= 2^31, every root, every family of destination sets over any number of outputs and every delivery order of the '
              'activation messages: (1) the messages one participant sends are exactly the parent->child pairs of the numbering its loops compute (sends_iff_edges, any child predicate); '
              '(2) no (receiver, output) pair is ever delivered twice and nothing unwanted is delivered, at every moment of every run, for star, chain and binomial (never_twice); '
              '(3) once nothing is in flight, the delivered multiset is characterised exactly (delivered_count) and "every remote consumer receives every output it consumes exactly once" '
              'holds IF AND ONLY IF the decidable predicate DeliveryOK holds (general_iff, deliveries_iff); (4) DeliveryOK always holds for the star topology (and DTD) and, for chain and binomial, '
              'whenever all outputs have the same destination set (star_exactly_once, same_sets_exactly_once); (5) the unrestricted statement is FALSE for chain and binomial: kernel-checked '
              'witnesses (general_false_chain: 3 ranks, A->{1,2}, B->{2}). The property as stated is therefore proved in the partial forms (4) and refuted in general (5): a genuine defect of the code, '
              'recorded as a known finding keyed by not-DeliveryOK. Tie: on every run the real parsec_remote_dep_activate / parsec_remote_dep_propagate / gather pattern / remote_dep_mpi_pack_dep '
              'are executed per participant (no hook: COMM_MT send path with parsec_ce.pack/send_am stubs, topology selected through the MCA parameter in parsec_init) and compared message by message '
              'with the compiled Lean model; an independent exactly-once oracle is evaluated on the implementation\'s own messages and compared with DeliveryOK.')
LEVEL_NOTE = ('Modelled, not verified, and exercised only as far as the harness reaches: the receive side (remote_dep_get_datatypes, remote_dep_release_incoming) is replaced by the harness '
              '(a relay re-activates with the mask of the message it received and valid data for every output); after a lost output the model continues as if the relay went on, whereas the real '
              'runtime aborts or hangs (the model under-reports). Binomial predicate modelled for indices < 2^32 (C int). MPI transport assumed reliable (C14). '
              'Trusted: Lean kernel, propext/Classical.choice/Quot.sound, the harness and its stubs, differential testing as the model-code tie.')
TECHNIQUE = 'Lean 4 proof (loop closed forms, forest invariant over all delivery orders, decidable side condition with iff) on a hand-written model, tied by differential correspondence with the real functions'
ASSUMPTIONS = ['ranks < n <= 2^31, output indices < 20 strictly increasing (bits of the propagation mask), every output of the mask has a remote consumer',
               'every participant rebuilds the same bitmaps (iterate_successors is a deterministic function of the task) and re-activates once after receiving its message',
               'the comm engine delivers each activation message exactly once (C14); here parsec_ce.send_am is a recording stub']

KNOWN_KEY = 'C13-output-lost-when-destination-sets-differ (not DeliveryOK)'
TOPOS = ['star', 'chain', 'binomial']


# ------------------------------------------------------------------ families
def toks(outs):
    return ' '.join('%d:%s' % (k, ','.join(map(str, rs))) for k, rs in outs)


def ops_for(t, n, root, dtd, big, outs, acts):
    s = toks(outs)
    ops = ['bcast %s %d %d %d %d %s' % (t, n, root, dtd, big, s)]
    for me in acts:
        ops.append('act %s %d %d %d %d %d %s' % (t, n, root, me, dtd, big, s))
    return ops


def gen_family(rng, quick):
    r = rng.below(100)
    if r < 68:
        n = rng.range(2, 8)
    elif r < 90:
        n = rng.range(9, 40)
    elif r < 98:
        n = rng.range(41, 100)
    else:
        n = rng.range(101, 200 if quick else 400)
    root = rng.below(n)
    no = rng.choice([1, 2, 2, 3, 3, 3, 4, 5])
    keys = sorted(set(rng.below(20) for _ in range(no))) if rng.chance(1, 3) else list(range(no))
    others = [x for x in range(n) if x != root]
    style = rng.choice(['same', 'nested', 'random', 'random', 'disjoint', 'full', 'sparse'])

    def subset(pool, p_num, p_den):
        s = [x for x in pool if rng.chance(p_num, p_den)]
        return s or [rng.choice(pool)]
    base = subset(others, 1, 2)
    outs = []
    for i, k in enumerate(keys):
        if style == 'same':
            s = list(base)
        elif style == 'nested':
            s = list(base) if i == 0 else subset(prev, 2, 3)
        elif style == 'disjoint':
            s = subset(others, 1, len(keys) + 1)
        elif style == 'full':
            s = list(others)
        elif style == 'sparse':
            s = subset(others, 1, max(2, n // 3))
        else:
            s = subset(others, 1, 2)
        prev = s
        if rng.chance(1, 4):
            s = s + [root]          # the producer's process also consumes the output locally
        outs.append((k, sorted(set(s))))
    dtd = 1 if rng.chance(1, 12) else 0
    big = rng.below(1 << 20) if rng.chance(1, 3) else 0
    union = sorted(set(x for _, s in outs for x in s))
    acts = [root] + [rng.choice(union) for _ in range(2)] + ([rng.below(n)] if rng.chance(1, 4) else [])
    acts = [me for me in dict.fromkeys(acts) if not (dtd and me != root)]
    return n, root, dtd, big, outs, acts


def exhaustive(n, roots, nouts_list, with_root):
    """all families over n ranks: each output any set with at least one non-root member"""
    for root in roots:
        others = [x for x in range(n) if x != root]
        choices = []
        for m in range(1, 1 << len(others)):
            s = [others[i] for i in range(len(others)) if m >> i & 1]
            choices.append(s)
            if with_root:
                choices.append(sorted(s + [root]))
        for no in nouts_list:
            for combo in itertools.product(choices, repeat=no):
                yield n, root, [(k, list(s)) for k, s in enumerate(combo)]


def load_corpus():
    cs = []
    d = os.path.join(pv.ROOT, 'corpus', PROP)
    if os.path.isdir(d):
        for f in sorted(os.listdir(d)):
            if f.endswith('.case'):
                cs.append([l.strip() for l in open(os.path.join(d, f)) if l.strip() and not l.startswith('#')])
    return cs


# ------------------------------------------------------------------ independent oracle (from the property text)
def parse_family(op):
    w = op.split()
    if w[0] == 'bcast':
        t, n, root, dtd = w[1], int(w[2]), int(w[3]), int(w[4])
        sets = w[6:]
    else:
        t, n, root, dtd = w[1], int(w[2]), int(w[3]), int(w[5])
        sets = w[7:]
    outs = []
    for s in sets:
        k, rs = s.split(':')
        outs.append((int(k), [int(x) for x in rs.split(',')]))
    return t, n, root, dtd, outs


def oracle_bcast(op, impl):
    """each destination process receives every output it consumes exactly once and no output twice.
    Returns (lost, dup, spurious, relay_messages)."""
    t, n, root, dtd, outs = parse_family(op)
    want = set((r, k) for k, rs in outs for r in rs if r != root)
    got = {}
    relays = 0
    body = impl.strip()
    if not (body.startswith('[') and body.endswith(']')):
        return None
    for m in body[1:-1].split():
        sd, ks = m.split(':')
        s, d = sd.split('>')
        if int(s) != root:
            relays += 1
        for k in [x for x in ks.split(',') if x != '']:
            got[(int(d), int(k))] = got.get((int(d), int(k)), 0) + 1
    lost = sorted(x for x in want if x not in got)
    dup = sorted(x for x, c in got.items() if c > 1)
    spurious = sorted(x for x in got if x not in want)
    return lost, dup, spurious, relays


def family_size(op):
    t, n, root, dtd, outs = parse_family(op)
    return (n, sum(len(s) for _, s in outs), len(outs))


# ------------------------------------------------------------------ run
def run_topo(ctx, res, exe, topo, cases, env, raw=None, label=None):
    """cases: list of op lists, all for `topo`.  Returns per-case results."""
    args = [topo] + ([raw] if raw else [])
    results, stats, viols, (rc, err) = pv.run_script(exe, 'pv_C13', cases, env=env, use_driver=ctx.driver_ok, harness_args=args, timeout=3000)
    for v in viols:
        res.violations.append({'key': 'harness:' + v, 'what': v, 'topology': label or topo})
    return results, stats, rc, err


def shrink_family(ctx, exe, env, op, pred):
    """greedy removal of (output, rank) memberships while pred(op') still holds on the real code"""
    t, n, root, dtd, outs = parse_family(op)
    w = op.split()
    big = int(w[5])
    pairs = [(k, r) for k, rs in outs for r in rs]

    def build(ps):
        d = {}
        for k, r in ps:
            d.setdefault(k, []).append(r)
        o = [(k, sorted(v)) for k, v in sorted(d.items()) if any(x != root for x in v)]
        return o

    def failing(ps):
        o = build(ps)
        if not o:
            return False
        op2 = 'bcast %s %d %d %d %d %s' % (t, n, root, dtd, big, toks(o))
        rs, _, _, _ = pv.run_script(exe, 'pv_C13', [[op2]], env=env, use_driver=False, harness_args=[t], timeout=120)
        if rs[0]['crashed'] or not rs[0]['impl']:
            return False
        return pred(op2, rs[0]['impl'][0])
    small = pv.ddmin(pairs, failing, max_tests=24)
    o = build(small)
    return 'bcast %s %d %d %d %d %s' % (t, n, root, dtd, big, toks(o)) if o else op


def run(ctx, res, cases=None):
    exe = ctx.path('C13')
    ok, log = pv.cc_harness(os.path.join(pv.ROOT, 'harness', 'C13.c'), exe, ctx.build, sanitize=False)
    if not ok:
        res.infra_errors.append('harness compile failed: ' + log[-1500:]); return
    env = dict(pv.MPI_ENV)
    rng = pv.Rng(ctx.seed)
    corpus = load_corpus()
    per_topo = {t: [] for t in TOPOS}
    dist = {'corpus_cases': len(corpus), 'sampled_families': 0, 'exhaustive_families': 0, 'n_hist': {}, 'nouts_hist': {}, 'dtd_families': 0}

    def add(t, n, root, dtd, big, outs, acts, kind):
        per_topo[t].append(ops_for(t, n, root, dtd, big, outs, acts))
        nb = str(n) if n <= 8 else '9-40' if n <= 40 else '41-100' if n <= 100 else '>100'
        dist['n_hist'][nb] = dist['n_hist'].get(nb, 0) + 1
        dist['nouts_hist'][str(len(outs))] = dist['nouts_hist'].get(str(len(outs)), 0) + 1
        dist[kind] += 1
        dist['dtd_families'] += dtd

    if cases is None:
        for c in corpus:
            per_topo[c[0].split()[1]].append(c)
        # small exhaustive part (both tiers), then sampled families; each family on all three topologies
        ex = []
        if ctx.quick:
            ex += list(exhaustive(2, range(2), [1, 2], True)) + list(exhaustive(3, range(3), [1, 2], True)) + list(exhaustive(4, [rng.below(4)], [2], False))
        else:
            ex += list(exhaustive(2, range(2), [1, 2, 3], True)) + list(exhaustive(3, range(3), [1, 2, 3], True))
            ex += list(exhaustive(4, range(4), [1, 2, 3], True))
            ex += list(exhaustive(5, range(5), [1, 2], True)) + list(exhaustive(5, range(5), [3], False))
            ex += list(exhaustive(6, range(6), [1, 2], True)) + list(exhaustive(6, [rng.below(6)], [3], False))
        for n, root, outs in ex:
            for t in TOPOS:
                add(t, n, root, 0, 0, outs, [], 'exhaustive_families')
        nsamp = 300 if ctx.quick else 4000
        for i in range(nsamp):
            n, root, dtd, big, outs, acts = gen_family(rng.fork(i), ctx.quick)
            for t in TOPOS:
                add(t, n, root, dtd, big, outs, acts, 'sampled_families')
    else:
        for c in cases:
            per_topo[c[0].split()[1]].append(c)

    allres = []
    stats_all = {}
    runs = [(t, per_topo[t], None, t) for t in TOPOS if per_topo[t]]
    if cases is None:
        # an invalid MCA value falls back to the star predicate (default branch of the switch)
        inval = [c for c in per_topo['star'][len([c for c in corpus if c[0].split()[1] == 'star']):][:150]]
        runs.append(('star', inval, '7', 'star(invalid mca value 7)'))
    from concurrent.futures import ThreadPoolExecutor
    with ThreadPoolExecutor(max_workers=4) as ex:       # one harness process (+ one driver) per topology, side by side
        outs_ = list(ex.map(lambda a: run_topo(ctx, res, exe, a[0], a[1], env, raw=a[2], label=a[3]), runs))
    for (t, cs, raw, label), (results, stats, rc, err) in zip(runs, outs_):
        for k, v in stats.items():
            stats_all[k] = stats_all.get(k, 0) + v
        if rc != 0:
            res.violations.append({'key': 'harness-exit-%s-%d' % (label, rc), 'what': 'harness for %s exited with %d: %s' % (label, rc, err[-600:])})
        for r in results:
            r['topo'] = t
            r['label'] = label
        allres += results

    # DeliveryOK, computed by the Lean model for every collective that was run
    bops = []
    for r in allres:
        for o in r['ops']:
            if o.startswith('bcast'):
                w = o.split()
                bops.append(' '.join(['dok'] + w[1:5] + w[6:]))
    dok = {}
    if ctx.driver_ok and bops:
        uniq = list(dict.fromkeys(bops))
        rcd, lines, derr = pv.run_driver('pv_C13', uniq)
        if rcd != 0 or len(lines) != len(uniq):
            res.disagreements.append({'op': '<driver dok>', 'impl': '', 'model': 'driver exit %s / %d lines for %d ops: %s' % (rcd, len(lines), len(uniq), derr[-300:])})
        else:
            dok = dict(zip(uniq, lines))

    known_examples = []
    n_known = n_ok = n_relay = n_loss_expected = n_shrunk = 0
    stop = False
    for r in allres:
        res.evaluations += len(r['ops'])
        if r['crashed']:
            res.violations.append({'key': 'crash:' + ' ; '.join(r['ops'][:len(r['impl']) + 1]),
                                   'what': 'real code crashed (rc=%s) in %s: %s' % (r.get('rc'), r['label'], r.get('stderr', '')[-400:]), 'case': r['ops']})
            break
        if ctx.driver_ok and r['impl'] != r['model']:
            bad = [(o, i, m) for o, i, m in zip(r['ops'], r['impl'], r['model']) if i != m]
            res.disagreements.append({'case': r['ops'], 'topology': r['label'], 'first': {'op': bad[0][0], 'impl': bad[0][1], 'model': bad[0][2]} if bad else None})
        for o, i in zip(r['ops'], r['impl']):
            if not o.startswith('bcast') or i in ('rejected', 'bad-op'):
                if o.startswith('act') and i.endswith(']') and not i.endswith('[]'):
                    res.nontrivial(o)
                continue
            res.traces_validated += 1
            v = oracle_bcast(o, i)
            if v is None:
                res.violations.append({'key': 'garbled:' + o, 'what': 'unparsable result %r' % i, 'case': [o]}); continue
            lost, dup, spurious, relays = v
            w = o.split()
            dk = dok.get(' '.join(['dok'] + w[1:5] + w[6:]))
            model_ok = None if dk is None else dk.startswith('ok=true')
            if relays:
                n_relay += 1
                res.nontrivial(o)
            if dup or spurious:
                small, what = o, (dup, spurious)
                if r['label'] in TOPOS and n_shrunk < 2:
                    n_shrunk += 1
                    small = shrink_family(ctx, exe, env, o, lambda op2, im: (lambda q: q is not None and bool(q[1] or q[2]))(oracle_bcast(op2, im)))
                    rs2 = pv.run_script(exe, 'pv_C13', [[small]], env=env, use_driver=False, harness_args=[r['topo']], timeout=120)[0][0]
                    q = oracle_bcast(small, rs2['impl'][0]) if rs2['impl'] else None
                    what = (q[1], q[2]) if q else what
                res.violations.append({'key': 'twice-or-unwanted:' + small, 'what': 'real collective %s delivered %s twice and %s unwanted' % (small, what[0][:4], what[1][:4]), 'case': [small]})
            if lost:
                if model_ok is False:
                    n_known += 1
                    known_examples.append((family_size(o), o, i, lost))
                else:
                    small, what = o, lost
                    if r['label'] in TOPOS and n_shrunk < 2:
                        n_shrunk += 1
                        small = shrink_family(ctx, exe, env, o, lambda op2, im: (lambda q: q is not None and bool(q[0]))(oracle_bcast(op2, im)))
                        rs2 = pv.run_script(exe, 'pv_C13', [[small]], env=env, use_driver=False, harness_args=[r['topo']], timeout=120)[0][0]
                        q = oracle_bcast(small, rs2['impl'][0]) if rs2['impl'] else None
                        what = q[0] if q else what
                    res.violations.append({'key': 'lost:' + small, 'what': 'real collective %s never delivers %s although DeliveryOK=%s (Lean model, on the unshrunk family)' % (small, what[:6], model_ok), 'case': [small]})
            else:
                n_ok += 1
                if model_ok is False:
                    res.disagreements.append({'case': [o], 'what': 'model says not DeliveryOK but the real collective delivered everything exactly once', 'impl': i})
            if model_ok is False:
                n_loss_expected += 1
            if len(res.violations) + len(res.disagreements) >= 8:
                stop = True
                break
        if stop:
            break
    if known_examples:
        known_examples.sort()
        sz, o, i, lost = known_examples[0]
        res.violations.append({'key': KNOWN_KEY, 'what': 'chain/binomial relay does not forward an output it does not consume itself: %s => %s never delivers %s; %d such families this run, all with DeliveryOK=false (Lean model)' % (o, i, lost[:6], n_known),
                               'case': [o], 'families': n_known})
    res.rule = ('corpus first; exhaustive families (quick: n<=3 all roots x <=2 outputs, one root of n=4; thorough: n<=4 all roots x <=3 outputs, n=5,6 all roots x <=2 outputs, 3 outputs without root membership) and '
                '%s sampled families (n 2..%d, 1..5 outputs with sparse indices, styles same/nested/disjoint/full/sparse/random, root as local consumer, DTD, on-demand payloads), every family on star, chain, binomial '
                '(+150 on the invalid-MCA-value fallback); per family the whole collective (bcast, FIFO) and single-participant activates; distinct = distinct op line; non-trivial = a collective in which a relay sent a message, '
                'or an activate that sent something') % ('300' if ctx.quick else '4000', 200 if ctx.quick else 400)
    smp = [r for r in allres if len(r['ops']) > 1 and r['impl'] and r['topo'] != 'star'][:3]
    res.samples = [{'topology': r['label'], 'ops': r['ops'][:3], 'impl': r['impl'][:3]} for r in smp]
    dist.update({'collectives': res.traces_validated, 'collectives_with_relay_messages': n_relay, 'exactly_once_on_real_code': n_ok,
                 'not_DeliveryOK_families': n_loss_expected, 'known_finding_families': n_known, 'harness': stats_all})
    res.extra['input_distribution'] = dist
    res.extra['exhaustive'] = False


def replay(ctx, res, data):
    cases = [v['case'] for v in data.get('violations', []) if 'case' in v] + [d['case'] for d in data.get('disagreements', []) if 'case' in d]
    run(ctx, res, cases=cases or None)
