"""C17 — DTD data flush returns the last written value to the owner."""
import os, sys, pv
sys.path.insert(0, os.path.join(pv.ROOT, 'gen'))
import dtd_gen as G
PROP = 'C17'
LEAN_MODULE = 'ParsecVerif.Props.C17'
DRIVERS = ['pv_DTD']
THEOREMS = ['ParsecVerif.C17.C17_flush', 'ParsecVerif.C17.C17_last_writer', 'ParsecVerif.C17.seqStore_eq_lastWritten', 'ParsecVerif.C17.flush_identity',
            'ParsecVerif.C03.C03_sequential', 'ParsecVerif.C03.C03_observed']
IMPL = 'parsec/interfaces/dtd/parsec_dtd_data_flush.c (parsec_dtd_data_flush, _flush_all, parsec_insert_dtd_flush_task, parsec_dtd_data_flush_sndrcv), insert_function.c; run through harness/DTD.c on 1-4 MPI ranks'
ENGINE = 'lean-trace'
LEVEL = 'proof'
LEVEL_TEXT = ('Lean 4 theorem (corollary of C03, all insertion sequences, all worker counts, all runs): a flush of datum d is what the runtime makes of it — an inserted task with one RW access on d, '
              'placed on the owner of d, whose body writes back what it received; if it is the last writing access of d then after every complete run the flush task, which ran on the owner, received '
              'exactly the value written by the last writer inserted before it (whatever rank that writer was placed on) and d finally holds that value (C17_flush, C17_last_writer). '
              'Tie to the current source on every run: random insertion scripts on 1-4 MPI ranks with random value/tile affinities, parsec_dtd_data_flush of random subsets followed by '
              'parsec_dtd_data_flush_all and the wait, then reuse of the data; the owner-side copy of every datum read from the data collection after the wait is compared with seqExec '
              '(compiled Lean model and independent Python reference), as are the values every task observed.')
LEVEL_NOTE = ('The machine has one copy per datum: the transport of a version between ranks (remote dependency activation, the send/receive pair of flush tasks when the last writer is remote, the '
              'memcpy into the collection\'s copy) is NOT modelled; that part of the property is covered only by the multi-rank differential runs. Ranks are placement labels in the model. '
              'Trusted: Lean kernel, propext/Classical.choice/Quot.sound, the harness, Open MPI, differential testing as tie.')
TECHNIQUE = 'Lean 4 proof (corollary of the C03 refinement theorem) + differential runs of a real multi-rank DTD program'
ASSUMPTIONS = ['task bodies are deterministic functions of the values read and terminate', 'MPI point-to-point communication is reliable',
               'DTD usage contract: every tile is flushed before the taskpool wait in distributed runs; a flushed datum is not used before the wait']
RULE = ('each evaluation = one insertion script on 1-4 MPI ranks ending (as every DTD program must) with flushes of all live data and the wait; inside the script single flushes of random subsets, '
        'flush_all and waits followed by reuse; oracle: for every datum the owner\'s copy read from the data collection after the wait = value written by the last inserted writer; '
        'distinct = (configuration, script); non-trivial = at least 2 tasks, one conflicting pair')
_meas = {'remote_last_writer': 0, 'data_checked': 0}


def groups(ctx):
    if ctx.quick:
        multi = [(2, 2, 'lfq', 8), (3, 2, 'ap', 8), (4, 1, 'lfq', 5)]
        single = [(4, 'lfq', 16)]
    else:
        multi = [(r, c, s, 30) for r in (2, 3, 4) for (c, s) in ((1, 'lfq'), (2, 'ap'), (4, 'rnd'))]
        single = [(4, 'lfq', 60), (8, 'll', 60)]
    gs = [{'nranks': r, 'cores': c, 'sched': s, 'n': n, 'gen': {'inserters': False, 'tcapi': True}, 'timeout': 60 if ctx.quick else 240} for r, c, s, n in multi]
    gs += [{'nranks': 1, 'cores': c, 'sched': s, 'n': n, 'gen': {'tcapi': True}, 'timeout': 25 if ctx.quick else 90} for c, s, n in single]
    return gs


def oracle(case, r):
    nr = r['config']['nranks']
    _, _, lastw = G.seq_exec(case)
    for d in range(case['nd']):
        _meas['data_checked'] += 1
        if lastw[d] is not None and case['tasks'][lastw[d]].rank(nr) != d % nr:
            _meas['remote_last_writer'] += 1
    # the owner copies after the flush, and (the data flow that feeds the flush) the values every task received
    return G.oracle_flush(case, r, nr) + G.oracle_values(case, r, check_final=False)


def run(ctx, res, only=None):
    _meas['remote_last_writer'] = _meas['data_checked'] = 0
    G.run_property(ctx, res, PROP, groups(ctx), oracle, only=only, rule=RULE)
    res.extra.setdefault('input_distribution', {})['owner_copies_checked'] = _meas['data_checked']
    res.extra['input_distribution']['data_whose_last_writer_ran_on_another_rank'] = _meas['remote_last_writer']


def replay(ctx, res, data):
    run(ctx, res, only=G.replay_items(data))
