"""C40 — virtual-process maps match their specification."""
import os, re, json, hashlib, shutil, time, pv
PROP = 'C40'
LEAN_MODULE = 'ParsecVerif.Props.C40'
DRIVERS = ['pv_C40']
THEOREMS = ['ParsecVerif.C40.flat_spec', 'ParsecVerif.C40.flat_counts', 'ParsecVerif.C40.flat_oversubscribed_unbounded',
            'ParsecVerif.C40.flat_in_range_false', 'ParsecVerif.C40.flat_early_singlify_out_of_range',
            'ParsecVerif.C40.hwloc_counts', 'ParsecVerif.C40.hwloc_in_range', 'ParsecVerif.C40.hwloc_total_wrong',
            'ParsecVerif.C40.init_null_is_flat', 'ParsecVerif.C40.init_unknown_is_flat', 'ParsecVerif.C40.init_missing_file_is_flat',
            'ParsecVerif.C40.init_bad_rr_is_flat', 'ParsecVerif.C40.init_flat_spec',
            'ParsecVerif.C40.rr_never_builds_a_map', 'ParsecVerif.C40.file_never_builds_a_map',
            'ParsecVerif.C40.bind_thread_count', 'ParsecVerif.C40.bind_range_in_range', 'ParsecVerif.C40.bind_list_in_range',
            'ParsecVerif.C40.bind_mask_partial', 'ParsecVerif.C40.bind_mask_escapes', 'ParsecVerif.C40.bind_list_overflow',
            'ParsecVerif.C40.bind_list_short_unbound', 'ParsecVerif.C40.bind_range_overread',
            'ParsecVerif.C40.bindmap_in_allowed', 'ParsecVerif.C40.bindmap_length', 'ParsecVerif.C40.bindmap_core_list', 'ParsecVerif.C40.bindmap_overflow',
            'ParsecVerif.C40.default_in_allowed', 'ParsecVerif.C40.default_flat_hang']
IMPL = 'parsec/vpmap.c (parsec_vpmap_init, _init_from_flat/_hardware_affinity/_parameters/_file, parse_binding_parameter), parsec/parsec.c (parsec_parse_binding_parameter, parsec_find_core_by_idx, parsec_select_vpmap_thread_core)'
ENGINE = 'lean-seq'
LEVEL = 'proof'
LEVEL_TEXT = ('Lean 4 theorems, for every specification STRING, every number R of binding resources, every thread count and every allowed-core mask, about a model that mirrors '
              'parsec/vpmap.c and the bind_map parser of parsec/parsec.c branch by branch (parsers are total functions List Char -> outcome, memory-unsafe executions are the explicit '
              'outcome ub): the flat map has one VP with the requested threads and, for 1 <= n <= R, pairwise-disjoint non-empty bindings inside [0,R); the hwloc map has one VP per '
              'socket with min(n, cores) threads bound inside the cores; NULL / unknown / malformed rr / unreadable-file specifications yield exactly the flat map (rejection, no partial state); '
              'parse_binding_parameter returns exactly nbth threads, range and list modes only bind inside [0,R) (or the unbound marker); every bind_map placement is -1 or an allowed core, and a well-formed core list c1,...,ck is honoured exactly when k <= threads (decimal round trip through the strtol model proved). '
              'The parts of the property that are FALSE of the code are proved as theorems with witnesses and replayed on the real code on every run (findings): rr:n:p:c and file: maps never '
              'build a map (crash / zero VPs), oversubscribed flat maps bind outside the cores and stall the default placement, the hex-mask mode accepts core R, short core lists set bit 2^32-1, '
              'one-past-the-end reads and stack/heap overflows in the three parsers. The model is tied to the current source on every run by generated strings and files executed on the real functions '
              '(vpmap.c and parsec.c #included in the harness, ASan+UBSan, real and synthetic hwloc topologies) and compared line by line with the compiled Lean model; an independent oracle written '
              'from the property statement is evaluated on the implementation outputs.')
LEVEL_NOTE = ('Sequential, single process (rank 0, MPI not initialised); nbht = 1 (parsec_hwloc_get_ht() is constant 1 in this code base). The nb_thread field of a vpmap file line (strtod) is not modelled '
              'because every non-empty file already takes the undefined-behaviour outcome before the field matters. The outcome of undefined behaviour is modelled as `crash`, which is what ASan/UBSan '
              'builds do; a non-instrumented build may continue silently. The `hang` outcome of the default placement is checked with a 10 s timeout (the real loop ends after 2^31 iterations). '
              'Trusted: Lean kernel, propext/Classical.choice/Quot.sound, the harness, differential testing as tie, hwloc 2.9 bitmap semantics as modelled by CpuSet.')
TECHNIQUE = 'Lean 4 proof (structural induction over the parser loops, invariants on cursor/positions) on a hand-written model, tied by differential correspondence with the real static functions'
ASSUMPTIONS = ['API precondition nb_cores >= 1 (parsec_init clamps it); nb_cores > R only with runtime_num_cores (oversubscription)',
               'strings contain no NUL; strtol/strtoul/sscanf(%d) as in glibc (clamp to long, then int wrap)',
               'a fresh process per specification (vpmap statics unset), as in parsec_init']

FULLHEX = '0123456789abcdefABCDEF'


# ------------------------------------------------------------------ encoding
def enc(s):
    if s is None:
        return 'NULL'
    out = ['=']
    for ch in s:
        if ch.isalnum() or ch in ':;,.+-_/x':
            out.append(ch)
        else:
            out.append('%%%02X' % ord(ch))
    return ''.join(out)


def dec(tok):
    if tok in ('NULL', '-'):
        return None
    assert tok[0] == '='
    return re.sub(r'%([0-9A-Fa-f]{2})', lambda m: chr(int(m.group(1), 16)), tok[1:])


def clist(l):
    return ','.join(str(x) for x in l) if l else '-'


# ------------------------------------------------------------------ generators (all randomness from pv.Rng)
def g_num(rng, R, wild=8):
    r = rng.below(100)
    if r < 100 - wild:
        if rng.chance(1, 6):
            return str(rng.choice([0, max(R - 1, 0), max(R - 1, 0), R]))      # boundaries
        return str(rng.below(max(R, 1)))
    return rng.choice([str(R), str(R + rng.range(1, 5)), '-1', '-%d' % rng.range(2, 9), '2147483647', '2147483648', '4294967296',
                       '-2147483648', '99999999999999999999', '', ' 3', '+2', '07', 'z'])


def g_list(rng, R, nbth, enough=True):
    """core list `a,b-c,...`; when `enough`, at least nbth valid in-range cores are listed"""
    parts, have = [], 0
    want = nbth if enough else max(0, nbth - 1)
    guard = 0
    while (have < want or rng.chance(1, 4)) and guard < 4 * nbth + 8:
        guard += 1
        if have >= want and not enough:
            break
        r = rng.below(100)
        if r < 55:
            c = rng.below(R); parts.append(str(c)); have += 1
        elif r < 85:
            a = rng.below(R); b = min(R - 1, a + rng.below(4))
            if not enough and have + (b - a + 1) > want:
                b = a + max(0, want - have - 1)
            parts.append('%d-%d' % (a, b)); have += b - a + 1
        elif r < 93 and enough:
            parts.append(rng.choice(['%d' % (R + rng.below(3)), '-2', 'q', ' %d' % rng.below(R), '%d-%d' % (R - 1, R + 2), '5-2', '']))
        elif enough:
            parts.append(g_num(rng, R, 50))
    return ','.join(parts)


def g_range(rng, R, sep):
    def f(p_empty):
        return '' if rng.chance(p_empty, 100) else g_num(rng, R, 10)
    r = rng.below(100)
    if r < 45:
        s = f(25) + sep + f(20) + sep + f(30)
    elif r < 75:
        s = f(20) + sep + f(15)
    elif r < 85:
        s = f(10) + sep
    elif r < 92:
        s = f(30) + sep + f(30) + sep + f(30) + sep + f(50)
    else:
        s = f(30) + sep + ' ' + f(10) + ' ' + sep + f(10) + 'k'
    if sep == ':' and rng.chance(1, 4):
        a = rng.below(R); b = rng.below(R)
        s = '%d:%d:%d' % (a, b, rng.choice([-1, -2, -3, 1, 2, 0, -R]))
    return s


def g_mask(rng, R):
    r = rng.below(100)
    if r < 60:
        v = rng.below(1 << min(R, 20)) or 1
        return '0x%x' % v
    if r < 70:
        return '0x%x' % (1 << rng.range(max(R - 1, 0), R + 4))
    if r < 76:
        return rng.choice(['0x0', '0x', 'x', '0x00', 'x-1', '0xzz', 'x 5', 'x+3', '0x0x5'])
    if r < 84:
        return '0x' + ''.join(rng.choice('0123456789abcdefABCDEF') for _ in range(rng.range(15, 19)))
    if r < 92:
        return rng.choice(['ab', '3,', '1;2', '']) + 'x%x' % (rng.below(1 << min(R, 16)) or 3)
    return '0x%x' % (rng.below(1 << 30) or 1)


def g_garbage(rng):
    al = '0123456789,,;;--x: +abf\t'
    return ''.join(rng.choice(al) for _ in range(rng.range(0, 10)))


def g_binding(rng, R, nbth, enough=True):
    r = rng.below(100)
    if r < 42:
        return g_list(rng, R, nbth, enough)
    if r < 72:
        return g_range(rng, R, ';')
    if r < 92:
        return g_mask(rng, R)
    s = g_garbage(rng)
    if 'x' not in s and ';' not in s:      # garbage without mode marker is a (possibly short) list: keep it long enough
        s = s + ',' + g_list(rng, R, nbth, True)
    return s


def gen_bind(rng, R, short=False):
    nbth = rng.choice([1, 1, 2, 2, 3, 4, 4, 5, 6, 8, 9, 12, 16, 17, 24, R, R + 1])
    nbth = max(1, nbth)
    if short:
        return 'bind %d %d %s' % (R, nbth, enc(g_list(rng, R, nbth, enough=False)))
    return 'bind %d %d %s' % (R, nbth, enc(g_binding(rng, R, nbth)))


def g_filecontent(rng, R):
    lines = []
    for _ in range(rng.choice([0, 1, 1, 2, 2, 3, 4])):
        r = rng.below(100)
        nth = rng.range(1, 6)
        b = g_binding(rng, R, nth, True)
        if r < 45:
            lines.append('0:%d:%s' % (nth, b))
        elif r < 60:
            lines.append(':%d:%s' % (nth, b))
        elif r < 75:
            lines.append('%d:%d:%s' % (rng.range(1, 3), nth, b))
        elif r < 85:
            lines.append(rng.choice(['# comment', 'garbage', '', 'x', '0 4 0,1']))
        else:
            lines.append(rng.choice(['0x0:', '00:', 'a:b', '0:', '0:2', ' 0:1:0']) + b)
    s = '\n'.join(lines)
    if lines and not rng.chance(1, 5):
        s += '\n'
    return s


def g_spec(rng, R):
    """returns (spec or None, file content or None)"""
    r = rng.below(100)
    if r < 12:
        return None, None
    if r < 30:
        return rng.choice(['flat', 'flat', 'display:flat', '', 'flatten', 'display:', 'display']), None
    if r < 46:
        return rng.choice(['hwloc', 'hwloc', 'display:hwloc', 'hwlocX']), None
    if r < 62:
        w = rng.choice(['rr', 'file', 'numa', 'FLAT', 'hw', 'displayflat', 'display:nothing', ' flat', 'f', 'rr;1;2;3', 'file', g_garbage(rng)])
        return w, None
    if r < 76:
        k = rng.below(100)
        if k < 40:
            return 'rr:%d:%d:%d' % (rng.range(1, 4), rng.range(1, 4), rng.range(1, R)), None
        if k < 60:
            return 'rr:%d:%d:%d' % (rng.choice([0, -1, -2, -5]), rng.range(1, 4), rng.range(1, R)), None
        return rng.choice(['rr:', 'rr:1', 'rr:1:2', 'rr:1:2:', 'rr:a:b:c', 'rr:1:2:x', 'rr::1:2', 'rr: 2: 1: 3', 'rr:2 :1:3', 'rr:-1:2:4', 'display:rr:1',
                           'rr:3000000000:1:1', 'rr:70000:70000:1', 'rr:+0:1:1']), None
    if r < 84:
        return rng.choice(['file:nope.txt', 'file:', 'file:/nonexistent/x', 'display:file:none']), None
    return rng.choice(['file:vpmap.in', 'file:vpmap.in', 'display:file:vpmap.in']), g_filecontent(rng, R)


def g_nb(rng, R):
    r = rng.below(100)
    if r < 70:
        return rng.range(1, R)
    if r < 80:
        return R
    if r < 94:
        return R + rng.range(1, 4)
    return rng.choice([0, -1, 2 * R + 1])


def g_sing(rng):
    return rng.choice([0, 0, 0, 0, -1, 1, 1, 2])


def gen_init(rng, R, socks):
    spec, fc = g_spec(rng, R)
    return 'init %d %d %s %d %s %s' % (R, g_sing(rng), clist(socks), g_nb(rng, R), enc(spec), '-' if fc is None else enc(fc))


def gen_flat(rng, R):
    return 'flat %d %d %d' % (R, g_sing(rng), rng.choice([-1, rng.range(1, R), rng.range(1, R), R, R + rng.range(1, 3), 0]))


def gen_hwloc(rng, R, socks):
    tot = sum(socks)
    return 'hwloc %d %d %s %d' % (R, g_sing(rng), clist(socks), rng.choice([rng.range(1, max(tot, 1)), rng.range(1, max(tot, 1)), tot, tot + rng.range(1, 3), 0, -1]))


def g_allowed(rng, R):
    r = rng.below(100)
    if r < 55:
        return list(range(R))
    if r < 80:
        return sorted(set(rng.below(R + 4) for _ in range(rng.range(1, R + 2))))
    if r < 90:
        lo = rng.below(R); return list(range(lo, min(R + 2, lo + rng.range(1, R))))
    if r < 95:
        return []
    return list(range(0, R, 2))


def count_bmap_el(el, R):
    """number of placements of one well-formed bind_map element, from its documented meaning"""
    try:
        if el.startswith('0x'):
            return bin(int(el[2:], 16)).count('1')
        if ':' in el:
            f = el.split(':')
            a = int(f[0]) if f[0] else 0
            b = int(f[1]) if len(f) > 1 and f[1] else R
            c = int(f[2]) if len(f) > 2 and f[2] else (1 if a < b else -1)
            if abs(a) > 4096 or abs(b) > 4096:
                return 1
            return len(range(a, b + (1 if c > 0 else -1), c)) if c else 1
        return 1
    except (ValueError, OverflowError):
        return 1


def gen_bmap(rng, R):
    allowed = g_allowed(rng, R)
    comm = rng.choice([-1, -1, -1, 3, -2])
    r = rng.below(100)
    fc = '-'
    if r < 70:       # homogeneous, documented syntax
        kind = rng.below(3)
        els = []
        for _ in range(rng.range(1, 5)):
            if kind == 0:
                els.append(g_num(rng, R, 12))
            elif kind == 1:
                els.append(g_range(rng, R, ':'))
            else:
                els.append(g_mask(rng, R))
        opt = ','.join(els)
        if kind == 2:
            opt = els[0]        # one mask (a later element would be skipped: see notes)
        n = sum(count_bmap_el(e, R) for e in (els if kind != 2 else els[:1]))
        n = n + rng.range(0, 3) if not rng.chance(1, 8) else max(0, n - rng.range(1, 3))
    elif r < 88:     # mixtures and noise
        els = [rng.choice([g_num(rng, R, 20), g_range(rng, R, ':'), g_mask(rng, R), g_garbage(rng)]) for _ in range(rng.range(1, 4))]
        opt = ','.join(els)
        n = rng.range(0, 2 * R)
    else:
        inner = rng.choice([g_num(rng, R, 5) + ',' + g_num(rng, R, 5), g_range(rng, R, ':'), g_mask(rng, R)])
        name = rng.choice(['bind.in', 'bind.in', 'bind.in', 'nofile'])
        opt = rng.choice(['file:', 'file:', 'xfile:']) + name
        fc = enc(rng.choice([inner + '\n', inner, '', inner + '\n' + g_num(rng, R) + '\n']))
        n = rng.range(1, R + 2)
    if rng.chance(1, 7):
        opt = '+' + opt
    n = min(n, 200)
    return 'bmap %d %s %d %d %s %s' % (R, clist(allowed), n, comm, enc(opt), fc)


def gen_dflt(rng, R, socks):
    spec = rng.choice([None, 'flat', 'hwloc', 'display:flat', 'nonsense', 'hwloc'])
    nb = rng.choice([rng.range(1, R), rng.range(1, R), R, R + 1])
    return 'dflt %d %s %d %s %d %s -' % (R, clist(g_allowed(rng, R)), g_sing(rng), clist(socks), nb, enc(spec))


def gen_ops(rng, R, socks, n):
    ops = []
    for i in range(n):
        r = rng.fork(i)
        k = r.below(100)
        if k < 34:
            ops.append(gen_bind(r, R))
        elif k < 58:
            ops.append(gen_init(r, R, socks))
        elif k < 64:
            ops.append(gen_flat(r, R))
        elif k < 70:
            ops.append(gen_hwloc(r, R, socks))
        elif k < 92:
            ops.append(gen_bmap(r, R))
        else:
            ops.append(gen_dflt(r, R, socks))
    return ops


# ------------------------------------------------------------------ result parsing
def parse_sets(txt):
    """'4/0/[0 1 2] 1/-1/null' -> list of (nbcores, ht, members or None, inf or None)"""
    out = []
    for m in re.finditer(r'(-?\d+)/(-?\d+)/(null|\[[^\]]*\])', txt):
        if m.group(3) == 'null':
            out.append((int(m.group(1)), int(m.group(2)), None, None)); continue
        bits, inf = [], None
        for w in m.group(3)[1:-1].split():
            if w.endswith('-'):
                inf = int(w[:-1])
            else:
                bits.append(int(w))
        out.append((int(m.group(1)), int(m.group(2)), bits, inf))
    return out


def parse_map(res):
    """'ok nvp total | n: thr thr | ...' -> (nvp, total, [[thr...]...])"""
    parts = res.split(' | ')
    h = parts[0].split()
    vps = []
    for p in parts[1:]:
        n, _, rest = p.partition(':')
        vps.append((int(n), parse_sets(rest)))
    return int(h[1]), int(h[2]), vps


def intlist(s):
    return [int(x) for x in s.strip('[]').split()]


# ------------------------------------------------------------------ independent oracle (from the property statement + the documented grammar)
WELL_LIST = re.compile(r'^\d+(-\d+)?(,\d+(-\d+)?)*$')
WELL_RANGE = re.compile(r'^\d*;\d*(;\d*)?$')
WELL_MASK = re.compile(r'^0x[0-9a-fA-F]+$')


def binding_wellformed(b):
    return bool(WELL_LIST.match(b) or WELL_RANGE.match(b) or WELL_MASK.match(b))


def file_intent(content):
    """documented meaning of a vpmap file for rank 0: list of thread counts, or None when some applicable line is malformed"""
    vps = []
    for ln in content.split('\n'):
        if ln == '':
            continue
        m = re.match(r'^(\d*):(\d+):(.*)$', ln)
        if not m:
            if ':' in ln:
                return None
            continue                      # documented as "malformed line: warning, skipped"
        if m.group(1) not in ('', '0'):
            if int(m.group(1)) != 0:
                continue
        if not binding_wellformed(m.group(3)) or int(m.group(2)) < 1:
            return None
        vps.append(int(m.group(2)))
    return vps


def why_kind(why):
    w = ' '.join(why)
    for k in ('heap-buffer-overflow', 'stack-buffer-overflow', 'dynamic-stack-buffer-overflow', 'index', 'signed integer overflow', 'null pointer',
              'attempting free', 'allocation-size-too-big', 'SEGV', 'BUS', 'FPE', 'division by zero', 'stack-overflow'):
        if k in w:
            k2 = {'index': 'index-out-of-bounds', 'BUS': 'wild-pointer', 'SEGV': 'wild-pointer', 'attempting free': 'wild-pointer',
                  'dynamic-stack-buffer-overflow': 'stack-buffer-overflow', 'FPE': 'division by zero'}.get(k, k)
            if k == 'SEGV' and 'null' in w.lower():
                k2 = 'null pointer'
            if 'buffer-overflow' in k2:
                k2 += '-READ' if 'READ of size' in w else ('-WRITE' if 'WRITE of size' in w else '')
            return k2.replace(' ', '-')
    return 'abnormal-exit'


# raw oracle classes -> root causes (the keys of known_findings.json); an unmapped class keeps its raw name
ROOTS = [
    (r'^(flat|init):(flat|default|malformed|file|rr-degenerate):binding-out-of-range:oversubscribed$', 'oversubscribed-flat-binding-out-of-range'),
    (r'^(hwloc|init):hwloc:total-threads$', 'hwloc-total-threads-not-truncated'),
    (r'^init:rr:(null-pointer|wild-pointer|signed-integer-overflow)$', 'rr-map-crash'),
    (r'^init:(rr-degenerate|rr):(negative-vp-count|wrong-counts)$', 'rr-degenerate-vp-count'),
    (r'^init:rr-degenerate:signed-integer-overflow$', 'rr-degenerate-int-overflow'),
    (r'^init:file:(heap-buffer-overflow-WRITE|heap-buffer-overflow-READ|wild-pointer|index-out-of-bounds|stack-buffer-overflow.*|signed-integer-overflow|null-pointer|allocation-size-too-big|abnormal-exit)$', 'file-map-crash'),
    (r'^init:file:zero-vp$', 'file-zero-vp'),
    (r'^bind:mask:binding-out-of-range$', 'bind-mask-core-out-of-range'),
    (r'^bind:list:(index-out-of-bounds|stack-buffer-overflow-WRITE|stack-buffer-overflow)$', 'bind-list-stack-overflow'),
    (r'^bind:range:heap-buffer-overflow-READ$', 'bind-range-overread'),
    (r'^bind:list:unbound-bit$', 'bind-list-unbound-bit'),
    (r'^bind:list:signed-integer-overflow$', 'bind-list-int-overflow'),
    (r'^bmap:heap-buffer-overflow-WRITE$', 'bindmap-startup-overflow'),
    (r'^bmap:heap-buffer-overflow-READ$', 'bindmap-range-overread'),
    (r'^bmap:signed-integer-overflow$', 'bindmap-step-int-overflow'),
    (r'^dflt:hang:oversubscribed$', 'default-placement-hang-oversubscribed'),
]


def rootkey(raw):
    for pat, k in ROOTS:
        if re.match(pat, raw):
            return k
    return raw


def spec_kind(spec):
    """documented kind of a vpmap specification string"""
    if spec is None or spec == '':
        return 'default'
    s = spec[len('display:'):] if spec.startswith('display:') else spec
    if s.startswith('flat'):
        return 'flat'                     # the code accepts any word that starts with flat / hwloc; the oracle does too
    if s.startswith('hwloc'):
        return 'hwloc'
    m = re.match(r'^rr:\s*([-+]?\d+):\s*([-+]?\d+):\s*([-+]?\d+)', s)      # as lenient as sscanf: blanks before a number, anything after
    if m:
        return 'rr' if int(m.group(1)) >= 1 and int(m.group(2)) >= 1 and int(m.group(3)) >= 1 else 'rr-degenerate'
    if s.startswith('file:'):
        return 'file'
    return 'malformed'


def oracle(op, res, why):
    """Returns a list of (key, text).  Keys are stable class names (known_findings.json matches on them)."""
    w = op.split(' ')
    kind = w[0]
    R = int(w[1])
    V = []
    if res in ('rejected', 'bad-op', 'bad-topo'):
        return V
    if kind in ('flat', 'hwloc', 'init'):
        if kind == 'flat':
            nb = int(w[3]); sk = 'flat'; spec = 'flat'; fc = None; socks = []
            if nb == -1:
                nb = R
        elif kind == 'hwloc':
            nb = int(w[4]); sk = 'hwloc'; spec = 'hwloc'; fc = None; socks = [int(x) for x in w[3].split(',')] if w[3] != '-' else []
        else:
            nb = int(w[4]); spec = dec(w[5]); fc = dec(w[6]); sk = spec_kind(spec); socks = [int(x) for x in w[3].split(',')] if w[3] != '-' else []
        if sk == 'file':
            path = spec.split('file:', 1)[1]
            if path != 'vpmap.in' or fc is None:
                sk = 'malformed'          # unreadable file: must be rejected (default map)
        if res == 'crash' or res == 'hang':
            V.append(('%s:%s:%s' % (kind, sk, why_kind(why) if res == 'crash' else 'hang'),
                      'specification %r (%s) made the real code %s: %s' % (spec, sk, res, ' / '.join(why)[:300])))
            return V
        if res == 'fatal':
            if sk not in ('malformed', 'rr-degenerate') and not (sk == 'file' and file_intent(fc) is None):
                V.append(('%s:%s:fatal' % (kind, sk), 'well-formed specification %r ended in parsec_fatal' % (spec,)))
            return V
        if res.startswith('negvp'):
            V.append(('%s:%s:negative-vp-count' % (kind, sk), 'specification %r left parsec_vpmap_get_nb_vp() = %s' % (spec, res.split()[1])))
            return V
        nvp, total, vps = parse_map(res)
        # --- number of VPs and threads as specified
        want = None
        if sk in ('default', 'flat', 'malformed', 'rr-degenerate'):
            want = [nb]                      # the flat default: one VP with nb_cores threads (also the result of a rejection)
        elif sk == 'hwloc':
            want, left = [], nb if nb >= 1 else sum(socks)
            for c in socks:
                if left <= 0:
                    break
                want.append(min(c, left)); left -= c
            if not socks:
                want = [nb]
        elif sk == 'rr':
            m = re.match(r'^(?:display:)?rr:\s*\+?(\d+):\s*\+?(\d+):\s*\+?(\d+)', spec)
            want = [int(m.group(2))] * int(m.group(1))
        elif sk == 'file':
            fi = file_intent(fc)
            if fi is None:
                want = [nb]                  # malformed content: rejected, default map
            elif fi == []:
                want = None                  # no entry for this process: "create one VP" — any non-empty map is accepted
                if nvp < 1:
                    V.append(('%s:file:zero-vp' % kind, 'vpmap file without an entry for this process left the runtime with %d virtual processes (the code announces one VP)' % nvp))
            else:
                want = fi
        got = [n for n, _ in vps]
        if want is not None and got != want:
            V.append(('%s:%s:wrong-counts' % (kind, sk), 'specification %r with nb_cores=%d: threads per VP %s, specified %s' % (spec, nb, got, want)))
        if total != sum(got):
            V.append(('%s:%s:total-threads' % (kind, sk), 'parsec_vpmap_get_nb_total_threads() = %d but the VPs have %d threads (%s)' % (total, sum(got), got)))
        # --- every binding inside the available cores
        limit = max(R, sum(socks)) if sk == 'hwloc' else R
        for v, (n, thr) in enumerate(vps):
            for t, (nbc, ht, bits, inf) in enumerate(thr):
                if bits is None:
                    continue
                if inf is not None or any(b >= limit for b in bits):
                    V.append(('%s:%s:binding-out-of-range%s' % (kind, sk, ':oversubscribed' if nb > R else ''),
                              'VP %d thread %d candidate set %s is not inside [0,%d) (nb_cores=%d, spec %r)' % (v, t, ('%s + [%d,inf)' % (bits, inf)) if inf is not None else bits, limit, nb, spec)))
                    break
            else:
                continue
            break
        return V
    if kind == 'bind':
        nbth = int(w[2]); b = dec(w[3])
        mode = 'mask' if 'x' in b else ('range' if ';' in b else 'list')
        if res == 'crash' or res == 'hang':
            V.append(('bind:%s:%s' % (mode, why_kind(why) if res == 'crash' else 'hang'), 'binding %r for %d threads made parse_binding_parameter %s: %s' % (b, nbth, res, ' / '.join(why)[:300])))
            return V
        if res == 'fatal':
            if binding_wellformed(b) and not (mode == 'mask' and int(b[2:], 16) == 0):
                V.append(('bind:%s:fatal' % mode, 'well-formed binding %r ended in parsec_fatal' % b))
            return V
        thr = parse_sets(res)
        if len(thr) != nbth:
            V.append(('bind:%s:wrong-counts' % mode, '%d threads described, %d requested' % (len(thr), nbth)))
        for t, (nbc, ht, bits, inf) in enumerate(thr):
            if bits is None:
                continue
            if inf is not None or any(x >= R for x in bits):
                cls = 'unbound-bit' if bits == [4294967295] else 'binding-out-of-range'
                V.append(('bind:%s:%s' % (mode, cls), 'binding %r: thread %d is given cores %s, not inside [0,%d)' % (b, t, bits, R)))
                break
        return V
    if kind in ('bmap', 'dflt'):
        allowed = [int(x) for x in w[2].split(',')] if w[2] != '-' else []
        what = dec(w[5]) if kind == 'bmap' else dec(w[6])
        if res == 'crash' or res == 'hang':
            cls = why_kind(why) if res == 'crash' else 'hang'
            if kind == 'dflt':
                nb = int(w[5])
                cls += ':oversubscribed' if nb > R else ''
            V.append(('%s:%s' % (kind, cls), '%s %r made the real code %s: %s' % ('bind_map' if kind == 'bmap' else 'default placement for vpmap', what, res, ' / '.join(why)[:300])))
            return V
        if res == 'notfound':
            return V
        m = re.search(r'bind=(\[[^\]]*\]) used=(\[[^\]]*\])', res)
        binds, used = intlist(m.group(1)), intlist(m.group(2))
        n = int(w[3]) if kind == 'bmap' else None
        if n is not None and len(binds) != n:
            V.append(('bmap:wrong-counts', '%d placements for %d threads' % (len(binds), n)))
        bad = [x for x in binds if x != -1 and x not in allowed]
        if bad:
            V.append(('%s:binding-not-allowed' % kind, '%r: threads bound to %s, allowed cores are %s' % (what, bad, allowed)))
        if sorted(set(x for x in binds if x >= 0)) != used:
            V.append(('%s:used-mask' % kind, 'used mask %s does not equal the set of bound cores %s' % (used, binds)))
        return V
    return V


# ------------------------------------------------------------------ running
def build_harness(ctx, res):
    """compile harness/C40.c (vpmap.c + parsec.c are #included) with ASan/UBSan; cached on the hash of the preprocessed source"""
    src = os.path.join(pv.ROOT, 'harness', 'C40.c')
    mc, _ = pv.mpi_flags()
    extra = ['-O0', '-DNDEBUG', '-Wl,--no-as-needed', '-lhwloc']
    cmd = ['gcc', '-E', '-P', '-DNDEBUG', '-DBUILDING_PARSEC', '-DPARSEC_VERIF', '-I' + os.path.join(pv.ROOT, 'harness', 'common'), '-I' + pv.REPO,
           '-I' + os.path.join(pv.REPO, 'parsec', 'include'), '-I' + ctx.build, '-I' + os.path.join(ctx.build, 'parsec', 'include')] + mc + [src]
    rc, out, err = pv.sh(cmd, timeout=300)
    if rc != 0:
        res.infra_errors.append('harness preprocess failed: ' + err[-1500:]); return None
    h = hashlib.sha256((out + ' '.join(extra) + ctx.build).encode()).hexdigest()[:16]
    cdir = os.path.join(pv.WORK, 'cache'); os.makedirs(cdir, exist_ok=True)
    exe = os.path.join(cdir, 'C40-' + h)
    if not os.path.exists(exe):
        tmp = exe + '.tmp%d' % os.getpid()
        ok, log = pv.cc_harness(src, tmp, ctx.build, sanitize=True, extra=extra)
        if not ok:
            res.infra_errors.append('harness compile failed: ' + log[-1500:]); return None
        os.replace(tmp, exe)
        for f in sorted(os.listdir(cdir)):            # keep the cache small
            p = os.path.join(cdir, f)
            if f.startswith('C40-') and p != exe and os.path.getmtime(p) < os.path.getmtime(exe) - 6 * 3600:
                os.unlink(p)
    return exe


def henv(env):
    e = {'ASAN_OPTIONS': 'detect_leaks=0:symbolize=0:allocator_may_return_null=1', 'UBSAN_OPTIONS': 'print_stacktrace=0', 'HWLOC_PLUGINS_PATH': '/nonexistent'}     # no GPU/PCI plugins: 1 s less per start
    e.update(env)
    return e


def topo(exe, env, cwd):
    """(R, sockets) of a topology.  Synthetic ones are computed; the machine's is asked once per harness binary and cached;
    the harness answers `bad-topo` to any operation whose R / sockets differ from what it sees, so a wrong guess cannot pass."""
    m = re.match(r'^package:(\d+) core:(\d+) pu:1$', env.get('HWLOC_SYNTHETIC', ''))
    if m:
        return int(m.group(1)) * int(m.group(2)), [int(m.group(2))] * int(m.group(1))
    cf = exe + '.topo'
    if os.path.exists(cf):
        R, socks = json.load(open(cf))
    else:
        rc, out, err = pv.sh([exe, 'topo'], env=henv({}), cwd=cwd, timeout=120)
        mm = re.search(r'R (\d+) sockets (\S+)', out)
        if not mm:
            return None
        R, socks = int(mm.group(1)), ([int(x) for x in mm.group(2).split(',')] if mm.group(2) != '-' else [])
        json.dump([R, socks], open(cf, 'w'))
    k = int(env.get('C40_AFFINITY', '0') or 0)
    return (min(k, R) if k > 0 else R), socks


def run_real(exe, env, cwd, ops, timeout=3000):
    rc, out, err = pv.sh([exe], input='\n'.join(ops) + '\n', env=henv(env), cwd=cwd, timeout=timeout)
    results, whys = [], []
    for ln in out.splitlines():
        if ln.startswith('#why'):
            if whys:
                whys[-1].append(ln[5:].strip())
            continue
        if ' => ' in ln:
            results.append(ln.split(' => ', 1)[1].strip()); whys.append([])
        elif ln.strip():
            results.append('<no-result>'); whys.append([])
    return results, whys, rc, err


def load_corpus():
    cs = []
    d = os.path.join(pv.ROOT, 'corpus', PROP)
    if os.path.isdir(d):
        for f in sorted(os.listdir(d)):
            if f.endswith('.case'):
                env, ops, slow = {}, [], False
                for l in open(os.path.join(d, f)):
                    l = l.rstrip('\n')
                    if l.startswith('#env '):
                        k, _, v = l[5:].partition('='); env[k.strip()] = v.strip()
                    elif l.startswith('#slow'):
                        slow = True
                    elif l.strip() and not l.startswith('#'):
                        ops.append(l.strip())
                cs.append({'name': f, 'env': env, 'ops': ops, 'slow': slow})
    return cs


def groups(rng, quick):
    g = [{}]
    affs = [1, 2, 3, 5, 6, 7, 11, 13]
    for _ in range(1 if quick else 3):
        g.append({'C40_AFFINITY': str(rng.choice(affs))})
    for _ in range(2 if quick else 8):
        s, c = rng.choice([(1, 1), (1, 2), (1, 4), (2, 2), (2, 3), (3, 2), (2, 4), (4, 2), (1, 8), (3, 3), (2, 6), (4, 4), (2, 10), (1, 20), (3, 5), (5, 1), (6, 4)])
        g.append({'HWLOC_SYNTHETIC': 'package:%d core:%d pu:1' % (s, c)})
    return g


def shrink_string(exe, env, cwd, op, key, pos, rounds=3):
    """shrink the string argument `pos` of `op`, preserving the violation key: each round tries every removal of a
    chunk (halves, quarters, ... single characters) in ONE harness run and keeps the shortest survivor"""
    w = op.split(' ')
    s = dec(w[pos])
    if s is None:
        return op
    for _ in range(rounds):
        cands, size = [], max(1, len(s) // 2)
        while size >= 1 and len(cands) < 60:
            for a in range(0, len(s), size):
                c = s[:a] + s[a + size:]
                if c != s and c not in cands:
                    cands.append(c)
            size //= 2
        if not cands:
            break
        ops2 = []
        for c in cands:
            w2 = list(w); w2[pos] = enc(c); ops2.append(' '.join(w2))
        # never run a reduction that the model predicts to be slow (512 MiB bitmaps, time-outs)
        rcd, mm, _ = pv.run_driver('pv_C40', ops2)
        if rcd == 0 and len(mm) == len(ops2):
            keep = [i for i, m in enumerate(mm) if '4294967295' not in m and m != 'hang']
            cands, ops2 = [cands[i] for i in keep], [ops2[i] for i in keep]
        if not ops2:
            break
        r, y, _, _ = run_real(exe, env, cwd, ops2, timeout=600)
        if len(r) != len(ops2):
            break
        ok = [c for c, o2, rr, yy in zip(cands, ops2, r, y) if any(rootkey(k) == key for k, _ in oracle(o2, rr, yy))]
        if not ok:
            break
        s = min(ok, key=len)
    w2 = list(w); w2[pos] = enc(s)
    return ' '.join(w2)


def run(ctx, res, cases=None):
    t_start = time.time()
    exe = build_harness(ctx, res)
    if exe is None:
        return
    timing = {'before_run_s': round(t_start - ctx.t0, 1), 'harness_build_s': round(time.time() - t_start, 1), 'model_s': 0.0, 'real_s': 0.0}
    cwd = ctx.run_dir
    rng = pv.Rng(ctx.seed)
    known = set(k['key'] for k in pv.known_findings(PROP))
    budget_crash = 16 if ctx.quick else 400          # a dying worker costs ~0.3 s here
    budget_slow = 0 if ctx.quick else 4              # bit 2^32-1 = a 512 MiB bitmap per thread (seconds each)
    budget_hang = 0 if ctx.quick else 2              # 10 s timeout each
    work = []                                        # (env, R, socks, ops, tag)
    corpus = load_corpus()
    if cases is not None:
        for c in cases:
            work.append((c.get('env', {}), None, None, c['ops'], 'replay'))
    else:
        merged = {}
        for c in corpus:
            if c['slow'] and ctx.quick:
                continue
            merged.setdefault(json.dumps(c['env'], sort_keys=True), []).extend(c['ops'])
        for e, o in merged.items():
            work.append((json.loads(e), None, None, o, 'corpus'))
        gs = groups(rng, ctx.quick)
        per = (720 if ctx.quick else 24000) // len(gs)
        for gi, env in enumerate(gs):
            t = topo(exe, env, cwd)
            if t is None:
                res.notes.append('topology %s unavailable on this machine: group skipped' % env); continue
            R, socks = t
            r = rng.fork(1000 + gi)
            ops = gen_ops(r, R, socks, per)
            if not ctx.quick:
                ops += [gen_bind(r.fork(7000 + i), R, short=True) for i in range(3)]
                ops += ['dflt %d %s 0 %s %d NULL -' % (R, clist(range(R)), clist(socks), R + 1)]
            work.append((env, R, socks, ops, 'gen'))
    hist, classes, outcomes = {}, {}, {}
    seen_keys = {}
    n_groups = 0
    n_shrunk = 0
    for env, R, socks, ops, tag in work:
        ops = list(dict.fromkeys(ops))
        model = None
        if ctx.driver_ok:
            t1 = time.time()
            rcd, model, derr = pv.run_driver('pv_C40', ops)
            timing['model_s'] = round(timing['model_s'] + time.time() - t1, 1)
            if rcd != 0 or len(model) != len(ops):
                res.disagreements.append({'op': '<driver>', 'impl': '', 'model': 'driver exit %d, %d lines for %d ops: %s' % (rcd, len(model), len(ops), derr[-300:])})
                model = None
        if tag == 'gen' and model is not None:
            # the model's prediction is used ONLY to keep the costly executions (dying worker, 512 MiB bitmaps, time-outs) within budget
            keep = []
            for o, m in zip(ops, model):
                if m in ('crash', 'fatal'):
                    if budget_crash <= 0:
                        continue
                    budget_crash -= 1
                elif m == 'hang':
                    if budget_hang <= 0:
                        continue
                    budget_hang -= 1
                elif '4294967295' in m:
                    if budget_slow <= 0:
                        continue
                    budget_slow -= m.count('4294967295')
                keep.append((o, m))
            ops, model = [o for o, _ in keep], [m for _, m in keep]
        if not ops:
            continue
        t1 = time.time()
        impl, whys, rc, err = run_real(exe, env, cwd, ops)
        timing['real_s'] = round(timing['real_s'] + time.time() - t1, 1)
        n_groups += 1
        if len(impl) != len(ops):
            res.infra_errors.append('harness produced %d results for %d ops (rc=%s): %s' % (len(impl), len(ops), rc, err[-500:]))
            continue
        for i, (o, r) in enumerate(zip(ops, impl)):
            res.evaluations += 1
            k0 = o.split(' ')[0]
            hist[k0] = hist.get(k0, 0) + 1
            oc = r.split(' ')[0]
            outcomes[oc] = outcomes.get(oc, 0) + 1
            if r == 'bad-topo' and tag.startswith('corpus'):
                res.notes.append('corpus op not applicable to this topology: ' + o)
            if model is not None and r != model[i]:
                if len(res.disagreements) < 20:
                    res.disagreements.append({'case': {'env': env, 'ops': [o]}, 'op': o, 'impl': r, 'model': model[i], 'why': whys[i]})
            for raw, text in oracle(o, r, whys[i]):
                key = rootkey(raw)
                classes[key] = classes.get(key, 0) + 1
                if key in seen_keys:
                    continue
                seen_keys[key] = o
                small = o
                if key not in known and cases is None and n_shrunk < 2:
                    pos = {'bind': 3, 'init': 5, 'bmap': 5}.get(k0)
                    if pos is not None:
                        n_shrunk += 1
                        small = shrink_string(exe, env, cwd, o, key, pos)
                res.violations.append({'key': key, 'what': text, 'case': {'env': env, 'ops': [small]}, 'first_seen': o, 'seed': ctx.seed})
            if oc == 'ok' and re.search(r'\[\d|bind=\[-?\d', r):
                res.nontrivial(json.dumps(env, sort_keys=True) + ' ' + o)
        if len(res.samples) < 6:
            for o, r in list(zip(ops, impl))[:2]:
                res.samples.append({'env': env, 'op': o, 'decoded': [dec(t) for t in o.split(' ') if t.startswith('=')], 'impl': r})
    res.traces_validated = res.evaluations
    res.rule = ('corpus cases first; then per hwloc topology (the machine, the machine restricted to k CPUs by sched_setaffinity, synthetic package:S core:C topologies) generated operations: '
                'bind (parse_binding_parameter on core lists / start;end;step / hex masks / noise), init (parsec_vpmap_init on NULL, flat, hwloc, rr:n:p:c, file:<generated file>, unknown words, display: prefixes; '
                'nb_cores 1..R+4; singlify -1/0/1/2), flat, hwloc, bmap (parsec_parse_binding_parameter on numbers / a:b:c ranges / masks / mixtures / file:), dflt (map + default placement). '
                'Executions predicted to die, to allocate 512 MiB bitmaps or to time out are kept within a per-run budget (%s). distinct = distinct (topology, operation line); non-trivial = the real code '
                'returned a map/placement with at least one bound thread' % ('quick: 16 dying, 0 slow' if ctx.quick else 'thorough: 400 dying, 4 slow, 2 time-outs'))
    res.extra['input_distribution'] = {'op_histogram': hist, 'outcome_histogram': outcomes, 'oracle_classes': classes, 'topologies': n_groups, 'corpus_cases': len(corpus)}
    res.extra['exhaustive'] = False
    res.extra['timing'] = timing


def replay(ctx, res, data):
    cases = [v['case'] for v in data.get('violations', []) if isinstance(v.get('case'), dict)] + \
            [d['case'] for d in data.get('disagreements', []) if isinstance(d.get('case'), dict)]
    run(ctx, res, cases=cases or None)
