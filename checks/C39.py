"""C39 — argument-vector utilities are consistent (parsec/utils/argv.c, parsec/utils/cmd_line.c)."""
import os, re, pv
PROP = 'C39'
LEAN_MODULE = 'ParsecVerif.Props.C39'
DRIVERS = ['pv_C39']
THEOREMS = ['ParsecVerif.C39.join_fields',
            'ParsecVerif.C39.split_join',
            'ParsecVerif.C39.join_split',
            'ParsecVerif.C39.splitWithEmpty_join',
            'ParsecVerif.C39.join_splitWithEmpty',
            'ParsecVerif.C39.splitWithEmptyBuggy_join',
            'ParsecVerif.C39.splitWithEmptyBuggy_loses_field',
            'ParsecVerif.C39.joinRange_spec',
            'ParsecVerif.C39.delete_spec',
            'ParsecVerif.C39.delete_noop',
            'ParsecVerif.C39.delete_argc',
            'ParsecVerif.C39.deleteBuggy_spec',
            'ParsecVerif.C39.deleteBuggy_argc_inconsistent',
            'ParsecVerif.C39.insert_spec',
            'ParsecVerif.C39.insert_noop',
            'ParsecVerif.C39.insertElement_spec',
            'ParsecVerif.C39.copy_eq',
            'ParsecVerif.C39.parse_wellformed',
            'ParsecVerif.C39.parse_queries',
            'ParsecVerif.C39.parse_bundle',
            'ParsecVerif.C39.parse_no_double_free',
            'ParsecVerif.C39.parseBuggy_double_free_witness',
            'ParsecVerif.C39.appendTail_fresh',
            'ParsecVerif.C39.handle_parse_reset',
            'ParsecVerif.C39.handle_parse_empty',
            'ParsecVerif.C39.handle_last_parse_only',
            'ParsecVerif.C39.handle_parse_opts']
IMPL = 'parsec/utils/argv.c, parsec/utils/cmd_line.c'
ENGINE = 'lean-seq'
LEVEL = 'proof'
LEVEL_TEXT = ('Lean 4 theorems, for all byte strings, delimiters, vectors, positions and option tables: split/join round trips in both directions '
              '(join(split s d) = s with its empty fields removed; split(join v) = v for delimiter-free non-empty fields; join(split_with_empty s d) = s for EVERY string and '
              'split_with_empty(join v) = v; join_range = join of the addressed slice), delete and insert/insert_element change exactly the addressed positions (element-wise '
              'characterisation incl. clamping) and delete always leaves argc equal to the vector length, copy is the identity, and parse of any well-formed command line (declared '
              'options with their parameter counts, then nothing / `--` tail / an unrecognised token / an unknown option / an option lacking parameters) reports exactly the option '
              'instances with their parameters in order, exactly the tail and the return code; a bundle of short options parses like its expansion; no parse whatsoever frees a '
              'parameter vector twice; one handle parsed any number of times (free_parse_results modelled field by field) answers every query (get_tail count and vector, get_argc/argv, '
              'get_ninsts/get_param) for the LAST parse only. Three defects found by this check were repaired in /repo (8e71ed6, ecccfcb, 16257ae); the previous behaviour is kept as *Buggy definitions with '
              'witness theorems refuting the statements for it. The models mirror argv.c / cmd_line.c branch by branch and are tied to the current source on every run by corpus and random '
              'operation scripts executed on the real functions (the two source files are compiled into the ASan/UBSan harness) and compared line by line with the compiled Lean model; an '
              'independent Python oracle written from the property text and the header documentation is evaluated on the outputs of the real code.')
LEVEL_NOTE = ('Theorems are about the Lean models; the tie to the C code is differential testing. Not modelled: allocation failure paths, set_dest (destination variables, MCA '
              'environment export), the usage message, int overflow of start+num, delimiters outside 1..127 (char signedness). The parse theorem covers well-formed lines; the '
              'behaviour on malformed lines (unknown options, missing parameters, unknown letters in bundles) is modelled and differentially checked but only the error/tail shape is stated. '
              'The parse loop model uses fuel (bytes+tokens+1); sufficiency is proved for well-formed lines and observed (never exhausted) on all generated lines.')
TECHNIQUE = 'Lean 4 proofs (structural/strong induction over strings, vectors and token lists) on hand-written models mirroring the C code, tied by differential correspondence with the real functions'
ASSUMPTIONS = ['strings contain no NUL byte; delimiters are in 1..127; argc passed to parse equals the vector length',
               'malloc/realloc/strdup succeed', 'options have no destination variable / MCA parameter (set_dest is then a no-op)']

SPECIAL = ''.join(chr(i) for i in range(1, 11))
SAFE = set('abcdefghijklmnopqrstuvwxyzABCDEFGHIJKLMNOPQRSTUVWXYZ0123456789,.:;_=+/-')


def enc(s):
    if s is None:
        return 'NULL'
    if s and all(c in SAFE for c in s):
        return "'" + s
    return 'x' + ''.join('%02x' % ord(c) for c in s)


def dec(w):
    if w == 'NULL':
        return None
    if w.startswith("'"):
        return w[1:]
    return ''.join(chr(int(w[1 + 2 * i:3 + 2 * i], 16)) for i in range((len(w) - 1) // 2))


def dec_vec(t):
    t = t.strip()
    if t == 'NULL':
        return None
    assert t[0] == '[' and t[-1] == ']', t
    return [dec(w) for w in t[1:-1].split()]


# ------------------------------------------------------------------ generator
def rnd_str(rng, alpha, lo, hi):
    return ''.join(rng.choice(alpha) for _ in range(rng.range(lo, hi)))


def gen_word(rng):
    r = rng.below(20)
    if r == 0:
        return ''
    if r == 1:
        return rnd_str(rng, [chr(c) for c in (1, 9, 32, 39, 127, 128, 200, 255, 97)], 1, 4)
    if r == 2:
        return rng.choice(['-', '--', '-a', ',', 'a,b'])
    return rnd_str(rng, 'abc', 1, 3)


def gen_split_string(rng, d):
    r = rng.below(12)
    if r == 0:
        return ''
    if r == 1:   # the ARGSIZE boundary (128-byte stack buffer): fields of 126..130 bytes
        return d.join('k' * rng.choice([126, 127, 128, 129, 130, 300]) for _ in range(rng.range(1, 3))) + rng.choice(['', d, 'z'])
    if r == 2:
        return rnd_str(rng, [d], 1, 4)
    alpha = ['a', 'b', d, d, rng.choice([':', ';', 'c', chr(200)])]
    return rnd_str(rng, alpha, 1, 14)


LONGS = ['alpha', 'beta', 'gamma', 'np', 'ab', 'help', 'a', 'x-y', '']
SDS = ['np', 'v', 'xy', 'ab', 'bc', 'q', 'alpha']
SHORTS = 'abcdefq'


def gen_table(rng):
    n = rng.range(0, 6)
    collide = rng.chance(1, 6)
    used = set()
    tab = []
    for _ in range(n):
        for _try in range(8):
            sh = rng.choice(SHORTS) if rng.chance(3, 4) else None
            sd = rng.choice(SDS) if rng.chance(1, 4) else None
            lg = rng.choice(LONGS) if rng.chance(2, 3) else None
            names = [x for x in (sh, sd, lg) if x is not None]
            if collide or (not (set(names) & used) and len(set(names)) == len(names)):
                break
        else:
            continue
        if not names and not rng.chance(1, 30):
            sh = rng.choice(SHORTS); names = [sh]
            if not collide and sh in used:
                continue
        used |= set(names)
        np_ = rng.choice([0, 0, 1, 1, 2, 3]) if not rng.chance(1, 60) else -1
        tab.append((sh, sd, lg, np_))
    return tab


def gen_param(rng):
    r = rng.below(14)
    if r == 0:
        return rng.choice(['-a', '--', '-', '--alpha', ''])
    if r == 1 and rng.chance(1, 4):
        return SPECIAL
    return rnd_str(rng, 'pq12', 1, 3)


def opt_token(rng, o):
    sh, sd, lg, _ = o
    forms = []
    if sh is not None:
        forms += ['-' + sh] * 3 + ['--' + sh]
    if sd is not None:
        forms += ['-' + sd] * 2 + ['--' + sd]
    if lg is not None:
        forms += ['--' + lg] * 3 + ['-' + lg]
    return rng.choice(forms) if forms else '-?'


def gen_argv(rng, tab, tail_mode=None):
    """argument vector for the option table `tab`; tail_mode: None random, 0 no tail, 1 `--` tail, 2 unknown-token tail"""
    argv = [rng.choice(['prog', 'a.out', '-x'])] if not rng.chance(1, 40) else []
    good = [o for o in tab if o[3] >= 0]
    shorts = [o for o in good if o[0] is not None]
    ngroups = rng.range(0, 6)
    for _ in range(ngroups):
        r = rng.below(20)
        if r < 12 and good:
            o = rng.choice(good)
            argv.append(opt_token(rng, o))
            npar = o[3] if not rng.chance(1, 12) else max(0, o[3] - 1)
            argv += [gen_param(rng) for _ in range(npar)]
        elif r < 17 and shorts:
            letters = [rng.choice(shorts) for _ in range(rng.range(2, 4))]
            tok = '-' + ''.join(o[0] for o in letters)
            if rng.chance(1, 8):
                tok += rng.choice('xyz')
            argv.append(tok)
            need = sum(o[3] for o in letters)
            have = need if not rng.chance(1, 5) else rng.range(0, need)
            argv += [gen_param(rng) for _ in range(have)]
        elif r == 17 and tail_mode is None:
            argv.append(rng.choice(['-z', '--zeta', '-', '-zz', '--']))
        elif r == 18 and tail_mode is None:
            argv.append(gen_word(rng))
    r = rng.below(6) if tail_mode is None else (5, 0, 1)[tail_mode]
    if r == 0:
        argv += ['--'] + [gen_word(rng) for _ in range(rng.range(0 if tail_mode is None else 1, 3))]
    elif r == 1:
        argv += [rnd_str(rng, 'tuv', 1, 3)] + [gen_word(rng) for _ in range(rng.range(0, 3))]
    return argv


def table_words(tab):
    words = []
    for sh, sd, lg, np_ in tab:
        words += [str(ord(sh)) if sh else '0', enc(sd), enc(lg), str(np_)]
    return words


def gen_parse(rng):
    tab = gen_table(rng)
    return ' '.join(['parse', str(rng.below(2)), str(len(tab))] + table_words(tab) + [enc(a) for a in gen_argv(rng, tab)])


def gen_queries(rng, tab, n):
    ops = []
    names = [x for o in tab for x in names_of(o)] + ['zz', 'a', '']
    for _ in range(n):
        r = rng.below(10)
        if r < 2:
            ops.append('hdump')
        elif r < 5:
            ops.append('htail')
        elif r < 7:
            ops.append('hninsts ' + enc(rng.choice(names)))
        elif r < 9:
            ops.append('hparam %s %d %d' % (enc(rng.choice(names)), rng.below(3), rng.below(4)))
        else:
            ops.append('hargv %d' % rng.range(-1, 8))
    return ops


def gen_handle(rng):
    """ONE handle parsed 2..4 times (free_parse_results between), with and without tail, options added in between, queried after each"""
    tab = gen_table(rng)
    ops = ['hnew %d %s' % (len(tab), ' '.join(table_words(tab)))]
    tab = [o for o in tab]
    ok = []
    for o in tab:          # the harness stops at the first refused entry
        if o[3] < 0 or not names_of(o):
            break
        ok.append(o)
    tab = ok
    modes = [rng.choice([None, 0, 1, 2]) for _ in range(rng.range(2, 4))]
    if rng.chance(1, 2):   # a parse that leaves a tail directly followed by one that leaves none
        k = rng.below(len(modes) - 1)
        modes[k], modes[k + 1] = rng.choice([1, 2]), 0
    for m in modes:
        if rng.chance(1, 6) and len(tab) < 8:
            extra = gen_table(rng)[:1]
            for o in extra:
                ops.append('haddopt ' + ' '.join(table_words([o])))
                if o[3] >= 0 and names_of(o):
                    tab.append(o)
        if rng.chance(1, 15):
            ops.append('hparse %d' % rng.below(2))      # argc == 0: nothing may change
        else:
            ops.append(' '.join(['hparse', str(rng.below(2))] + [enc(a) for a in gen_argv(rng, tab, m)]))
        ops += gen_queries(rng, tab, rng.range(0, 3))
    return ops


def gen_case(rng, length):
    ops = []
    n_guess = 0
    for _ in range(length):
        r = rng.below(100)
        if rng.chance(1, 12):
            ops += gen_handle(rng)
            continue
        if r < 8:
            k = rng.range(0, 6)
            ops.append(' '.join(['setv'] + [enc(gen_word(rng)) for _ in range(k)])); n_guess = k
        elif r < 10:
            ops.append('null'); n_guess = 0
        elif r < 16:
            ops.append('append ' + enc(gen_word(rng))); n_guess += 1
        elif r < 19:
            ops.append(rng.choice(['appendn ', 'prepend ']) + enc(gen_word(rng))); n_guess += 1
        elif r < 22:
            ops.append('appendu %s %d' % (enc(gen_word(rng)), rng.below(2))); n_guess += 1
        elif r < 32:
            start = rng.range(-1, n_guess + 2)
            src = 'NULL' if rng.chance(1, 10) else ' '.join(enc(gen_word(rng)) for _ in range(rng.range(0, 3)))
            ops.append(('insert %d %s' % (start, src)).strip()); n_guess += 2
        elif r < 38:
            ops.append('inselt %d %s' % (rng.range(-1, n_guess + 2), 'NULL' if rng.chance(1, 10) else enc(gen_word(rng)))); n_guess += 1
        elif r < 50:
            ops.append('delete %d %d' % (rng.range(-1, n_guess + 2), rng.choice([0, 1, 1, 2, 3, -1, n_guess, n_guess + 1, 7])))
        elif r < 53:
            ops.append(rng.choice(['count', 'len', 'copy']))
        elif r < 58:
            ops.append('join %d' % ord(rng.choice(',: a')))
        elif r < 64:
            a = rng.range(0, n_guess + 2)
            ops.append('joinr %d %d %d' % (a, rng.choice([a, a + 1, a + 2, n_guess, n_guess + 3, 0]), ord(rng.choice(',:'))))
        elif r < 80:
            d = rng.choice(',,:; ')
            ops.append('%s %s %d' % (rng.choice(['split', 'splite', 'splite']), enc(gen_split_string(rng, d)), ord(d)))
        elif r < 99:
            ops.append(gen_parse(rng))
        else:
            ops.append(rng.choice(['join 0', 'join 200', 'split x00 44', 'frobnicate', 'delete 1', 'delete 2000000 1', 'append NULL', 'setv xzz',
                                   'parse 0 1 97 NULL', 'parse 2 0', 'parse 0 40', 'joinr -1 2 44', 'inselt 1 x0', 'split \'a 44 3']))
    return ops


# ------------------------------------------------------------------ independent oracle (property text + header docs)
def parse_op_words(op):
    """decode a `parse` op -> (ign, table, argv) or None if not well-formed"""
    w = op.split()
    try:
        ign, n = int(w[1]), int(w[2])
        tab = []
        for k in range(n):
            f = w[3 + 4 * k:7 + 4 * k]
            tab.append((chr(int(f[0])) if int(f[0]) else None, dec(f[1]), dec(f[2]), int(f[3])))
        argv = [dec(x) for x in w[3 + 4 * n:]]
        if any(a is None for a in argv) or len(w) < 3 + 4 * n:
            return None
        return ign, tab, argv
    except (ValueError, IndexError):
        return None


def names_of(o):
    return [x for x in (o[0], o[1], o[2]) if x is not None]


def ref_parse(ign, tab, argv):
    """Reference semantics written from cmd_line.h: returns dict(rc_ok, insts{k: [params]}, tail, argv, clear, partial_special).
    `clear` is False when the documentation does not determine the outcome (a name declared twice, letters of a
    bundle that are not declared short names)."""
    allnames = [n for o in tab for n in names_of(o)]
    clear = len(allnames) == len(set(allnames))

    def find(name):
        for k, o in enumerate(tab):
            if name in (o[1], o[2]) or (len(name) == 1 and name == o[0]):
                return k
        return None
    insts = {k: [] for k in range(len(tab))}
    toks = list(argv)
    i = 1
    ok = True
    tail = []
    partial_special = False
    steps = 0
    while i < len(toks):
        steps += 1
        if steps > 100000:
            clear = False; break
        t = toks[i]
        if t == '--':
            tail = toks[i + 1:]; break
        if not t.startswith('-'):
            tail = toks[i:]; ok = ok and bool(ign); break
        k = find(t[2:]) if t.startswith('--') else find(t[1:])
        if k is None and not t.startswith('--'):
            letters = t[1:]
            if letters and all(find(c) is not None for c in letters):
                # "-abc" is equivalent to "-a -b -c", parameters are taken in order from what follows
                exp, used, rest = [], 0, toks[i + 1:]
                for c in letters:
                    exp.append('-' + c)
                    for _ in range(tab[find(c)][3]):
                        if used < len(rest):
                            exp.append(rest[used]); used += 1
                        else:
                            exp.append(SPECIAL)
                toks = toks[:i] + exp + rest[used:]
                t = toks[i]; k = find(t[1:])
            elif letters and find(letters[0]) is not None and ign:
                clear = False     # unknown letters inside a bundle while ignoring unknowns: not specified
                exp, used, rest = [], 0, toks[i + 1:]
                for c in letters:
                    exp.append('-' + c)
                    if find(c) is not None:
                        for _ in range(tab[find(c)][3]):
                            if used < len(rest):
                                exp.append(rest[used]); used += 1
                            else:
                                exp.append(SPECIAL)
                toks = toks[:i] + exp + rest[used:]
                t = toks[i]; k = find(t[1:])
        if k is None:
            tail = toks[i:]; ok = False; break
        n = tab[k][3]
        ps = []
        err = False
        j = i + 1
        for q in range(n):
            if j >= len(toks):
                err = True; tail = []; break
            if toks[j] == SPECIAL:
                err = True; tail = toks[j:]; partial_special = q >= 1; break
            ps.append(toks[j]); j += 1
        if err:
            ok = False; break
        insts[k].append(ps)
        i = j
    return {'ok': ok, 'insts': insts, 'tail': tail, 'argv': toks, 'clear': clear, 'partial_special': partial_special, 'find': find}


def parse_result(r):
    """decode the harness result line of a parse op"""
    m = re.match(r'(?:rc=(-?\d+) )?argv=(-?\d+):(\[.*?\])(!count=\d+)? tail=(-?\d+):(NULL|\[.*?\]) q=(.*)$', r)
    if not m:
        return None
    q = {}
    toks = m.group(7).split()
    i = 0
    while i < len(toks):
        key, n = toks[i].split(':')
        bad = n.endswith('!taken')
        n = int(n.replace('!taken', ''))
        i += 1
        il = []
        for _ in range(n):
            assert toks[i] == '('
            i += 1
            ps = []
            while toks[i] != ')':
                ps.append(dec(toks[i])); i += 1
            i += 1
            il.append(ps)
        q[key] = (n, il, bad)
    return {'rc': int(m.group(1)) if m.group(1) is not None else None, 'argc': int(m.group(2)), 'argv': dec_vec(m.group(3)), 'countbad': m.group(4),
            'tailc': int(m.group(5)), 'tail': dec_vec(m.group(6)), 'q': q}


def find_in(tab, name):
    for k, o in enumerate(tab):
        if name in (o[1], o[2]) or (len(name) == 1 and name == o[0]):
            return k
    return None


def table_clear(tab):
    allnames = [n for o in tab for n in names_of(o)]
    return len(allnames) == len(set(allnames))


EMPTY_REF = {'ok': True, 'insts': {}, 'tail': [], 'argv': [], 'clear': True}


def check_dump(o, res, tab, ref, fails):
    """`reports each declared option with its parameters and leaves the remaining arguments as the tail`, evaluated on a dump
    (argv through get_argc/get_argv, tail through get_tail, instances through get_ninsts/get_param) against the reference `ref`."""
    if res['countbad'] or res['argc'] != len(res['argv']):
        fails.append((None, '%s: get_argc disagrees with the stored vector' % o))
    if any(v[2] for v in res['q'].values()):
        fails.append((None, '%s: is_taken disagrees with get_ninsts' % o))
    if (res['tail'] or []) and res['argv'][-len(res['tail']):] != res['tail']:
        fails.append((None, '%s: the tail %r is not the end of the argument vector %r' % (o, res['tail'], res['argv'])))
    if res['tailc'] != len(res['tail'] or []):
        fails.append((None, '%s: tail count %d but %d tail strings (%r)' % (o, res['tailc'], len(res['tail'] or []), res['tail'])))
    if ref is None or not ref['clear'] or not table_clear(tab):
        return
    if res['rc'] is not None and (res['rc'] == 0) != ref['ok']:
        fails.append((None, '%s: return code %d, expected %s' % (o, res['rc'], 'success' if ref['ok'] else 'an error')))
    if (res['tail'] or []) != ref['tail']:
        fails.append((None, '%s: tail %r, expected %r (the tail of the last parse)' % (o, res['tail'], ref['tail'])))
    if res['argv'] != ref['argv']:
        fails.append((None, '%s: stored argv %r, expected %r' % (o, res['argv'], ref['argv'])))
    for k, ob in enumerate(tab):
        for form, name in zip('sdl', ob[:3]):
            if name is None:
                continue
            got = res['q'].get('%d%s' % (k, form))
            want = ref['insts'].get(k, [])
            if got is None or got[0] != len(want) or got[1] != want:
                fails.append((None, '%s: option %d queried as %r reports %r, expected the instances of the last parse %r' % (o, k, name, got, want)))


def oracle_handle(o, w, r, st, fails):
    """ops on the persistent handle; st = dict(tab, ref) or None.  Every query must answer for the LAST parse only."""
    op = w[0]
    if op == 'hnew':
        m = re.match(r'hrc=(-?\d+) nopts=(\d+)$', r)
        p = parse_op_words('parse 0 ' + ' '.join(w[1:]))
        if not m or p is None:
            fails.append((None, '%s: unreadable result %s' % (o, r))); return None
        tab = []
        for e in p[1]:
            if e[3] < 0 or not names_of(e):
                break
            tab.append(e)
        if int(m.group(2)) != len(tab) or (int(m.group(1)) == 0) != (len(tab) == len(p[1])):
            fails.append((None, '%s: %s, expected %d accepted option(s)' % (o, r, len(tab))))
        return {'tab': tab, 'ref': dict(EMPTY_REF)}
    if st is None:
        return None
    tab, ref = st['tab'], st['ref']
    if op == 'haddopt':
        m = re.match(r'(-?\d+) nopts=(\d+)$', r)
        p = parse_op_words('parse 0 1 ' + ' '.join(w[1:]))
        if not m or p is None:
            fails.append((None, '%s: unreadable result %s' % (o, r))); return st
        e = p[1][0]
        good = e[3] >= 0 and bool(names_of(e))
        if (int(m.group(1)) == 0) != good or int(m.group(2)) != len(tab) + (1 if good else 0):
            fails.append((None, '%s: %s, option %s' % (o, r, 'is valid' if good else 'must be refused')))
        if good:
            tab.append(e)
        return st
    if op == 'hparse':
        res = parse_result(r)
        argv = [dec(x) for x in w[2:]]
        if res is None:
            fails.append((None, '%s: unreadable result %s' % (o, r))); return st
        if argv:
            st['ref'] = ref = ref_parse(int(w[1]), list(tab), argv)
        elif res['rc'] != 0:
            fails.append((None, '%s: argc == 0 must succeed' % o))
        if not argv:
            res['rc'] = None
        check_dump(o, res, tab, ref, fails)
        return st
    if op == 'hdump':
        res = parse_result(r)
        if res is None:
            fails.append((None, '%s: unreadable result %s' % (o, r)))
        else:
            check_dump(o, res, tab, ref, fails)
        return st
    if not ref['clear'] or not table_clear(tab):
        return st
    if op == 'htail':
        c, v = r.split(':', 1)
        v = dec_vec(v) or []
        if int(c) != len(ref['tail']) or v != ref['tail']:
            fails.append((None, '%s: %s, expected count %d and tail %r of the last parse' % (o, r, len(ref['tail']), ref['tail'])))
    elif op == 'hninsts':
        k = find_in(tab, dec(w[1]))
        want = len(ref['insts'].get(k, [])) if k is not None else 0
        if int(r) != want:
            fails.append((None, '%s: %s, the last parse has %d instance(s)' % (o, r, want)))
    elif op == 'hparam':
        k = find_in(tab, dec(w[1]))
        inst, idx = int(w[2]), int(w[3])
        il = ref['insts'].get(k, []) if k is not None else []
        want = il[inst][idx] if inst < len(il) and idx < len(il[inst]) else None
        if dec(r) != want:
            fails.append((None, '%s: %s, expected %r from the last parse' % (o, r, want)))
    elif op == 'hargv':
        i = int(w[1])
        want = ref['argv'][i] if 0 <= i < len(ref['argv']) else None
        if dec(r) != want:
            fails.append((None, '%s: %s, expected %r' % (o, r, want)))
    return st


def is_df_class(op):
    """ops that reach the special-token error exit after >= 1 saved parameter (the path repaired by 16257ae); counted in the distribution"""
    if not op.startswith('parse '):
        return False
    p = parse_op_words(op)
    if p is None or not p[2] or len(p[1]) > 32 or any(o[3] < 0 or not names_of(o) for o in p[1]):
        return False
    try:
        return ref_parse(*p)['partial_special']
    except Exception:
        return False


def oracle(ops, impl):
    """The property statement evaluated on the outputs of the real code.  Returns [(key or None, text)]:
    first component is always None (kept for the tuple shape)."""
    fails = []
    vec, argc = None, 0
    hstate = None
    for o, r in zip(ops, impl):
        if r in ('rejected', 'bad-op', '<no-result>', 'ok'):
            if o.startswith('case'):
                vec, argc = None, 0
                hstate = None
            elif o.startswith('h') and hstate is not None and r == 'rejected' and o.split()[0] in ('hdump', 'htail'):
                fails.append((None, '%s: refused on a live handle' % o))
            continue
        w = o.split()
        op = w[0]
        if op in ('split', 'splite'):
            s, d = dec(w[1]), chr(int(w[2]))
            m = re.match(r'(NULL|\[.*\]) j=(\S+)$', r)
            pieces, joined = dec_vec(m.group(1)) or [], dec(m.group(2))
            if any(d in p for p in pieces):
                fails.append((None, '%s: a piece contains the delimiter: %s' % (o, r)))
            if op == 'split':
                want = [f for f in s.split(d) if f]
                if pieces != want:
                    fails.append((None, '%s: pieces %r, the non-empty fields are %r' % (o, pieces, want)))
                if joined != d.join(want):
                    fails.append((None, '%s: join of the pieces is %r, expected the string without empty fields %r' % (o, joined, d.join(want))))
            else:
                want = s.split(d) if s else []
                if joined != s or pieces != want:
                    fails.append((None, '%s: pieces %r, their join %r is not the original string; expected fields %r' % (o, pieces, joined, want)))
            continue
        if op == 'parse':
            p = parse_op_words(o)
            if p is None or r.startswith('create='):
                if p is not None and r.startswith('create=') and all(o_[3] >= 0 and names_of(o_) for o_ in p[1]):
                    fails.append((None, '%s: a valid option table was refused: %s' % (o, r)))
                continue
            res = parse_result(r)
            if res is None:
                fails.append((None, '%s: unreadable result %s' % (o, r))); continue
            ign, tab, argv = p
            check_dump(o, res, tab, ref_parse(ign, tab, argv) if argv else None, fails)
            continue
        if op[0] == 'h':
            hstate = oracle_handle(o, w, r, hstate, fails)
            continue
        # ---- stateful vector ops: result carries the state after the call
        m = re.match(r'(?:(-?\d+) )?argc=(-?\d+) v=(NULL|\[.*\])$', r)
        if op in ('count', 'len', 'copy', 'join', 'joinr'):
            cur = vec or []
            if op == 'count' and int(r) != len(cur):
                fails.append((None, '%s: %s, vector has %d elements' % (o, r, len(cur))))
            if op == 'len' and int(r) != (0 if vec is None else 8 + sum(len(x) + 9 for x in cur)):
                fails.append((None, '%s: %s' % (o, r)))
            if op == 'copy' and dec_vec(r) != vec:
                fails.append((None, '%s: copy %s differs from the vector %r' % (o, r, vec)))
            if op == 'join' and dec(r) != chr(int(w[1])).join(cur):
                fails.append((None, '%s: %s, expected %r' % (o, r, chr(int(w[1])).join(cur))))
            if op == 'joinr':
                a, b = int(w[1]), int(w[2])
                want = chr(int(w[3])).join(cur[a:b]) if a <= b else ''
                if dec(r) != want:
                    fails.append((None, '%s: %s, expected the join of positions [%d,%d) = %r' % (o, r, a, b, want)))
            continue
        if not m:
            fails.append((None, '%s: unreadable result %s' % (o, r))); continue
        rc = int(m.group(1)) if m.group(1) is not None else None
        nargc, nvec = int(m.group(2)), dec_vec(m.group(3))
        want, want_argc = vec, argc
        if op == 'setv':
            want = [dec(x) for x in w[1:]]; want_argc = len(want)
        elif op == 'null':
            want, want_argc = None, 0
        elif op == 'append':
            want = (vec or []) + [dec(w[1])]; want_argc = len(want)
        elif op == 'appendn':
            want = (vec or []) + [dec(w[1])]
        elif op == 'prepend':
            want = [dec(w[1])] + (vec or [])
        elif op == 'appendu':
            want = (vec or []) + ([] if dec(w[1]) in (vec or []) else [dec(w[1])])
        elif op == 'insert':
            start = int(w[1])
            src = None if w[2:] == ['NULL'] else [dec(x) for x in w[2:]]
            if vec is None or start < 0:
                if rc == 0:
                    fails.append((None, '%s: accepted a NULL target / negative position' % o))
            elif src is not None:
                p = min(start, len(vec))
                want = vec[:p] + src + vec[p:]
        elif op == 'inselt':
            start = int(w[1])
            if vec is None or start < 0:
                if rc == 0:
                    fails.append((None, '%s: accepted a NULL target / negative position' % o))
            elif w[2] != 'NULL':
                p = min(start, len(vec))
                want = vec[:p] + [dec(w[2])] + vec[p:]
        elif op == 'delete':
            start, num = int(w[1]), int(w[2])
            if vec is not None and num != 0 and start <= len(vec):
                if start < 0 or num < 0:
                    if rc == 0:
                        fails.append((None, '%s: accepted a negative argument' % o))
                else:
                    want = vec[:start] + vec[start + num:]
                    # after an accepted delete, argc is the number of elements of the vector
                    want_argc = len(want)
        if nvec != want:
            fails.append((None, '%s: vector %r, expected %r' % (o, nvec, want)))
        elif nargc != want_argc:
            fails.append((None, '%s: argc=%d after the call but the vector has %d element(s) (%d removed from %d)' % (
                o, nargc, len(want or []), len(vec or []) - len(want or []), len(vec or [])) if op == 'delete' else '%s: argc=%d, expected %d' % (o, nargc, want_argc)))
        vec, argc = nvec, nargc
    return fails


def load_corpus():
    cs = []
    d = os.path.join(pv.ROOT, 'corpus', PROP)
    if os.path.isdir(d):
        for f in sorted(os.listdir(d)):
            if f.endswith('.case'):
                cs.append([l.strip() for l in open(os.path.join(d, f)) if l.strip() and not l.startswith('#')])
    return cs


def interesting(op, r):
    if r in ('rejected', 'bad-op', 'ok', '<no-result>'):
        return False
    if op.startswith('split'):
        return r.count(' ') >= 2
    if op.startswith('parse') or op.startswith('hparse') or op.startswith('hdump'):
        return ' ( ' in r or 'tail=0' not in r
    if op[0] == 'h':
        return False
    return '[' in r and ' ' in r.split('v=')[-1]


def run(ctx, res, cases=None):
    exe = ctx.path('C39')
    # argv.c and cmd_line.c of the tree under test are compiled INTO the harness (they interpose the copies in
    # libparsec.so) so that the code under test itself is ASan/UBSan-instrumented (stack buffer of split, frees)
    srcs = [os.path.join(pv.REPO, 'parsec', 'utils', f) for f in ('argv.c', 'cmd_line.c')]
    ok, log = pv.cc_harness(os.path.join(pv.ROOT, 'harness', 'C39.c'), exe, ctx.build, extra=srcs, sanitize=True)
    if not ok:
        res.infra_errors.append('harness compile failed: ' + log[-1500:]); return
    env = {'ASAN_OPTIONS': 'detect_leaks=0'}
    rng = pv.Rng(ctx.seed)
    corpus = load_corpus()
    if cases is None:
        n = 500 if ctx.quick else 12000
        cases = corpus + [gen_case(rng.fork(k), rng.range(4, 30 if ctx.quick else 60)) for k in range(n)]
    batch = [list(c) for c in cases]
    n_partial_special = sum(1 for c in cases for o in c if is_df_class(o))
    hist, results_all = {}, []
    todo = batch
    crashes = 0
    stats_all = {}
    while todo:
        results, stats, viols, (rc, err) = pv.run_script(exe, 'pv_C39', todo, env=env, use_driver=ctx.driver_ok)
        for k_, v_ in stats.items():
            stats_all[k_] = stats_all.get(k_, 0) + v_
        for v in viols:
            res.violations.append({'key': 'harness:' + v, 'what': v})
        nxt = []
        for k, r in enumerate(results):
            died = r['crashed'] or (rc != 0 and ('' in r['impl'] or len(r['impl']) < len(r['ops'])))
            if died:
                crashes += 1
                at = r['impl'].index('') if '' in r['impl'] else len(r['impl'])
                bad_op = r['ops'][at] if at < len(r['ops']) else None
                env_q = {'ASAN_OPTIONS': 'detect_leaks=0:symbolize=0'}
                dies = lambda ops: pv.run_script(exe, 'pv_C39', [ops], env=env_q, use_driver=False, timeout=60)[3][0] != 0
                small = pv.ddmin(r['ops'][:at + 1], dies, max_tests=40) if dies(r['ops'][:at + 1]) else r['ops'][:at + 1]
                head = [l.strip() for l in err.splitlines() if 'ERROR' in l or 'SUMMARY' in l or '/parsec/utils/' in l]
                res.violations.append({'key': 'crash: ' + ' ; '.join(small), 'what': 'real code crashed / sanitizer abort (rc=%s) on `%s`: %s' % (
                    rc, bad_op, ' | '.join(head)[:700] or err[-500:]), 'case': small})
                nxt = [x['ops'] for x in results[k + 1:]] if crashes < 4 else []
                break
            results_all.append(r)
        todo = nxt
    for k, r in enumerate(results_all):
        res.evaluations += 1
        for o in r['ops']:
            hist[o.split()[0]] = hist.get(o.split()[0], 0) + 1
        fails = oracle(r['ops'], r['impl'])
        new = [f for f in fails if f[0] is None]
        if new:
            failing = lambda ops: any(f[0] is None for f in oracle(ops, pv.run_script(exe, 'pv_C39', [ops], env=env, use_driver=False, timeout=60)[0][0]['impl']))
            small = pv.ddmin(r['ops'], failing, max_tests=120)
            sf = [f for f in oracle(small, pv.run_script(exe, 'pv_C39', [small], env=env, use_driver=False, timeout=60)[0][0]['impl']) if f[0] is None] or new
            res.violations.append({'key': ' ; '.join(small), 'what': sf[0][1], 'case': small, 'all_failures': [f[1] for f in sf[:5]]})
        if ctx.driver_ok and r['impl'] != r['model']:
            small = pv.ddmin(r['ops'], lambda ops: pv.case_disagrees(exe, 'pv_C39', ops, env=env), max_tests=120)
            rs = pv.run_script(exe, 'pv_C39', [small], env=env, timeout=60)[0][0]
            res.disagreements.append({'case': small, 'impl': rs['impl'], 'model': rs['model']})
        if sum(1 for o, x in zip(r['ops'], r['impl']) if interesting(o, x)) >= 2:
            res.nontrivial(' ; '.join(r['ops']))
        if len(res.violations) + len(res.disagreements) >= 5:
            break
    res.traces_validated = len(results_all)
    res.rule = ('corpus cases first, then random operation scripts (4..30 ops quick / 4..60 thorough) mixing vector ops (setv/append/prepend/append_unique/insert/insert_element/delete/'
                'count/len/copy/join/join_range on one live vector with positions from -1 to count+2), split/split_with_empty of strings dense in delimiters (incl. empty, all-delimiter, '
                'fields of 126..300 bytes around the 128-byte buffer, bytes >= 128) and parse of generated option tables (0..6 options, 0..3 parameters, name collisions 1/6) with mostly '
                'well-formed command lines (all name forms, bundles, tails) plus malformed ones, and blocks on ONE persistent handle (hnew, then 2..4 hparse with/without tail incl. tail directly followed by no tail, '
                'options added in between, argc==0 parses, each followed by hdump/htail/hninsts/hparam/hargv queries); executed on the real functions under ASan+UBSan. distinct = distinct script; '
                'non-trivial = at least two ops produced a multi-element vector / a parse with instances or a tail')
    res.samples = [{'ops': r['ops'][:8], 'impl': r['impl'][:8]} for r in results_all[len(corpus):len(corpus) + 2]] + [{'ops': r['ops'], 'impl': r['impl']} for r in results_all[:1]]
    nparse = [o for r in results_all for o in r['ops'] if o.startswith('parse')]
    res.extra['input_distribution'] = {
        'op_histogram': hist, 'corpus_cases': len(corpus),
        'rejected_or_bad_ops': sum(r['impl'].count('rejected') + r['impl'].count('bad-op') for r in results_all),
        'parse_ops': len(nparse), 'parse_rc_error': sum(1 for r in results_all for x in r['impl'] if x.startswith('rc=-1')),
        'parse_with_tail': sum(1 for r in results_all for x in r['impl'] if x.startswith('rc=') and 'tail=0:' not in x),
        'parse_with_instances': sum(1 for r in results_all for x in r['impl'] if x.startswith('rc=') and ' ( ' in x),
        'parse_special_token_after_saved_param': n_partial_special,
        'handle_reparses': sum(max(0, sum(1 for o in seg if o.startswith('hparse')) - 1) for r in results_all for seg in ' ; '.join(r['ops']).split('hnew ')[1:] for seg in [seg.split(' ; ')]),
        'handle_tail_then_no_tail': sum(1 for r in results_all for a, b in zip([x for o, x in zip(r['ops'], r['impl']) if o.startswith('hparse')], [x for o, x in zip(r['ops'], r['impl']) if o.startswith('hparse')][1:]) if 'tail=0:' not in a and 'tail=0:' in b), 'harness_stats': stats_all,
    }


def replay(ctx, res, data):
    cases = [v['case'] for v in data.get('violations', []) if 'case' in v] + [d['case'] for d in data.get('disagreements', []) if 'case' in d]
    run(ctx, res, cases=cases or None)
