"""C32 — the concurrent hash table is a linearizable map across resizes."""
import os, glob, zlib
from concurrent.futures import ThreadPoolExecutor
import pv
PROP = 'C32'
LEAN_MODULE = 'ParsecVerif.Props.C32'
DRIVERS = ['pv_C32']
THEOREMS = ['ParsecVerif.C32.C32_refines_map', 'ParsecVerif.C32.C32_refines_map_complete', 'ParsecVerif.C32.C32_store_is_map',
            'ParsecVerif.C32.C32_for_all', 'ParsecVerif.C32.C32_atomic_sections', 'ParsecVerif.C32.C32_macro_is_micro',
            'ParsecVerif.C32.rehash_lt', 'ParsecVerif.C32.mkConfig_WF']
IMPL = ('parsec/class/parsec_hash_table.c (parsec_hash_table_insert_impl, _find, _remove, _lock_bucket_handle, _nolock_find_handle, _nolock_insert_handle, '
        '_unlock_bucket_handle_impl, _nolock_find_in_old_tables, _nolock_remove_from_old_tables, _resize, _universal_rehash, _for_all), parsec/class/parsec_hash_table.h')
ENGINE = 'lean-coop'
LEVEL = 'proof'
LEVEL_TEXT = ('Lean 4 theorem C32_refines_map: for EVERY hash function that lands in the table, every max_collisions_hint / max_table_nb_bits, any number of threads running any programs of '
              'insert / find / remove / find-or-insert (lock_bucket; nolock_find; nolock_insert; unlock_bucket) and EVERY interleaving at the granularity of one step per synchronisation action '
              '(lock of a top-level bucket with the work under it, the racy read head = cur->next, lock of an old bucket with scan and unlink, fetch-dec of used_buckets, CAS of prev_head->next, every '
              'unlock, rdlock, rdunlock, wrlock + resize, wrunlock), there is a sequential history of the map Key -> Item with the same per-thread operations and results (find returns the stored item '
              'or NULL, remove returns and deletes it, insert adds an absent key, find-or-insert returns the stored item or stores its own) that respects real-time order and ends in exactly the '
              'content of the tables plus the items a find is carrying to the top-level table - across any number of resizes, partial migrations and unlinked older tables (forward simulation; '
              'rely/guarantee invariant: a thread in a top-level critical section keeps its locks, older tables only lose items, nothing appears in a bucket it holds, used_buckets = non-empty '
              'buckets + pending decrements, every non-empty table stays linked from the top-level table). C32_store_is_map: every chained item is in the bucket of its key, cur_len = chain length, '
              'no item or key chained twice, every non-empty table linked. C32_for_all: in every reachable state without an operation in progress for_all passes exactly the items of the map, each '
              'once. C32_atomic_sections: two threads inside top-level critical sections work on different buckets of the same top-level table (a writer excludes everybody), so operations on one key '
              'are serialised; a carried item\'s top-level bucket is held by its carrier. Tie, on every run: (a) sequential histories on the real API (ASan/UBSan) with colliding keys, hint 0-3 and few '
              'bits, compared with the compiled model structurally after every call (every table in allocation order, used_buckets, next, every chain in order, cur_len, lock words, warning flag); '
              '(b) the real code under the cooperative scheduler (bucket-lock CAS, used_buckets fetch-dec, next CAS and rwlock waits as park points), every step replayed on the model with the same '
              'structural comparison: exhaustive DFS over all schedules for small 2-3 thread programs, PCT and PRNG schedules for those and random programs; C32_macro_is_micro proves each scheduler '
              'step is a run of model steps; (c) 2-16 free-running threads, every burst checked per key by a Wing-Gong search with the for_all content as final state, plus item conservation.')
LEVEL_NOTE = ('The read-write lock is modelled by its specification (a writer is admitted only when nobody is inside, a reader only when no writer is inside; waiting arbitrary) - its implementation is '
              'property C33; in the cooperative runs the harness tells the model when the real phase-fair lock made a thread wait, and the model checks that every admission it sees respects the '
              'specification. Caller discipline as hypothesis, decided on caller-side bookkeeping and enforced by rejection in model and harness: even keys are managed with insert (no second insert of '
              'a key while an earlier one is outstanding), odd keys with find-or-insert only, an item object is handed over only while it is outside the table. key_equal is equality and key_hash a '
              'function (the harness runs the generic 64-bit functions and a colliding custom pair). Memory model: sequential consistency; table heads are never freed before fini (true of the code). '
              'The racy read of head->next that is the argument of the CAS is merged with the preceding fetch-dec step (they commute with the steps of the other threads, see notes). '
              'Not covered: lock-freedom/deadlock-freedom as a theorem (the cooperative runs report a deadlock if no thread can move; none seen), parsec_hash_table_stat, fini, the nolock_* API used '
              'without lock_bucket, the HELPFIRST branch (not compiled). The 16-thread stress and the Wing-Gong oracle are a search for counterexamples, not part of the proof. Trusted: Lean kernel, '
              'the cooperative scheduler and hook H1, the harness (it reads the file-private bucket layout, checked by a self-test at start).')
TECHNIQUE = ('Lean 4 proof (rely/guarantee inductive invariant + forward simulation to a sequential map over all interleavings of synchronisation actions); tie = structural differential of the real '
             'code against the compiled model after every sequential call and after every cooperative-scheduler step (exhaustive for small configurations), plus free-running stress with per-key '
             'Wing-Gong and conservation oracles')
ASSUMPTIONS = ['the read-write lock meets its specification (property C33): writers exclude everybody, readers exclude writers',
               'unique-key usage: parsec_hash_table_insert is called for a key only while no earlier insert of that key is outstanding; such keys are not used with the find-or-insert idiom; '
               'an item object is inserted only while it is outside the table',
               'key_equal is equality of keys, key_hash is a function of the key; the universal re-hash lands in the table (rehash_lt proves it for the real function)',
               'sequential consistency; table heads are not freed while the table is in use']

M64 = (1 << 64) - 1


def rehash(h64, nb):
    """parsec_hash_table_universal_rehash, written from the C source (not from the Lean model)"""
    k32 = ((h64 >> 32) ^ h64) & M64
    return (((0xaa88564915a * k32 + 0x165e44f1fc94) & M64) % (1 << (32 + nb))) >> 32


def bucket(key, nb, hmode):
    return rehash(key >> 3 if hmode else key, nb)


# ------------------------------------------------------------------ dumps
def parse_dump(d):
    """`top=3 w=0 | 3:u0,n2 7:1:5 | 2:u2,n1 ...` -> (top, warned, {nb: {'used','next','b': {idx: (len, [ids], locked)}}})"""
    parts = [p.strip() for p in d.split(' | ')]
    hd = parts[0].split()
    top = int(hd[0].split('=')[1]); w = int(hd[1].split('=')[1])
    tabs = {}
    for p in parts[1:]:
        ws = p.split()
        nb, rest = ws[0].split(':', 1)
        u, n = rest.split(',')
        t = {'used': int(u[1:]), 'next': int(n[1:]), 'b': {}}
        for x in ws[1:]:
            locked = x.endswith('L')
            if locked:
                x = x[:-1]
            b, ln, ids = x.split(':')
            t['b'][int(b)] = (int(ln), [] if ids == '-' else ids.split(','), locked)
        tabs[int(nb)] = t
    return top, w, tabs


def dump_problems(d, quiescent):
    """structural facts every state of a correct table satisfies (written from the property: each stored item is
    reachable by for_all exactly once): no item twice, cur_len = chain length, chains well formed, every non-empty
    older table is linked from the top-level table; quiescent: no bucket locked"""
    top, w, tabs = parse_dump(d)
    bad = []
    seen = {}
    for nb, t in tabs.items():
        for b, (ln, ids, locked) in t['b'].items():
            if any(x in ('?', 'cycle') for x in ids):
                bad.append('table %d bucket %d: corrupted chain %s' % (nb, b, ids))
                continue
            if ln != len(ids):
                bad.append('table %d bucket %d: cur_len %d but %d items chained' % (nb, b, ln, len(ids)))
            for x in ids:
                if x in seen:
                    bad.append('item %s chained twice (%s and table %d bucket %d)' % (x, seen[x], nb, b))
                seen[x] = 'table %d bucket %d' % (nb, b)
            if locked and quiescent:
                bad.append('table %d bucket %d left locked' % (nb, b))
    linked = set()
    cur = top
    while cur and cur in tabs and cur not in linked:
        linked.add(cur)
        cur = tabs[cur]['next']
    for nb, t in tabs.items():
        if nb not in linked and any(ids for (_, ids, _) in t['b'].values()):
            bad.append('table %d holds items but is not linked from the top-level table' % nb)
    return bad


def dump_items(d):
    top, w, tabs = parse_dump(d)
    out = []
    for nb, t in tabs.items():
        for b, (ln, ids, locked) in t['b'].items():
            out += [x for x in ids if x.isdigit()]
    return out


# ------------------------------------------------------------------ keys
def key_pool(rng, nb0, maxb, hmode, n):
    """mostly colliding keys: classes that share the bucket up to some level, a few that split early, large keys"""
    keys = []
    if hmode:
        base = rng.range(0, 1 << 20) * 8
        keys += [base + j for j in range(8)]           # same 64-bit hash: never split by any resize
        base2 = rng.range(0, 1 << 20) * 8
        keys += [base2 + j for j in range(0, 8, 2)] + [base2 + 1]
    lvl = rng.range(nb0, max(nb0, min(maxb, nb0 + 4)))
    tgt = rng.below(1 << lvl)
    k = rng.range(0, 1 << 16)
    guard = 0
    while len(keys) < n - 3 and guard < 200000:
        guard += 1
        k += 1
        if bucket(k, lvl, hmode) == tgt and (rng.chance(3, 4) or bucket(k, nb0, hmode) == bucket(tgt, nb0, hmode)):
            keys.append(k)
    # keys above 2^32 (the fold (k>>32)^k matters) and a boundary value
    keys += [(rng.range(1, (1 << 31)) << 32) | rng.range(0, 1 << 20), (1 << 63) + rng.range(0, 1000), 0]
    if not any(k % 2 for k in keys):
        keys.append(keys[0] | 1)
    if all(k % 2 for k in keys):
        keys.append(keys[0] & ~1)
    return keys[:max(n, 4)]


# ------------------------------------------------------------------ sequential histories
def gen_seq(rng, quick):
    nb0 = rng.range(1, 3)
    hint = rng.choice([0, 1, 1, 1, 2, 2, 3])
    maxb = rng.choice([nb0 + 1, nb0 + 2, nb0 + 3, nb0 + 4, 7, 8])
    hmode = 1 if rng.chance(1, 3) else 0
    keys = key_pool(rng, nb0, maxb, hmode, rng.range(6, 20))
    nitems = rng.range(6, 30)
    n = rng.range(8, 70 if quick else 220)
    ops = []
    held_i, held_k = set(), set()
    for _ in range(n):
        k = rng.choice(keys)
        c = rng.below(100)
        if c < 40:
            free = [i for i in range(1, nitems + 1) if i not in held_i]
            i = rng.choice(free) if free and rng.chance(9, 10) else rng.range(0, nitems)
            if k % 2 == 0:
                ops.append('i %d %d' % (k, i))
                if k not in held_k and i not in held_i and i > 0:
                    held_k.add(k); held_i.add(i)
            else:
                ops.append('u %d %d' % (k, i))
                held_i.add(i)      # conservative (it may find another item): the model decides
        elif c < 65:
            ops.append('f %d' % k)
        elif c < 94:
            ops.append('r %d' % k)
            held_k.discard(k)
            held_i.clear() if rng.chance(1, 50) else None
        else:
            ops.append('all')
    ops.append('all')
    return ['%d %d %d %d' % (nb0, hint, maxb, hmode)] + ops


def seq_lines(cases):
    lines = []
    for k, c in enumerate(cases):
        lines.append('case %d seq %s' % (k, c[0]))
        lines += c[1:]
    return lines


def seq_oracle(ops, impl):
    """the property statement, executable: the table behaves like a map key -> item (unique keys), and for_all
    visits each stored item exactly once.  Returns (problems, stats)."""
    m = {}
    held_i = set()
    bad = []
    st = {'resizes': 0, 'migr': 0, 'unlinks': 0, 'warn': 0, 'found': 0, 'rej': 0}
    prev = None
    for o, r in zip(ops, impl):
        if ' | ' not in r:
            continue
        res, d = r.split(' | ', 1)
        w = o.split()
        try:
            cur = parse_dump(d)
        except Exception:
            bad.append('%s: unreadable dump %s' % (o, d)); break
        if w[0] == 'case':
            m, held_i, prev = {}, set(), cur
            continue
        if res == 'rej':
            st['rej'] += 1
        elif w[0] == 'i':
            k, i = int(w[1]), int(w[2])
            if res != 'ok':
                bad.append('%s returned %s' % (o, res))
            m[k] = i
        elif w[0] == 'f':
            k = int(w[1])
            if res != str(m.get(k, 0)):
                bad.append('%s returned %s but the map holds %s' % (o, res, m.get(k, 0)))
            st['found'] += res != '0'
        elif w[0] == 'r':
            k = int(w[1])
            if res != str(m.get(k, 0)):
                bad.append('%s returned %s but the map holds %s' % (o, res, m.get(k, 0)))
            m.pop(k, None)
        elif w[0] == 'u':
            k, i = int(w[1]), int(w[2])
            exp = m.get(k, i)
            if res != str(exp):
                bad.append('%s returned %s but the map holds %s' % (o, res, m.get(k, 0)))
            m[k] = exp
        elif w[0] == 'all':
            ids = res.strip('[]').split()
            if sorted(ids) != sorted('%d:%d' % kv for kv in m.items()):
                bad.append('for_all visited %s but the map holds %s' % (res, sorted(m.items())))
        bad += ['%s: %s' % (o, p) for p in dump_problems(d, True)]
        stored = sorted(dump_items(d))
        if stored != sorted(str(v) for v in m.values()):
            bad.append('%s: the tables hold the items %s but the map holds %s' % (o, stored, sorted(m.values())))
        if prev is not None:
            st['resizes'] += cur[0] > prev[0]
            st['warn'] += cur[1] > prev[1]
            for nb, t in cur[2].items():
                if nb < cur[0] and nb in prev[2]:
                    a = sum(len(x[1]) for x in prev[2][nb]['b'].values()); b = sum(len(x[1]) for x in t['b'].values())
                    st['migr'] += b < a
                    st['unlinks'] += any(tt['next'] != prev[2][n2]['next'] for n2, tt in cur[2].items() if n2 in prev[2])
        prev = cur
        if len(bad) > 5:
            break
    return bad, st


# ------------------------------------------------------------------ per-key linearizability (Wing-Gong)
def key_apply(kind, i, res, st):
    """sequential map semantics restricted to one key; st = item id or 0.  Returns new state or None if illegal."""
    if kind == 'i':
        return i if (res == 'ok' and st == 0) else None
    if kind == 'f':
        return st if res == st else None
    if kind == 'r':
        return 0 if res == st else None
    if kind == 'u':
        if st == 0:
            return i if res == i else None
        return st if res == st else None
    return None


def linearizable_key(recs, st0, stf, budget=200000):
    """recs: (tid, idx, kind, item, res, inv, ret) on ONE key.  True / False / None (budget exhausted)."""
    n = len(recs)
    if n == 0:
        return st0 == stf
    pred = [0] * n
    for a in range(n):
        ta, ka, _, _, _, ia, _ = recs[a]
        for b in range(n):
            if a != b:
                tb, kb, _, _, _, _, rb = recs[b]
                if rb < ia or (ta == tb and kb < ka):
                    pred[a] |= 1 << b
    order = sorted(range(n), key=lambda i: (recs[i][6], recs[i][5]))
    full = (1 << n) - 1
    seen = set()
    todo = [(0, st0)]
    nodes = 0
    while todo:
        mask, st = todo.pop()
        if mask == full:
            if stf is None or st == stf:
                return True
            continue
        if (mask, st) in seen:
            continue
        seen.add((mask, st))
        nodes += 1
        if nodes > budget:
            return None
        nxt = []
        for a in order:
            if not (mask >> a) & 1 and (pred[a] & ~mask) == 0:
                _, _, kind, i, res, _, _ = recs[a]
                s2 = key_apply(kind, i, res, st)
                if s2 is not None:
                    nxt.append((mask | (1 << a), s2))
        todo.extend(reversed(nxt))
    return False


def check_history(recs, init, final):
    """recs: (tid, idx, kind, key, item, res, inv, ret); init/final: {key: item id}.  Map linearizability is local:
    the history is linearizable iff its restriction to every key is.  Returns (problems, inconclusive, overlapping)."""
    bykey = {}
    for r in recs:
        if r[5] == 'rej':
            continue
        bykey.setdefault(r[3], []).append((r[0], r[1], r[2], r[4], r[5], r[6], r[7]))
    bad, inconc = [], 0
    for k in set(bykey) | set(init) | (set(final) if final is not None else set()):
        rs = bykey.get(k, [])
        v = linearizable_key(rs, init.get(k, 0), None if final is None else final.get(k, 0))
        if v is False:
            bad.append('operations on key %d are not linearizable w.r.t. a map (initially %s, finally %s): %s' % (
                k, init.get(k, 0), None if final is None else final.get(k, 0),
                ' '.join('%d:%s%s:%s:%d:%d' % (t, kind, (',%d' % i) if kind in 'iu' else '', res, a, b) for (t, _, kind, i, res, a, b) in rs)))
        elif v is None:
            inconc += 1
    overl = any(r1[0] != r2[0] and r1[3] == r2[3] and r1[6] <= r2[7] and r2[6] <= r1[7] for r1 in recs for r2 in recs) if len(recs) <= 64 else True
    return bad, inconc, overl


def parse_optok(x):
    kind = x[0]
    if kind in 'iu':
        k, i = x[1:].split(',')
        return kind, int(k), int(i)
    return kind, int(x[1:]), 0


def conv_res(r):
    return r if r in ('ok', 'rej') else int(r)


def parse_coop_hist(words):
    """`P:op P:op H t:op:res:inv:ret ...` -> (prefix ops, records)"""
    pre, recs, cnt = [], [], {}
    h = words.index('H')
    for x in words[:h]:
        pre.append(parse_optok(x.split(':', 1)[1]))
    for x in words[h + 1:]:
        t, op, r, a, b = x.split(':')
        t = int(t)
        kind, k, i = parse_optok(op)
        idx = cnt.get(t, 0); cnt[t] = idx + 1
        recs.append((t, idx, kind, k, i, conv_res(r), int(a), int(b)))
    return pre, recs


def prefix_state(pre):
    """the prefix runs sequentially under the caller discipline: replay it on a map (same discipline as the harness)"""
    m, held_i, held_k = {}, set(), set()
    for kind, k, i in pre:
        if kind == 'i':
            if k % 2 or k in held_k or i < 1 or i in held_i:
                continue
            held_k.add(k); held_i.add(i); m[k] = i
        elif kind == 'u':
            if k % 2 == 0 or i < 1 or i in held_i:
                continue
            if k not in m:
                m[k] = i; held_i.add(i)
        elif kind == 'r':
            if k in m:
                held_i.discard(m[k]); held_k.discard(k); del m[k]
    return m


# ------------------------------------------------------------------ cooperative cases
def gen_coop(rng, quick):
    nb0 = rng.range(1, 2)
    hint = rng.choice([0, 1, 1, 1, 2])
    maxb = rng.choice([nb0 + 2, nb0 + 3, nb0 + 4, 6])
    hmode = 1 if rng.chance(1, 4) else 0
    keys = key_pool(rng, nb0, maxb, hmode, rng.range(4, 8))
    nthr = rng.range(2, 3 if quick else 4)
    words = ['%d %d %d %d' % (nb0, hint, maxb, hmode), 'P']
    nxt = [1]

    def mk(k, pins=40):
        c = rng.below(100)
        if c < pins:
            i = nxt[0]; nxt[0] += 1
            if rng.chance(1, 12):
                i = rng.range(1, max(1, nxt[0] - 1))
            return ('i%d,%d' if k % 2 == 0 else 'u%d,%d') % (k, i)
        return ('f%d' if c < pins + (100 - pins) // 2 else 'r%d') % k
    for _ in range(rng.range(2, 10)):
        words.append(mk(rng.choice(keys), 75))
    for t in range(nthr):
        words.append('T')
        for _ in range(rng.range(1, 4 if quick else 5)):
            words.append(mk(rng.choice(keys)))
    return ' '.join(words)


def small_coop(ctx):
    """(case text, DFS cap): two threads on keys that share buckets, starting from a table with old levels.
    keys 2,4,6 / 3 collide at nb=1 (hmode 0): rehash(2,1)=rehash(3,1)=rehash(6,1)=1, rehash(4,1)=0"""
    q = ctx.quick
    return [
        ('1 1 5 0 P i2,1 i4,2 i6,3 T f2 T r6', 20000),                  # find migrates 2, remove takes 6 out of the same old bucket
        ('1 1 5 0 P i2,1 i4,2 i6,3 T f2 T f6', 20000),                  # two migrations out of the same old bucket: the last one unlinks the table
        ('1 1 5 0 P i2,1 i6,3 T r2 T r6 T f4', 400 if q else 6000),
        ('1 0 4 0 P i2,1 T i4,2 T i6,3', 400 if q else 6000),          # two inserts both ask for a resize: only one may happen per table
        ('1 0 5 0 P i2,1 i4,2 T f2 T f4 T i6,3', 300 if q else 5000),    # unlink of two old tables while a resize is pending
        ('1 1 5 0 P u3,1 T u3,2 T u3,3 r3', 400 if q else 6000),       # find-or-insert against find-or-insert and remove
        ('1 1 5 0 P i2,1 i6,2 u3,3 T u3,4 T r3 T f2', 300 if q else 5000),
        ('1 1 4 1 P i8,1 i10,2 i12,3 T f8 r10 T r12 f10', 300 if q else 5000),   # same 64-bit hash: key_equal decides, chain never splits
    ]


def run_coop_batch(exe, lines, driver_ok, timeout):
    out = {'runs': 0, 'steps': 0, 'dis': [], 'viol': [], 'keys': set(), 'stats': {}, 'samples': [], 'dist': {}, 'inconclusive': 0, 'blocked_steps': 0}
    rc, text, err = pv.sh([exe], input='\n'.join(lines) + '\n', timeout=timeout)
    ops, impl, stats, viols = pv.parse_transcript(text)
    out['stats'] = stats
    for v in viols:
        out['viol'].append({'key': 'C32-harness-oracle', 'what': v, 'case': v.split('; case: ', 1)[1] if '; case: ' in v else (lines[0] if len(lines) == 1 else v)})
    if rc != 0:
        out['viol'].append({'key': 'C32-harness-exit-%d' % rc, 'what': 'harness exited with %d after %d lines; last op: %s; stderr: %s' % (
            rc, len(ops), ops[-1] if ops else None, err[-500:]), 'case': lines[0] if lines else ''})
    idx = [i for i, o in enumerate(ops) if o != 'hist']
    if driver_ok and idx:
        mops = [ops[i] for i in idx]
        rcd, model, derr = pv.run_driver('pv_C32', mops, timeout=timeout)
        if rcd != 0:
            out['dis'].append({'op': '<driver>', 'impl': '', 'model': 'driver exit %d: %s' % (rcd, derr[-300:])})
        dd = pv.compare(mops, [impl[i] for i in idx], model)
        # attach the replayable case to the first disagreement of each run
        for d in dd[:20]:
            j = d.get('index', 0)
            while j > 0 and not mops[j].startswith('case'):
                j -= 1
            sched = [mops[x].split()[1] for x in range(j + 1, d.get('index', 0) + 1) if mops[x].startswith('step')]
            d['case'] = mops[j].split(' | ')[0] + ' | replay ' + ' '.join(sched)
        out['dis'] += dd[:20]
    starts = [i for i, o in enumerate(ops) if o.startswith('case')] + [len(ops)]
    dist = out['dist']
    for a, b in zip(starts, starts[1:]):
        caseline = ops[a]
        if not impl[a].startswith('ok'):
            continue
        steps = [ops[i].split()[1] for i in range(a + 1, b) if ops[i].startswith('step')]
        out['blocked_steps'] += sum(1 for i in range(a + 1, b) if ops[i].startswith('step') and ops[i].split()[2] == '1')
        sched = ' '.join(steps)
        rets = hist = final = None
        for i in range(a + 1, b):
            if ops[i] == 'rets': rets = impl[i]
            elif ops[i] == 'hist': hist = impl[i]
            elif ops[i] == 'final': final = impl[i]
        out['runs'] += 1
        out['steps'] += len(steps)
        replay = caseline.split(' | ')[0] + ' | replay ' + sched
        probs = []
        for i in range(a, b):
            if ops[i].startswith('step') or ops[i].startswith('case'):
                try:
                    probs += dump_problems(impl[i].split(' | ', 1)[1], False)
                except Exception:
                    probs.append('unreadable dump: ' + impl[i])
        if rets is None or rets == 'incomplete' or hist is None or final is None:
            out['inconclusive'] += 1
        else:
            pre, recs = parse_coop_hist(hist.split())
            fd, fall = final.split(' all=')
            probs += dump_problems(fd, True)
            pairs = fall.strip('[]').split()
            visited = [x.split(':')[1] for x in pairs]
            stored = dump_items(fd)
            if sorted(visited) != sorted(stored):
                probs.append('quiescent for_all visited %s but the tables hold %s' % (visited, stored))
            if len(set(visited)) != len(visited):
                probs.append('quiescent for_all visited an item twice: %s' % visited)
            fmap = {}
            for x in pairs:
                k2, i2 = x.split(':')
                if int(k2) in fmap:
                    probs.append('two items with key %s are stored: %s' % (k2, pairs))
                fmap[int(k2)] = int(i2)
            b2, inc, overl = check_history(recs, prefix_state(pre), fmap)
            probs += b2
            out['inconclusive'] += inc
            tops = [int(impl[i].split('top=')[1].split()[0]) for i in range(a, b) if 'top=' in impl[i]]
            nontriv = overl and (len(set(tops)) > 1 or ' | '.join(impl[a].split(' | ')[2:]).count(':') > 3)
            if nontriv:
                out['keys'].add(zlib.crc32((caseline.split(' | ')[0].split(' ', 2)[2] + '|' + sched).encode()))
            if len(out['samples']) < 2 and overl and len(steps) > 6:
                out['samples'].append({'case': replay, 'rets': rets, 'hist': hist, 'final': final})
            for r in recs:
                kk = r[2] + (':rej' if r[5] == 'rej' else ':null' if r[5] == 0 else '')
                dist[kk] = dist.get(kk, 0) + 1
        for p in probs[:3]:
            out['viol'].append({'key': 'C32:' + replay, 'what': p, 'case': replay})
    return out


# ------------------------------------------------------------------ stress
def stress_lines(ctx, rng):
    q = ctx.quick
    ls = []
    cfgs = ([(2, 1, 1, 6, 0, 60, 12, 1), (4, 1, 1, 7, 0, 50, 10, 1), (8, 2, 1, 8, 1, 40, 8, 1), (16, 1, 1, 9, 0, 40, 6, 1), (16, 2, 2, 8, 0, 30, 300, 0), (16, 1, 1, 4, 0, 20, 300, 0)] if q else
            [(2, 1, 1, 6, 0, 1500, 12, 1), (3, 1, 0, 6, 0, 1500, 10, 1), (4, 1, 1, 7, 0, 1500, 10, 1), (8, 2, 1, 8, 1, 1000, 8, 1), (12, 1, 2, 9, 0, 800, 6, 1),
             (16, 1, 1, 9, 0, 1000, 6, 1), (16, 2, 1, 5, 1, 800, 6, 1), (16, 2, 2, 8, 0, 300, 2000, 0), (16, 1, 1, 4, 0, 300, 2000, 0), (16, 1, 1, 10, 1, 200, 3000, 0)])
    for k, (th, nb0, hint, maxb, hmode, bursts, ops, every) in enumerate(cfgs):
        keys = key_pool(rng, nb0, maxb, hmode, rng.range(8, 24) if every else rng.range(24, 64))
        ls.append('stress %d %d %d %d %d %d %d %d %d %d K %s' % (k, rng.next() % 1000000007, th, nb0, hint, maxb, hmode, bursts, ops, every, ' '.join(map(str, keys))))
    return ls


def run_stress(exe, line, timeout):
    out = {'runs': 0, 'viol': [], 'keys': set(), 'stats': {}, 'inconclusive': 0, 'samples': []}
    rc, text, err = pv.sh([exe], input=line + '\n', timeout=timeout)
    ops, impl, stats, viols = pv.parse_transcript(text)
    out['stats'] = stats
    for v in viols:
        out['viol'].append({'key': 'C32-stress-conservation', 'what': v, 'case': line})
    if rc != 0:
        out['viol'].append({'key': 'C32-harness-exit-%d' % rc, 'what': 'stress harness exited with %d: %s' % (rc, err[-500:]), 'case': line})
    state = {}
    expect_next = 0
    for o, r in zip(ops, impl):
        if o.startswith('stressdump'):
            for p in dump_problems(r, True):
                out['viol'].append({'key': 'C32-stress-structure', 'what': p, 'case': line})
        if not o.startswith('burst'):
            continue
        bno = int(o.split()[1])
        w = r.split()
        h, e = w.index('H'), w.index('E')
        recs, cnt = [], {}
        for x in w[h + 1:e]:
            t, kind, k, i, res, a, b = x.split(':')
            t = int(t); idx = cnt.get(t, 0); cnt[t] = idx + 1
            recs.append((t, idx, kind, int(k), int(i), conv_res(res), int(a), int(b)))
        final = {}
        dup = False
        for x in w[e + 1:]:
            k, i = x.split(':')
            if int(k) in final:
                dup = True
            final[int(k)] = int(i)
        out['runs'] += 1
        if dup:
            out['viol'].append({'key': 'C32-stress', 'what': 'two items with the same key stored after burst %d: %s' % (bno, ' '.join(w[e + 1:])), 'case': line})
        init = state if bno == expect_next else None
        if init is not None:
            bad, inc, _ = check_history(recs, init, final)
            out['inconclusive'] += inc
            for p in bad[:2]:
                out['viol'].append({'key': 'C32-stress', 'what': 'free-running burst %d: %s' % (bno, p), 'case': line})
            if not bad and not inc:
                out['keys'].add(zlib.crc32(r.encode()))
            if not out['samples'] and len(recs) > 8:
                out['samples'].append({'case': line[:200], 'burst': r[:600]})
        state = final
        expect_next = bno + 1
    return out


def corpus_cases():
    """corpus files: a seq case = first line `seq <params>` then op lines; a coop case = one line `coop ... | policy`"""
    seqs, coops = [], []
    for f in sorted(glob.glob(os.path.join(pv.ROOT, 'corpus', PROP, '*.case'))):
        ls = [l.strip() for l in open(f) if l.strip() and not l.startswith('#')]
        if not ls:
            continue
        if ls[0].startswith('seq '):
            seqs.append([ls[0][4:]] + ls[1:])
        else:
            coops += [l for l in ls if l.startswith('coop ')]
    return seqs, coops


def run(ctx, res, lines=None):
    exe = ctx.path('C32')
    exe_san = ctx.path('C32_san')
    src = os.path.join(pv.ROOT, 'harness', 'C32.c')
    ok, log = pv.cc_harness(src, exe, ctx.build)
    ok2, log2 = pv.cc_harness(src, exe_san, ctx.build, sanitize=True)
    if not ok or not ok2:
        res.infra_errors.append('harness compile failed: ' + (log if not ok else log2)[-1500:]); return
    rng = pv.Rng(ctx.seed)
    q = ctx.quick
    env = dict(os.environ, ASAN_OPTIONS='detect_leaks=1:abort_on_error=0', UBSAN_OPTIONS='print_stacktrace=1')
    cseq, ccoop = corpus_cases()
    stats_all, dist = {}, {}
    # ---------------- replay of recorded violations: only the recorded cases
    replay_seq, replay_coop, replay_stress = None, None, None
    if lines is not None:
        replay_seq = [[x.strip() for x in l[4:].split(' ; ')] for l in lines if l.startswith('seq ')]
        replay_coop = [l for l in lines if ' coop ' in (' ' + l)]
        replay_stress = [l for l in lines if l.startswith('stress ')]
    # ---------------- (1) sequential histories, structural comparison after every operation
    nseq = 300 if q else 3000
    cases = cseq + [gen_seq(rng.fork(k), q) for k in range(nseq)] if lines is None else replay_seq
    chunk = 100 if q else 250
    seq_total = {'resizes': 0, 'migr': 0, 'unlinks': 0, 'warn': 0, 'found': 0, 'rej': 0}

    def seq_batch(cs):
        text = '\n'.join(seq_lines(cs)) + '\n'
        rc, out, err = pv.sh([exe_san], input=text, timeout=400 if q else 2400, env=env)
        ops, impl, stats, viols = pv.parse_transcript(out)
        model = []
        derr = ''
        rcd = 0
        if ctx.driver_ok:
            rcd, model, derr = pv.run_driver('pv_C32', seq_lines(cs), timeout=400 if q else 2400)
        return cs, rc, err, ops, impl, stats, viols, rcd, model, derr
    batches = [cases[i:i + chunk] for i in range(0, len(cases), chunk)]
    with ThreadPoolExecutor(max_workers=4 if q else 6) as ex:
        seq_out = list(ex.map(seq_batch, batches))
    ophist = {}
    for cs, rc, err, ops, impl, stats, viols, rcd, model, derr in seq_out:
        for k2, v in stats.items():
            stats_all[k2] = stats_all.get(k2, 0) + v
        for v in viols:
            res.violations.append({'key': 'C32-harness-oracle', 'what': v, 'case': v})
        want = seq_lines(cs)
        if rc != 0 or len(ops) != len(want):
            last = ops[-1] if ops else None
            # the case in which the harness died
            j = len(ops)
            while j > 0 and not want[min(j, len(want) - 1)].startswith('case'):
                j -= 1
            res.violations.append({'key': 'C32-seq-crash', 'what': 'sequential harness exited with %d after %d of %d lines (last: %s): %s' % (rc, len(ops), len(want), last, err[-700:]),
                                   'case': 'seq ' + want[j].split(' ', 3)[3] + ' ; ' + ' ; '.join(want[j + 1:len(ops) + 1][:200])})
        if ctx.driver_ok:
            if rcd != 0:
                res.disagreements.append({'op': '<driver>', 'impl': '', 'model': 'driver exit %d: %s' % (rcd, derr[-300:])})
            dd = pv.compare(ops, impl, model[:len(ops)] if len(model) >= len(ops) else model)
            if dd:
                # shrink the first disagreeing case
                j = dd[0]['index']
                while j > 0 and not ops[j].startswith('case'):
                    j -= 1
                k = j + 1
                while k < len(ops) and not ops[k].startswith('case'):
                    k += 1
                hdr = ops[j].split(' ', 3)[3]
                body = ops[j + 1:k]

                def failing(sub):
                    return _seq_disagrees(exe_san, hdr, sub, env)
                try:
                    small = pv.ddmin(body[:dd[0]['index'] - j], failing, max_tests=150)
                except Exception:
                    small = body
                for d in dd[:5]:
                    d['case'] = 'seq %s ; %s' % (hdr, ' ; '.join(small))
                res.disagreements += dd[:5]
        # oracle per case
        starts = [i for i, o in enumerate(ops) if o.startswith('case')] + [len(ops)]
        for a, b in zip(starts, starts[1:]):
            bad, st = seq_oracle(ops[a:b], impl[a:b])
            res.evaluations += 1
            for kk in seq_total:
                seq_total[kk] += st[kk]
            for p in bad[:3]:
                res.violations.append({'key': 'C32-seq:' + p[:60], 'what': p, 'case': 'seq ' + ops[a].split(' ', 3)[3] + ' ; ' + ' ; '.join(ops[a + 1:b][:120])})
            if st['resizes'] >= 1 and st['migr'] >= 1 and not bad:
                res.nontrivial('seq%08x' % zlib.crc32(' '.join(ops[a:b]).split(' ', 2)[2].encode()))
            for o in ops[a + 1:b]:
                ophist[o.split()[0]] = ophist.get(o.split()[0], 0) + 1
        if len(res.samples) < 1 and len(ops) > 10:
            res.samples.append({'ops': ops[:10], 'impl': impl[:10]})
    # ---------------- (2) cooperative scheduler
    batches = []
    k = 0
    if ccoop and lines is None:
        batches.append(['case %d %s' % (i, l) for i, l in enumerate(ccoop)])
    if lines is not None:
        batches += [[l if l.startswith('case') else 'case 0 ' + l] for l in replay_coop]
    pct = []
    for c, cap in (small_coop(ctx) if lines is None else []):
        batches.append(['case %d coop %s | dfs %d' % (k, c, cap)]); k += 1
        for _ in range(30 if q else 600):
            pct.append('case %d coop %s | pct %d %d' % (k, c, rng.next() % 1000000007, rng.range(2, 4))); k += 1
    batches += [pct[i:i + 120] for i in range(0, len(pct), 120)]
    rnd = []
    for _ in range((400 if q else 10000) if lines is None else 0):
        pol = 'rng %d' % (rng.next() % 1000000007) if rng.chance(1, 2) else 'pct %d %d' % (rng.next() % 1000000007, rng.range(2, 4))
        rnd.append('case %d coop %s | %s' % (k, gen_coop(rng, q), pol)); k += 1
    ch = 100 if q else 500
    batches += [rnd[i:i + ch] for i in range(0, len(rnd), ch)]
    with ThreadPoolExecutor(max_workers=4 if q else 6) as ex:
        outs = list(ex.map(lambda b: run_coop_batch(exe, b, ctx.driver_ok, 400 if q else 2400), batches))
    # ---------------- (3) free-running stress
    with ThreadPoolExecutor(max_workers=2) as ex:
        souts = list(ex.map(lambda l: run_stress(exe, l, 300 if q else 1500), stress_lines(ctx, rng) if lines is None else replay_stress))
    if not ctx.driver_ok:
        res.notes.append('model driver unavailable: correspondence not run, oracles only')
    runs = steps = inconclusive = blocked = 0
    keys = set()
    for o in outs:
        runs += o['runs']; steps += o['steps']; inconclusive += o['inconclusive']; blocked += o['blocked_steps']
        res.disagreements += o['dis'][:5]
        res.violations += o['viol'][:10]
        keys |= o['keys']
        for k2, v in o['stats'].items():
            stats_all[k2] = stats_all.get(k2, 0) + v
        for k2, v in o['dist'].items():
            dist[k2] = dist.get(k2, 0) + v
        res.samples += o['samples'][:1]
    sruns = 0
    for o in souts:
        sruns += o['runs']; inconclusive += o['inconclusive']
        res.violations += o['viol'][:10]
        keys |= o['keys']
        for k2, v in o['stats'].items():
            stats_all[k2] = stats_all.get(k2, 0) + v
        res.samples += o['samples'][:1]
    res.disagreements = res.disagreements[:50]
    res.violations = res.violations[:40]
    res.samples = res.samples[:6]
    res.evaluations += runs + sruns
    for kk in keys:
        res.nontrivial('%08x' % kk)
    res.traces_validated = (len(cases) + runs) if ctx.driver_ok else 0
    res.rule = ('each evaluation = one execution of the real hash table: (a) a sequential history of 8-70 (thorough: -220) insert / find / remove / find-or-insert / for_all calls on mostly colliding keys with '
                'max_collisions_hint 0-3 and max_table_nb_bits close to the initial size, compared with the Lean model structurally (every table, bucket order, cur_len, used_buckets, next) after every call and with an '
                'independent map oracle; non-trivial = at least one resize and one migration out of an older table happened; (b) one schedule of 2-4 threads under the cooperative scheduler (DFS over all schedules of the '
                'listed small programs, capped in the quick tier; PCT and PRNG schedules for those and for random programs), replayed step by step on the model with a structural comparison after every step, and '
                'checked per key by a Wing-Gong search against the map specification; non-trivial = two threads overlap on one key and the table has or gets older tables; (c) one free-running burst of 2-16 threads '
                'checked per key by the Wing-Gong search with the for_all content as final state; distinct = CRC of (program, schedule) resp. of the burst history')
    res.extra['input_distribution'] = dict(stats_all, seq_ops=ophist, seq_events=seq_total, coop_operations=dist, scheduler_steps=steps, rwlock_blocked_steps=blocked,
                                           corpus_seq=len(cseq), corpus_coop=len(ccoop))
    res.extra['inconclusive'] = inconclusive
    if stats_all.get('dfs_exhausted_spaces', 0):
        res.extra['exhaustive_spaces'] = stats_all.get('dfs_exhausted_spaces', 0)


def _seq_disagrees(exe, hdr, body, env):
    lines = ['case 0 seq ' + hdr] + list(body)
    rc, out, err = pv.sh([exe], input='\n'.join(lines) + '\n', timeout=120, env=env)
    ops, impl, _, _ = pv.parse_transcript(out)
    rcd, model, _ = pv.run_driver('pv_C32', lines, timeout=120)
    return rc != 0 or impl != model[:len(impl)] or len(impl) != len(lines)


def replay(ctx, res, data):
    lines = []
    for v in list(data.get('violations', [])) + list(data.get('disagreements', [])):
        c = v.get('case', '')
        if (c.startswith('seq ') or c.startswith('stress ') or ' coop ' in (' ' + c)) and c not in lines:
            lines.append(c)
    run(ctx, res, lines=lines or None)
