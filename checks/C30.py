"""C30 — the lock-free LIFO is a linearizable stack."""
import os, glob, zlib
from concurrent.futures import ThreadPoolExecutor
import pv
PROP = 'C30'
LEAN_MODULE = 'ParsecVerif.Props.C30'
DRIVERS = ['pv_C30']
THEOREMS = ['ParsecVerif.C30.C30_linearizable', 'ParsecVerif.C30.C30_linearizable_complete', 'ParsecVerif.C30.C30_conservation',
            'ParsecVerif.C30.C30_pop_cas_sound', 'ParsecVerif.C30.C30_trypop_gives_up_only_on_interference', 'ParsecVerif.C30.C30_trypop_null_on_empty',
            'ParsecVerif.C30.C30_chain_order', 'ParsecVerif.C30.C30_chain_commit',
            'ParsecVerif.C30.C30_macro_is_micro', 'ParsecVerif.C30.mkConfig_WF']
IMPL = 'parsec/class/lifo.h (parsec_lifo_push, parsec_lifo_chain, parsec_lifo_pop, parsec_lifo_try_pop; branch PARSEC_ATOMIC_HAS_ATOMIC_CAS_INT128), parsec/class/parsec_lifo.c'
ENGINE = 'lean-coop'
LEVEL = 'proof'
LEVEL_TEXT = ('Lean 4 theorem C30_linearizable: for EVERY number of items and threads, every program of push / chain / pop / try_pop / owner writes of list_next per thread and EVERY '
              'interleaving at the granularity of single shared-memory accesses (finer than the atomic-operation granularity of the hooks), there is a sequential stack history with the '
              'same per-thread operations and results, legal for the sequential stack (pop returns the top, chain pushes the ring in ring order, pop returns NULL only on the empty stack), '
              'ending in the stack the heap really contains, and respecting real-time order (forward simulation, linearization points at the successful CAS resp. at the read of a NULL head; '
              'rely/guarantee invariant: while the head counter equals a popper\'s saved counter its saved item is still in the stack and the saved next is current). C30_conservation: in '
              'every reachable state the chain from the head has no duplicates and every item is either in the LIFO or owned by exactly one thread. C30_chain_order: pops following a chain '
              'return the ring in ring order. Tie, on every run: the real lifo.h inlines (128-bit CAS branch, compiled from the tree under test) run under the cooperative scheduler hooked '
              'at every atomic primitive and fence; every executed schedule is replayed on the compiled Lean model and compared per step (park kind, head counter, head item) and per '
              'operation result, final chain and all list_next fields: exhaustive DFS over all schedules for 2 threads x 2 operations and 3 threads x 1-2 operations (ABA shapes), '
              'PRNG schedules for up to 8 threads; C30_macro_is_micro proves that each scheduler step is a run of model steps.')
LEVEL_NOTE = ('In the sequential specification try_pop may return NULL at any time (it gives up when its CAS fails), as its API allows; separately proved: its CAS fails only if another thread\'s successful push/chain/pop took effect during the call (C30_trypop_gives_up_only_on_interference), and a NULL head is read only on an empty stack. Memory model: sequential consistency (x86-TSO effects, and the '
              'plain non-atomic 64-bit reads of the head, are not modelled beyond SC); the 64-bit ABA counter is an unbounded natural (no wrap-around). Hypotheses, explicit in the model: a thread '
              'pushes only items it owns (calls violating this are rejected, not issued); items are never freed while the LIFO is in use. Lock-freedom / termination of the retry loops is not claimed. '
              'The LL/SC and the lock-based branches of lifo.h are not compiled in this build and not covered. Free-running 2-16 thread stress with a multiset-conservation oracle (every burst) and a '
              'Wing-Gong linearizability search (sampled bursts, bounded search) is a search for counterexamples, not part of the proof. Trusted: Lean kernel, the cooperative scheduler and hook H1, the harness.')
TECHNIQUE = ('Lean 4 proof (rely/guarantee inductive invariant + forward simulation to a sequential stack over all interleavings of memory accesses); tie = step-by-step schedule replay '
             'of the real code under a cooperative scheduler (exhaustive for small configurations) plus free-running stress with conservation and Wing-Gong oracles')
ASSUMPTIONS = ['sequential consistency; the 128-bit CAS and the pointer CAS on the head are atomic w.r.t. each other',
               'a thread pushes / chains only items it owns, and a chained ring is linked in order (API precondition)',
               'items are not freed while another thread may still dereference them (PaRSEC recycles LIFO items)',
               'the 64-bit ABA counter does not wrap around']

# ------------------------------------------------------------------ case lines


def parse_case(line):
    """`case k N S a b T own ops.. T own ops..` -> (N, stack, owns, progs)"""
    w = line.split('|')[0].split()
    n = int(w[2])
    i = 4
    stack = []
    while i < len(w) and w[i] != 'T':
        stack.append(int(w[i])); i += 1
    owns, progs = [], []
    while i < len(w):
        i += 1
        owns.append([] if w[i] == '-' else [int(x) for x in w[i].split(',')])
        i += 1
        p = []
        while i < len(w) and w[i] != 'T':
            p.append(w[i]); i += 1
        progs.append(p)
    return n, stack, owns, progs


def parse_hist(words):
    """`t:op:res:inv:ret` -> records (tid, idx, kind, args, res, inv, ret); res: 'ok' | 'rej' | int"""
    recs, cnt = [], {}
    for x in words:
        t, op, r, a, b = x.split(':')
        t = int(t)
        k = cnt.get(t, 0); cnt[t] = k + 1
        args = [int(v) for v in op[1:].split(',')] if len(op) > 1 else []
        recs.append((t, k, op[0], args, r if r in ('ok', 'rej') else int(r), int(a), int(b)))
    return recs


# ------------------------------------------------------------------ the oracle: the property statement, executable
def seq_apply(kind, args, res, st):
    """sequential stack semantics; st = tuple, top first.  Returns the new stack or None if (op,res) is illegal."""
    if res == 'rej' or kind == 's':
        return st
    if kind in 'pc':
        for x in args:
            if x in st:
                return None
        return tuple(args) + st
    if kind in 'ot':
        if res == 0:
            return st if (kind == 't' or not st) else None
        if st and st[0] == res:
            return st[1:]
        return None
    return None


def linearizable(stack0, recs, final=None, budget=300000):
    """Wing-Gong search: is there a total order of the operations, consistent with real time (b.ret < a.inv, or
    program order), that is a legal sequential stack history (ending in `final` if given)?
    Returns True / False / None (search budget exhausted)."""
    n = len(recs)
    if n == 0:
        return final is None or tuple(stack0) == tuple(final)
    pred = [0] * n
    for a in range(n):
        ta, ka, _, _, _, ia, _ = recs[a]
        for b in range(n):
            if a != b:
                tb, kb, _, _, _, _, rb = recs[b]
                if rb < ia or (ta == tb and kb < ka):
                    pred[a] |= 1 << b
    order = sorted(range(n), key=lambda i: (recs[i][6], recs[i][5]))
    full = (1 << n) - 1
    fin = None if final is None else tuple(final)
    seen = set()
    todo = [(0, tuple(stack0))]
    nodes = 0
    while todo:
        mask, st = todo.pop()
        if mask == full:
            if fin is None or st == fin:
                return True
            continue
        if (mask, st) in seen:
            continue
        seen.add((mask, st))
        nodes += 1
        if nodes > budget:
            return None
        nxt = []
        for a in order:
            if not (mask >> a) & 1 and (pred[a] & ~mask) == 0:
                _, _, kind, args, res, _, _ = recs[a]
                s2 = seq_apply(kind, args, res, st)
                if s2 is not None:
                    nxt.append((mask | (1 << a), s2))
        todo.extend(reversed(nxt))
    return False


def conservation(n, stack0, owns, recs, final):
    """no element lost or duplicated: every item is in the final LIFO exactly once or held by exactly one thread"""
    held = {}
    for t, o in enumerate(owns):
        for x in o:
            held[x] = held.get(x, 0) + 1
    for t, k, kind, args, res, _, _ in recs:
        if kind in 'pc' and res == 'ok':
            for x in args:
                held[x] = held.get(x, 0) - 1
        if kind in 'ot' and isinstance(res, int) and res > 0:
            held[res] = held.get(res, 0) + 1
    bad = []
    items = set(stack0) | {x for o in owns for x in o}
    for x in sorted(items | set(final)):
        c = list(final).count(x) + held.get(x, 0)
        if c != 1 or x not in items:
            bad.append('item %d: %d time(s) in the LIFO, held %d time(s)' % (x, list(final).count(x), held.get(x, 0)))
    return bad


# ------------------------------------------------------------------ generators
def small_cases(ctx):
    """(case text, DFS cap).  Initial LIFO [2,1]; exhaustive schedule enumeration."""
    q = ctx.quick
    two = [  # 2 threads x 2 operations
        '3 S 2 1 T 3 o p3 T - o o',
        '4 S 2 1 T - o o T - o o',
        '4 S 2 1 T 3 p3 o T 4 p4 o',
        '2 S 2 1 T - o p2 T - o p2',            # pop + push-back of the same item by whoever got it
        '4 S 2 1 T - t t T 4 p4 t',
        '5 S 2 1 T 3,5 s3,5 c3,5 o T - o o',    # chain of a ring of two against two pops
        '3 S 1 T 2 o c2 T 3 c3 t',
    ]
    three = [  # 3 threads x 1-2 operations
        ('3 S 2 1 T - o T - o T 3 p3', 250 if q else 60000),
        ('3 S 2 1 T - o T - t T - o', 250 if q else 60000),
        ('2 S 2 1 T - o T - o p2 T - o', 300 if q else 60000),       # ABA shape: pop / pop+push-back / pop
        ('2 S 2 1 T - o T - o p2 T - t', 200 if q else 40000),
        ('3 S 2 1 T - t T - o c2 T 3 p3', 200 if q else 40000),
    ]
    # quick tier: one of the smaller 2x2 spaces (1246..3005 schedules, chosen by the seed) is enumerated completely,
    # the others are capped; the thorough tier enumerates all of them (up to 11501 schedules each)
    full = {[0, 1, 3, 4][ctx.seed % 4]}
    cases = [(c, 100000 if (not q or i in full) else 200) for i, c in enumerate(two)] + three
    # 2-thread ABA shapes, enumerated completely on every run (330 to 1400 schedules; the 1000-schedule one only in the thorough tier)
    cases += [('2 S 2 1 T - o T - o p2', 100000), ('2 S 2 1 T - o T - o o p2', 250 if q else 100000), ('2 S 2 1 T - t T - o p2', 100000),
              ('3 S 2 1 T - o T 3 o p3 p2', 100000)]     # pop against pop / push other / push-back: the stack changes under the re-pushed item
    if not q:
        cases += [('4 S 2 1 T - o p2 T - o p1 T - o p2', 30000), ('4 S 3 2 1 T - o o T - o p3 T 4 s4,0 c4', 30000)]
    return cases


def gen_random(rng, quick):
    nthr = rng.range(2, 5 if quick else 8)
    n = rng.range(2, 8)
    items = list(range(1, n + 1))
    # shuffle
    for i in range(n - 1, 0, -1):
        j = rng.below(i + 1); items[i], items[j] = items[j], items[i]
    ns = rng.range(0, n)
    stack, rest = items[:ns], items[ns:]
    owns = [[] for _ in range(nthr)]
    for x in rest:
        if rng.chance(5, 6):
            owns[rng.below(nthr)].append(x)
    words = ['%d' % n, 'S'] + [str(x) for x in stack]
    for t in range(nthr):
        mine = list(owns[t])
        ops = []
        for _ in range(rng.range(1, 5)):
            r = rng.below(100)
            if r < 34:
                ops.append('o'); mine.append(rng.range(1, n))          # may have popped anything
            elif r < 46:
                ops.append('t')
            elif r < 76:
                x = rng.choice(mine) if mine and rng.chance(4, 5) else rng.range(1, n)
                ops.append(('p%d' if rng.chance(3, 4) else 'c%d') % x)
                if x in mine:
                    mine.remove(x)
            elif r < 90 and len(set(mine)) >= 2:
                k = min(len(set(mine)), rng.range(2, 3))
                ring = []
                for x in mine:
                    if x not in ring and len(ring) < k:
                        ring.append(x)
                if rng.chance(9, 10):
                    for a, b in zip(ring, ring[1:]):
                        ops.append('s%d,%d' % (a, b))
                ops.append('c' + ','.join(map(str, ring)))
                for x in ring:
                    mine.remove(x)
            else:
                ops.append('s%d,%d' % (rng.range(1, n), rng.range(0, n)))
        words += ['T', ','.join(map(str, owns[t])) if owns[t] else '-'] + ops
    return ' '.join(words)


# ------------------------------------------------------------------ running one batch of case lines
def run_batch(exe, lines, driver_ok, timeout):
    """Runs the harness on `lines`, replays on the model, evaluates the oracle on every run.  Returns a summary dict."""
    out = {'runs': 0, 'steps': 0, 'dis': [], 'viol': [], 'keys': set(), 'stats': {}, 'samples': [], 'infra': [], 'dist': {}, 'inconclusive': 0}
    rc, text, err = pv.sh([exe], input='\n'.join(lines) + '\n', timeout=timeout)
    ops, impl, stats, viols = pv.parse_transcript(text)
    out['stats'] = stats
    for v in viols:
        out['viol'].append({'key': 'C30-harness-oracle', 'what': v, 'case': v})
    if rc != 0:
        out['viol'].append({'key': 'C30-harness-exit-%d' % rc, 'what': 'harness exited with %d after %d lines; last op: %s; stderr: %s' % (
            rc, len(ops), ops[-1] if ops else None, err[-500:]), 'case': lines[0] if lines else ''})
    # model replay (hist lines are for the oracle only)
    idx = [i for i, o in enumerate(ops) if o != 'hist' and not o.startswith('burst') and not o.startswith('stress')]
    if driver_ok and idx:
        mops = [ops[i] for i in idx]
        rcd, model, derr = pv.run_driver('pv_C30', mops, timeout=timeout)
        if rcd != 0:
            out['dis'].append({'op': '<driver>', 'impl': '', 'model': 'driver exit %d: %s' % (rcd, derr[-300:])})
        out['dis'] += pv.compare(mops, [impl[i] for i in idx], model)[:20]
    # split into runs
    starts = [i for i, o in enumerate(ops) if o.startswith('case')] + [len(ops)]
    cache = {}
    dist = out['dist']
    for a, b in zip(starts, starts[1:]):
        caseline = ops[a]
        if impl[a] != 'ok':
            continue
        steps = [ops[i].split()[1] for i in range(a + 1, b) if ops[i].startswith('step')]
        sched = ' '.join(steps)
        rets = hist = final = None
        for i in range(a + 1, b):
            if ops[i] == 'rets': rets = impl[i]
            elif ops[i] == 'hist': hist = impl[i]
            elif ops[i] == 'final': final = impl[i]
        out['runs'] += 1
        out['steps'] += len(steps)
        replay = caseline.split(' | ')[0] + ' | replay ' + sched
        if rets is None or rets == 'incomplete' or hist is None or final is None:
            out['inconclusive'] += 1
            continue
        n, stack0, owns, progs = parse_case(caseline)
        ck = (caseline.split(' | ')[0].split(' ', 2)[2], hist, final)
        if ck in cache:
            verdict, overl = cache[ck]
        else:
            recs = parse_hist(hist.split())
            fw = final.split('stack=')[1].split(' next=')[0]
            verdict = []
            if fw == 'broken':
                verdict.append('the chain from the head is cyclic or leaves the item pool')
                fstack = []
            else:
                fstack = [int(x) for x in fw.strip('[]').split()]
                lin = linearizable(stack0, recs, fstack)
                if lin is False:
                    verdict.append('history is not linearizable w.r.t. the sequential stack (initial %s, final %s): %s' % (stack0, fstack, hist))
                elif lin is None:
                    out['inconclusive'] += 1
                bad = conservation(n, stack0, owns, recs, fstack)
                if bad:
                    verdict.append('element lost or duplicated: ' + '; '.join(bad))
            overl = any(r1[0] != r2[0] and r1[5] <= r2[6] and r2[5] <= r1[6] for r1 in recs for r2 in recs)
            cache[ck] = (verdict, overl)
        for r in verdict:
            out['viol'].append({'key': 'C30:' + replay, 'what': r, 'case': replay})
        if overl:
            out['keys'].add(zlib.crc32((caseline.split(' | ')[0].split(' ', 2)[2] + '|' + sched).encode()))
        if len(out['samples']) < 2 and overl and len(steps) > 8:
            out['samples'].append({'case': replay, 'rets': rets, 'hist': hist, 'final': final})
    # stress bursts
    for i, o in enumerate(ops):
        if o.startswith('burst'):
            w = impl[i].split()
            s, h, e = w.index('S'), w.index('H'), w.index('E')
            stack0 = [int(x) for x in w[s + 1:h]]
            recs = parse_hist(w[h + 1:e])
            out['runs'] += 1
            if w[e + 1:] == ['broken']:
                continue   # reported by the harness as a conservation violation
            fstack = [int(x) for x in w[e + 1:]]
            if len(recs) > 64:
                continue
            lin = linearizable(stack0, recs, fstack, budget=60000)
            if lin is False:
                out['viol'].append({'key': 'C30-stress', 'what': 'free-running burst is not linearizable: ' + impl[i], 'case': impl[i]})
            elif lin is None:
                out['inconclusive'] += 1
            else:
                out['keys'].add(zlib.crc32(impl[i].encode()))
            out['stats']['wg_bursts'] = out['stats'].get('wg_bursts', 0) + 1
    # distribution of operations over all runs of this batch
    for a in starts[:-1]:
        for i in range(a + 1, len(ops)):
            if ops[i].startswith('case'):
                break
            if ops[i] == 'hist':
                for x in impl[i].split():
                    f = x.split(':')
                    kk = f[1][0] + (':rej' if f[2] == 'rej' else ':null' if f[2] == '0' else '')
                    dist[kk] = dist.get(kk, 0) + 1
    return out


def corpus_lines():
    ls = []
    for f in sorted(glob.glob(os.path.join(pv.ROOT, 'corpus', 'C30', '*.case'))):
        for l in open(f):
            l = l.strip()
            if l and not l.startswith('#'):
                ls.append(l)
    return ls


def stress_lines(ctx, rng):
    q = ctx.quick
    ls = []
    k = 0
    for th, items, bursts, ops in ([(2, 3, 300, 4), (3, 4, 300, 3), (4, 5, 200, 3), (8, 6, 100, 2), (16, 9, 40, 2)] if q else
                                   [(2, 3, 6000, 4), (3, 3, 6000, 4), (4, 5, 5000, 3), (6, 6, 3000, 3), (8, 6, 3000, 2), (12, 8, 1500, 2), (16, 9, 1500, 2), (16, 24, 1000, 2)]):
        ls.append('stress %d %d %d %d %d %d %d' % (k, rng.next() % 1000000007, th, items, bursts, ops, 1 if q else 3)); k += 1
    # long bursts: conservation only
    for th, items in ([(4, 4), (16, 12)] if q else [(2, 2), (4, 4), (8, 5), (16, 12), (16, 40)]):
        ls.append('stress %d %d %d %d %d %d %d' % (k, rng.next() % 1000000007, th, items, 6 if q else 60, 20000 if q else 50000, 0)); k += 1
    return ls


def run(ctx, res, lines=None):
    exe = ctx.path('C30')
    ok, log = pv.cc_harness(os.path.join(pv.ROOT, 'harness', 'C30.c'), exe, ctx.build)
    if not ok:
        res.infra_errors.append('harness compile failed: ' + log[-1500:]); return
    rng = pv.Rng(ctx.seed)
    batches = []
    exhaustive_expected = 0
    if lines is not None:
        batches = [[l] for l in lines]
    else:
        k = 0
        cl = corpus_lines()
        if cl:
            batches.append(cl)
        pct = []
        for c, cap in small_cases(ctx):
            batches.append(['case %d %s | dfs %d' % (k, c, cap)]); k += 1
            # the same programs under priority scheduling with 1-2 change points (reaches the deep orderings a capped DFS prefix misses)
            for _ in range(50 if ctx.quick else 1000):
                pct.append('case %d %s | pct %d %d' % (k, c, rng.next() % 1000000007, rng.range(2, 4))); k += 1
        batches += [pct[i:i + 240] for i in range(0, len(pct), 240)]
        rnd = []
        for _ in range(300 if ctx.quick else 10000):
            pol = 'rng %d' % (rng.next() % 1000000007) if rng.chance(1, 2) else 'pct %d %d' % (rng.next() % 1000000007, rng.range(2, 4))
            rnd.append('case %d %s | %s' % (k, gen_random(rng, ctx.quick), pol)); k += 1
        chunk = 100 if ctx.quick else 1000
        batches += [rnd[i:i + chunk] for i in range(0, len(rnd), chunk)]
        batches += [[l] for l in stress_lines(ctx, rng)]
    workers = 4 if ctx.quick else 6
    with ThreadPoolExecutor(max_workers=workers) as ex:
        outs = list(ex.map(lambda b: run_batch(exe, b, ctx.driver_ok, 3000), batches))
    if not ctx.driver_ok:
        res.notes.append('model driver unavailable: correspondence not run, oracle only')
    stats, dist, keys = {}, {}, set()
    runs = steps = inconclusive = 0
    for o in outs:
        runs += o['runs']; steps += o['steps']; inconclusive += o['inconclusive']
        res.disagreements += o['dis']
        res.violations += o['viol'][:10]
        keys |= o['keys']
        for k2, v in o['stats'].items():
            stats[k2] = stats.get(k2, 0) + v
        for k2, v in o['dist'].items():
            dist[k2] = dist.get(k2, 0) + v
        res.samples += o['samples'][:1]
    res.disagreements = res.disagreements[:50]
    res.violations = res.violations[:40]
    res.samples = res.samples[:6]
    res.evaluations = runs
    for kk in keys:
        res.nontrivial('%08x' % kk)
    res.traces_validated = runs - stats.get('wg_bursts', 0) if ctx.driver_ok else 0
    res.rule = ('each evaluation = one complete execution of the real LIFO code: (a) a schedule of 2-8 threads running small programs of push/chain/pop/try_pop/owner-write under the '
                'cooperative scheduler (exhaustive DFS over all schedules for the listed 2x2 and 3x1-2 configurations, capped in the quick tier; PRNG and priority (PCT, 1-3 change points) schedules for the same and for random programs), replayed step by '
                'step on the Lean model, or (b) one free-running burst of 2-16 real threads checked by the Wing-Gong search. distinct = CRC of (program, schedule) resp. of the burst history; '
                'non-trivial = at least two operations of different threads overlap in time (and, for bursts, the search concluded)')
    res.extra['input_distribution'] = dict(stats, operations=dist, scheduler_steps=steps)
    res.extra['inconclusive'] = inconclusive
    if lines is None and stats.get('dfs_exhausted_spaces', 0):
        res.extra['exhaustive_spaces'] = stats.get('dfs_exhausted_spaces', 0)


def replay(ctx, res, data):
    lines = [v['case'] for v in data.get('violations', []) if v.get('case', '').startswith('case')]
    run(ctx, res, lines=lines or None)
