"""C23 — PTG task keys identify task instances uniquely."""
import os, json, concurrent.futures
import pv, pvptg, ptg_gen
PROP = 'C23'
LEAN_MODULE = 'ParsecVerif.Props.C23'
DRIVERS = ['pv_PTG']
THEOREMS = ['ParsecVerif.C23.injective_sem', 'ParsecVerif.C23.C23_injective', 'ParsecVerif.C23.C23_distinct_keys',
            'ParsecVerif.C23.C23_print_partial', 'ParsecVerif.C23.witness_prints_wrong', 'ParsecVerif.C23.C23_print_full_false',
            'ParsecVerif.Ptg.digitsOK_of_mem', 'ParsecVerif.Ptg.keyH_inj', 'ParsecVerif.Ptg.keyZ_eq_keyH']
IMPL = 'parsec/interfaces/ptg/ptg-compiler/jdf2c.c (jdf_generate_hashfunction_for, jdf_generate_internal_init min/max collection, jdf_generate_deps_key_functions) — the generated make_key / key_print'
ENGINE = 'lean-seq'
LEVEL = 'proof'
LEVEL_TEXT = ('Lean 4 theorems for every program of the JDF AST and, at the semantic level, for ARBITRARY range functions (bounds and steps depending on outer locals through any '
              'function, negative bounds and steps, derived locals and parameters defined by expressions): (1) C23_injective — two instances of the execution space of a class that '
              'receive the same make_key value are the same instance, under the explicit decidable hypothesis NoOverflow (unbounded keys within 2^64 of each other); proof by '
              'successive-digit decoding over the (min, range) pairs exactly as internal_init collects them (a derived parameter is recovered as a function of the digits already '
              'decoded). (2) C23_print_partial — when no parameter is defined by an expression, key_print(make_key a) yields exactly the parameter values and the name of a. '
              '(3) C23_print_full_false — the unrestricted printing statement is FALSE of the generated code: kernel-checked witness T(i,k=2*i+1,j), replayed on the real generated '
              'code on every run (known finding). The model is tied to the current source on every run: random parameter-space shapes are compiled by the current parsec-ptgpp, '
              'linked with libparsec and run; make_key and key_print of the GENERATED C are called over the whole enumerated space and compared value by value with the compiled '
              'Lean model, together with the announced task count; an independent oracle evaluates the property statement (pairwise distinct keys, printed name) on those outputs.')
LEVEL_NOTE = ('Theorems are about the model (Model/Ptg.lean) of the generated code for the subset: range parameters and expression-defined locals/parameters; user-defined make_key / '
              'hash structs, local-index definitions `[i = ..]`, range locals that are not parameters and task classes without parameters are not covered. int32 overflow inside '
              'internal_init (max-min+1) is excluded by assumption (bounded ranges); uint64 wrap-around of the key itself IS modelled and probed (corpus 003). '
              'Printing is a theorem only without expression-defined parameters; with them it is false (finding). Trusted: Lean kernel, propext/Classical.choice/Quot.sound, '
              'the generator emitting JDF text and AST from one value (validated on every case against an independent enumeration and the generated C), harness/ptg_rt.c.')
TECHNIQUE = 'Lean 4 proof (mixed-radix digit decoding for arbitrary range functions) on a model of the generated key code, tied by differential runs of generated programs through the current ptgpp'
ASSUMPTIONS = ['parameter values, bounds and (max-min+1) fit int32 (generated ranges are small; the uint64 wrap of the key is modelled)',
               'range locals are parameters of their class (jdf.c only warns otherwise)']

KNOWN_PRINT_KEY = 'key_print-wrong-for-expression-defined-parameter'


def load_corpus():
    d = os.path.join(pv.ROOT, 'corpus', PROP)
    out = []
    if os.path.isdir(d):
        for f in sorted(os.listdir(d)):
            if f.endswith('.case'):
                p = ptg_gen.Program.from_case(open(os.path.join(d, f)).read())
                p.name = 'c' + f[:3]
                p.origin = 'corpus/' + f
                out.append(p)
    return out


def has_neg(prog, g):
    for c in prog.classes:
        for l in c['locals']:
            if l['kind'] == 'R' and (l['step'][0] != 'c' or l['step'][1] <= 0):
                return True     # an expression step might be negative too: use the short timeout
    return False


def one_case(ctx, prog, g, exe, backend):
    """run one (program, globals): returns dict(ops, impl, model, fails, stats)"""
    r = {'prog': prog.name, 'g': list(g), 'backend': backend, 'fails': [], 'dis': [], 'known': [], 'n': 0, 'hyps': [], 'crash': None}
    m = pvptg.Model(prog, g)
    nc = len(prog.classes)
    lines = m.ask(['space %d' % c for c in range(nc)] + ['hyps %d' % c for c in range(nc)])
    spaces = [pvptg.parse_space(l) for l in lines[:nc]]
    r['hyps'] = lines[nc:]
    # the generator pair (JDF text / AST) is validated against an independent enumeration of the declared space
    for c in range(nc):
        decl = ptg_gen.declared_space(prog, g, c)
        if set(spaces[c]) != decl or len(spaces[c]) != len(decl):
            r['dis'].append({'op': 'space %d' % c, 'impl': 'declared(python) %d instances' % len(decl), 'model': '%d instances' % len(spaces[c])})
    kf = os.path.join(os.path.dirname(exe), 'keys-%s.txt' % '_'.join(str(x) for x in g))
    pvptg.write_keyfile(kf, spaces)
    rc, out, err = pvptg.run_exe(exe, g, threads=2, keyfile=kf, timeout_ms=500 if has_neg(prog, g) else 8000)
    ops, impl, stats, viols = pv.parse_transcript(out)
    sel = [i for i, o in enumerate(ops) if o.split()[0] in ('count', 'key')]
    ops2, impl2 = [ops[i] for i in sel], [impl[i] for i in sel]
    r['n'] = len(ops2)
    if rc not in (0, 3) or not ops2:
        r['crash'] = 'exit %s after %d ops: %s' % (rc, len(ops), err[-400:])
        return r
    model = m.ask(ops2) if ops2 else []
    r['dis'] += pv.compare(ops2, impl2, model)[:5]
    # ---- independent oracle of the property statement, on the implementation's outputs
    seen = {}
    nkeys = sum(len(s) for s in spaces)
    if len([o for o in ops2 if o.startswith('key')]) != nkeys:
        r['fails'].append('transcript has %d key lines for %d instances' % (len(ops2) - 1, nkeys))
    for o, res in zip(ops2, impl2):
        w = o.split()
        if w[0] != 'key':
            continue
        c, env = int(w[1]), tuple(int(x) for x in w[2:])
        key, printed = res.split(' ', 1)
        params = ptg_gen.params_of(prog, c, env)
        if (c, key) in seen and seen[(c, key)] != params:
            r['fails'].append('two instances of %s share key %s: parameters %s and %s' % (prog.classes[c]['name'], key, seen[(c, key)], params))
        seen[(c, key)] = params
        want = ptg_gen.inst_name(prog, c, env)
        if printed != want and getattr(prog, 'meta', {}).get('expect') != 'wrap':   # (corpus 003: key beyond 2^64 on purpose)
            derived = any(l['kind'] == 'D' and l['param'] for l in prog.classes[c]['locals'])
            (r['known'] if derived else r['fails']).append('key_print(make_key(%s)) printed "%s"' % (want, printed))
    r['instances'] = nkeys
    # the runtime uses the keys in its dependency hash tables and data repositories: a program with positive steps must also
    # RUN to completion, every instance exactly once
    if not has_neg(prog, g):
        ran = {}
        for k, c, env, th in pvptg.events_of(ops):
            if k == 'B':
                ran[(c, env)] = ran.get((c, env), 0) + 1
        want = {(c, a) for c in range(nc) for a in spaces[c]}
        if impl[-1:] != ['complete']:
            r['fails'].append('the program did not run to completion: end => %s' % (impl[-1] if impl else None))
        elif set(ran) != want or any(v != 1 for v in ran.values()):
            r['fails'].append('executed instances differ from the space: %d distinct executed, %d in the space' % (len(ran), len(want)))
    return r


def run(ctx, res, cases=None):
    rng = pv.Rng(ctx.seed)
    corpus = load_corpus()
    if cases is None:
        n = 9 if ctx.quick else 120
        progs = (corpus + ptg_gen.gen_programs(rng, n, 'shapes', 'k') + ptg_gen.gen_programs(rng.fork(777), 3 if ctx.quick else 30, 'full', 'f') +
                 ptg_gen.gen_programs(rng.fork(555), 4 if ctx.quick else 40, 'wide', 'w'))
    else:
        progs = cases
    built, err = pvptg.build_many(ctx, progs, pvptg.BACKENDS[:1])
    if built is None:
        res.infra_errors.append(err); return
    work = []
    for p in progs:
        exe, log = built[(p.name, pvptg.BACKENDS[0])]
        if exe is None:
            res.infra_errors.append('program %s does not build: %s' % (p.name, log[-800:]))
            continue
        for g in p.gvecs:
            work.append((p, g, exe))
    results = []
    with concurrent.futures.ThreadPoolExecutor(max_workers=5) as ex:
        futs = [ex.submit(one_case, ctx, p, g, exe, 'ht') for (p, g, exe) in work]
        for (p, g, exe), f in zip(work, futs):
            try:
                results.append((p, g, f.result()))
            except Exception as e:
                res.infra_errors.append('case %s %s raised %r' % (p.name, g, e))
    feat, hyp = {}, {'classes': 0, 'rap': 0, 'noov': 0, 'printhyp': 0, 'fits': 0, 'stepspos': 0}
    known_n = 0
    for p, g, r in results:
        res.evaluations += r['n']
        case = json.loads(p.to_case({'gvecs': [list(g)]}))
        if r['crash']:
            res.violations.append({'key': 'crash:%s:%s' % (p.name, g), 'what': 'generated program crashed / produced nothing: ' + r['crash'], 'case': case})
            continue
        for d in r['dis']:
            d = dict(d); d['case'] = case
            res.disagreements.append(d)
        if r['fails']:
            res.violations.append({'key': 'C23:%s' % p.ser(g)[:400], 'what': r['fails'][0], 'all_failures': r['fails'][:5], 'case': case})
        if r['known']:
            known_n += len(r['known'])
            if not any(v['key'] == KNOWN_PRINT_KEY for v in res.violations):
                res.violations.append({'key': KNOWN_PRINT_KEY, 'what': r['known'][0], 'case': case})
        if r.get('instances', 0) >= 2:
            res.nontrivial(p.ser(g))
        res.traces_validated += 1
        for h in r['hyps']:
            w = h.split()
            hyp['classes'] += 1
            for i in range(0, len(w) - 1, 2):
                hyp[w[i]] = hyp.get(w[i], 0) + int(w[i + 1])
    for p in progs:
        for k, v in p.features().items():
            feat[k] = feat.get(k, 0) + v
    res.rule = ('corpus programs first, then random parameter-space shapes (gen/ptg_gen.py mode "shapes": 1-3 classes, 1-4 range parameters, negative bounds, negative / constant / '
                'expression steps, bounds depending on outer locals, derived locals and expression-defined parameters) and some full programs, each compiled once by the current ptgpp '
                'and run with 3 vectors of integer globals; every instance of the enumerated space is one make_key + key_print evaluation of the generated C; '
                'distinct = distinct (program, globals); non-trivial = at least 2 instances')
    res.samples = [{'program': p.ser(g)[:300], 'globals': list(g), 'instances': r.get('instances'), 'hypotheses': r['hyps']} for p, g, r in results[:4]]
    res.extra['input_distribution'] = {'programs': len(progs), 'corpus': len(corpus), 'shapes_run': len(results), 'features': feat,
                                       'theorem_hypotheses_satisfied_per_class': hyp, 'instances_printing_wrong_known_finding': known_n}


def replay(ctx, res, data):
    cases = []
    for v in data.get('violations', []) + data.get('disagreements', []):
        if 'case' in v:
            p = ptg_gen.Program.from_case(v['case'])
            p.name = 'r%d' % len(cases)
            cases.append(p)
    run(ctx, res, cases=cases or None)
