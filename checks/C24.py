"""C24 — the PTG compiler accepts only programs it can compile."""
import os, re, json, signal, subprocess, hashlib, shutil
from concurrent.futures import ThreadPoolExecutor
import pv

PROP = 'C24'
LEAN_MODULE = 'ParsecVerif.Props.C24'
DRIVERS = ['pv_C24']
THEOREMS = []
IMPL = ('parsec/interfaces/ptg/ptg-compiler: parsec.y (function rule), jdf.c (jdf_assign_ldef_index, jdf_flatten_function, '
        'jdf_sanity_check_flows_and_deps_number, jdf_sanity_checks), main.c (main), jdf2c.c (jdf_generate_task_typedef, '
        'jdf_generate_dataflow, jdf_generate_one_function); the parsec-ptgpp executable end to end')
ENGINE = 'lean-seq'
LEVEL = 'other'

ACC_KW = {'c': 'CTL', 'r': 'READ', 'w': 'WRITE', 'x': 'RW'}


# ------------------------------------------------------------------ shapes (same tokens as lean/Driver/C24.lean)
def parse_shape(ws):
    """tokens -> [{'nl':..,'ll':..,'flows':[{'acc':..,'deps':[{'out':bool,'g':'u|b|t','a':..,'b':..,'c':..}]}]}]"""
    funcs = []
    i = 0
    while i < len(ws):
        t = ws[i]
        if t == 'f':
            funcs.append({'nl': int(ws[i + 1]), 'll': int(ws[i + 2]), 'flows': []})
            i += 3
        elif t == 'fl':
            funcs[-1]['flows'].append({'acc': ws[i + 1], 'deps': []})
            i += 2
        elif t == 'd':
            funcs[-1]['flows'][-1]['deps'].append({'out': ws[i + 1] == 'o', 'g': ws[i + 2], 'a': int(ws[i + 3]),
                                                   'b': int(ws[i + 4]), 'c': int(ws[i + 5])})
            i += 6
        else:
            raise ValueError('bad shape token %r' % t)
    return funcs


def shape_tokens(funcs):
    ws = []
    for f in funcs:
        ws += ['f', str(f['nl']), str(f['ll'])]
        for fl in f['flows']:
            ws += ['fl', fl['acc']]
            for d in fl['deps']:
                ws += ['d', 'o' if d['out'] else 'i', d['g'], str(d['a']), str(d['b']), str(d['c'])]
    return ws


def _ldefs(prefix, n, ranged):
    if n == 0:
        return '', []
    names = ['%s%d' % (prefix, k) for k in range(n)]
    return '[ ' + ', '.join('%s = %s' % (v, '0 .. 1' if ranged else '1') for v in names) + ' ] ', names


def render_shape(funcs):
    """A JDF program that has exactly this shape and passes every other check of ptgpp."""
    o = ['extern "C" %{', '#include "parsec.h"', '%}', '', 'A   [type = "parsec_data_collection_t*"]', 'NT  [type = int]', '']
    for j, f in enumerate(funcs):
        ll = f['ll']
        params = ['k'] + ['p%d' % n for n in range(1, ll + 1)]
        o.append('T%d(%s)' % (j, ', '.join(params)))
        o.append('  k = 0 .. NT')
        for n in range(1, f['nl']):
            if n <= ll:
                o.append('  p%d = [ q%d = 0 .. 1 ] 2 * q%d' % (n, n, n))
            else:
                o.append('  l%d = k + %d' % (n, n))
        o.append(': A(k, 0)')
        o.append('')
        for i, fl in enumerate(f['flows']):
            head = '  %-5s F%d ' % (ACC_KW[fl['acc']], i)
            pad = ' ' * len(head)
            lines = []
            for n, d in enumerate(fl['deps']):
                arrow = '->' if d['out'] else '<-'
                ranged = d['out']
                pre, an = _ldefs('a%d_%d_' % (i, n), d['a'], ranged)

                def target(nld, prefix, false_branch=False):
                    if fl['acc'] == 'w' and not d['out']:
                        return 'NEW'
                    if false_branch and nld == 0 and fl['acc'] != 'c' and not d['out']:
                        return 'NEW'        # two data references in one ternary do not compile (finding F6)
                    if fl['acc'] == 'c' or nld > 0 or false_branch:
                        s, names = _ldefs('%s%d_%d_' % (prefix, i, n), nld, ranged)
                        e = 'k' + ''.join(' + %s' % v for v in names) + (' + 1' if d['out'] else ' - 1')
                        return '%sF%d T%d(%s)' % (s, i, j, ', '.join([e] + ['0'] * ll))
                    return 'A(k, 0)'
                g = '(k == %d)' % n
                if d['g'] == 'u':
                    s = target(d['b'], 'b')
                elif d['g'] == 'b':
                    s = '%s ? %s' % (g, target(d['b'], 'b'))
                else:
                    s = '%s ? %s : %s' % (g, target(d['b'], 'b'), target(d['c'], 'c', True))
                lines.append('%s %s%s' % (arrow, pre, s))
            o.append(head + (('\n' + pad).join(lines) if lines else ''))
        o.append('')
        o.append('BODY')
        o.append('{')
        o.append('    (void)k;')
        o.append('}')
        o.append('END')
        o.append('')
    return '\n'.join(o) + '\n'


def _task_target(fl, d):
    """directions in which dependency d of flow fl is rendered with a task as peer"""
    if fl['acc'] == 'w' and not d['out']:
        return False
    if fl['acc'] == 'c' or d['b'] > 0:
        return True
    if d['g'] == 't':
        return d['out'] or d['c'] > 0
    return False


def renderable(funcs):
    """Side conditions under which render_shape yields a program that passes every check of ptgpp other than
    the limits: READ/RW flows have an input; the inputs of a WRITE flow are `<- NEW`; a flow that receives from
    (sends to) a task must also have an output (input) because the peer is the same flow of the same task class."""
    for f in funcs:
        if f['nl'] < 1 or f['ll'] > f['nl'] - 1:
            return False
        for fl in f['flows']:
            nin = sum(1 for d in fl['deps'] if not d['out'])
            nout = len(fl['deps']) - nin
            if fl['acc'] in 'rx' and nin == 0:
                return False
            for d in fl['deps']:
                if d['g'] != 't' and d['c'] != 0:
                    return False
                if fl['acc'] == 'w' and not d['out'] and (d['g'], d['a'], d['b'], d['c']) != ('u', 0, 0, 0):
                    return False
                if _task_target(fl, d) and (nin == 0 or nout == 0):
                    return False
    return len(funcs) > 0


# ------------------------------------------------------------------ running the real compiler
def run_ptgpp(exe, jdf, outbase, flags=(), timeout=60, env=None):
    """One run of parsec-ptgpp.  Returns dict rc/sig/out/err/c/h (bytes of the emitted files or None)."""
    for ext in ('.c', '.h'):
        try:
            os.unlink(outbase + ext)
        except OSError:
            pass
    jdf, outbase = os.path.abspath(jdf), os.path.abspath(outbase)
    cmd = [exe, '--noline', '-E'] + list(flags) + ['-i', jdf, '-o', outbase, '-f', os.path.basename(outbase)]
    e = dict(os.environ)
    if env:
        e.update(env)
    try:
        p = subprocess.run(cmd, capture_output=True, timeout=timeout, env=e, cwd=os.path.dirname(outbase) or '.')
        rc, out, err = p.returncode, p.stdout, p.stderr
    except subprocess.TimeoutExpired as ex:
        rc, out, err = -signal.SIGALRM, ex.stdout or b'', (ex.stderr or b'') + b'\n[timeout]'
    r = {'rc': rc if rc >= 0 else None, 'sig': -rc if rc < 0 else 0,
         'out': out.decode(errors='replace'), 'err': err.decode(errors='replace'), 'c': None, 'h': None, 'cmd': ' '.join(cmd)}
    for ext in ('c', 'h'):
        try:
            r[ext] = open(outbase + '.' + ext, 'rb').read()
        except OSError:
            pass
    return r


_cc_inc = {}


def cc_syntax(build, cfile, timeout=120):
    """`gcc -fsyntax-only` on emitted C with the include paths of pv.cc_harness.  Returns (ok, stderr)."""
    if build not in _cc_inc:
        mc, _ = pv.mpi_flags()
        _cc_inc[build] = ['-I' + pv.REPO, '-I' + os.path.join(pv.REPO, 'parsec', 'include'), '-I' + build,
                          '-I' + os.path.join(build, 'parsec', 'include')] + mc
    cfile = os.path.abspath(cfile)
    cmd = ['gcc', '-fsyntax-only', '-w', '-I' + os.path.dirname(cfile)] + _cc_inc[build] + [cfile]
    rc, out, err = pv.sh(cmd, timeout=timeout)
    return rc == 0, err
