"""C24 — the PTG compiler accepts only programs it can compile."""
import os, re, json, signal, subprocess, hashlib, shutil
from concurrent.futures import ThreadPoolExecutor
import pv

PROP = 'C24'
LEAN_MODULE = 'ParsecVerif.Props.C24'
DRIVERS = ['pv_C24']

IMPL = ('parsec/interfaces/ptg/ptg-compiler: parsec.y (function rule), jdf.c (jdf_assign_ldef_index, jdf_flatten_function, '
        'jdf_sanity_check_flows_and_deps_number, jdf_sanity_checks), main.c (main), jdf2c.c (jdf_generate_task_typedef, '
        'jdf_generate_dataflow, jdf_generate_one_function); the parsec-ptgpp executable end to end')
ENGINE = 'lean-seq'
LEVEL = 'other'
BUILD_TARGETS = ('parsec-ptgpp',)      # the compiler and the parsec-base library it links; libparsec itself is not needed

ACC_KW = {'c': 'CTL', 'r': 'READ', 'w': 'WRITE', 'x': 'RW'}


# ------------------------------------------------------------------ shapes (same tokens as lean/Driver/C24.lean)
def parse_shape(ws):
    """tokens -> [{'nl':..,'ll':..,'flows':[{'acc':..,'deps':[{'out':bool,'g':'u|b|t','a':..,'b':..,'c':..}]}]}]"""
    funcs = []
    i = 0
    while i < len(ws):
        t = ws[i]
        if t == 'f':
            funcs.append({'nl': int(ws[i + 1]), 'll': int(ws[i + 2]), 'flows': []})
            i += 3
        elif t == 'fl':
            funcs[-1]['flows'].append({'acc': ws[i + 1], 'deps': []})
            i += 2
        elif t == 'd':
            funcs[-1]['flows'][-1]['deps'].append({'out': ws[i + 1] == 'o', 'g': ws[i + 2], 'a': int(ws[i + 3]),
                                                   'b': int(ws[i + 4]), 'c': int(ws[i + 5])})
            i += 6
        else:
            raise ValueError('bad shape token %r' % t)
    return funcs


def shape_tokens(funcs):
    ws = []
    for f in funcs:
        ws += ['f', str(f['nl']), str(f['ll'])]
        for fl in f['flows']:
            ws += ['fl', fl['acc']]
            for d in fl['deps']:
                ws += ['d', 'o' if d['out'] else 'i', d['g'], str(d['a']), str(d['b']), str(d['c'])]
    return ws


def _ldefs(prefix, n, ranged):
    if n == 0:
        return '', []
    names = ['%s%d' % (prefix, k) for k in range(n)]
    return '[ ' + ', '.join('%s = %s' % (v, '0 .. 1' if ranged else '1') for v in names) + ' ] ', names


def render_shape(funcs):
    """A JDF program that has exactly this shape and passes every other check of ptgpp."""
    o = ['extern "C" %{', '#include "parsec.h"', '%}', '', 'A   [type = "parsec_data_collection_t*"]', 'NT  [type = int]', '']
    for j, f in enumerate(funcs):
        ll = f['ll']
        params = ['k'] + ['p%d' % n for n in range(1, ll + 1)]
        o.append('T%d(%s)' % (j, ', '.join(params)))
        o.append('  k = 0 .. NT')
        for n in range(1, f['nl']):
            if n <= ll:
                o.append('  p%d = [ q%d = 0 .. 1 ] 2 * q%d' % (n, n, n))
            else:
                o.append('  l%d = k + %d' % (n, n))
        o.append(': A(k, 0)')
        o.append('')
        for i, fl in enumerate(f['flows']):
            head = '  %-5s F%d ' % (ACC_KW[fl['acc']], i)
            pad = ' ' * len(head)
            lines = []
            for n, d in enumerate(fl['deps']):
                arrow = '->' if d['out'] else '<-'
                ranged = d['out']
                pre, an = _ldefs('a%d_%d_' % (i, n), d['a'], ranged)

                def target(nld, prefix, false_branch=False):
                    if fl['acc'] == 'w' and not d['out']:
                        return 'NEW'
                    if false_branch and nld == 0 and fl['acc'] != 'c' and not d['out']:
                        return 'NEW'        # two data references in one ternary do not compile (finding F6)
                    if fl['acc'] == 'c' or nld > 0 or false_branch:
                        s, names = _ldefs('%s%d_%d_' % (prefix, i, n), nld, ranged)
                        e = 'k' + ''.join(' + %s' % v for v in names) + (' + 1' if d['out'] else ' - 1')
                        return '%sF%d T%d(%s)' % (s, i, j, ', '.join([e] + ['0'] * ll))
                    return 'A(k, 0)'
                g = '(k == %d)' % n
                if d['g'] == 'u':
                    s = target(d['b'], 'b')
                elif d['g'] == 'b':
                    s = '%s ? %s' % (g, target(d['b'], 'b'))
                else:
                    s = '%s ? %s : %s' % (g, target(d['b'], 'b'), target(d['c'], 'c', True))
                lines.append('%s %s%s' % (arrow, pre, s))
            o.append(head + (('\n' + pad).join(lines) if lines else ''))
        o.append('')
        o.append('BODY')
        o.append('{')
        o.append('    (void)k;')
        o.append('}')
        o.append('END')
        o.append('')
    return '\n'.join(o) + '\n'


def _task_target(fl, d):
    """directions in which dependency d of flow fl is rendered with a task as peer"""
    if fl['acc'] == 'w' and not d['out']:
        return False
    if fl['acc'] == 'c' or d['b'] > 0:
        return True
    if d['g'] == 't':
        return d['out'] or d['c'] > 0
    return False


def renderable(funcs):
    """Side conditions under which render_shape yields a program that passes every check of ptgpp other than
    the limits: READ/RW flows have an input; the only input of a WRITE flow is one `<- NEW`; a flow that receives from
    (sends to) a task must also have an output (input) because the peer is the same flow of the same task class."""
    for f in funcs:
        if f['nl'] < 1 or f['ll'] > f['nl'] - 1:
            return False
        for fl in f['flows']:
            nin = sum(1 for d in fl['deps'] if not d['out'])
            nout = len(fl['deps']) - nin
            if fl['acc'] in 'rx' and nin == 0:
                return False
            for d in fl['deps']:
                if d['g'] != 't' and d['c'] != 0:
                    return False
                if fl['acc'] == 'w' and not d['out'] and ((d['g'], d['a'], d['b'], d['c']) != ('u', 0, 0, 0) or nin > 1):
                    return False
                if fl['acc'] != 'c' and not d['out'] and (d['b'] > 0 or d['c'] > 0):
                    return False       # local definitions on the call of a data input: the C does not compile (finding F11)
                if _task_target(fl, d) and (nin == 0 or nout == 0):
                    return False
                if d['g'] == 'u' and _task_target(fl, d) and (d['a'] > 0) != (d['b'] > 0):
                    return False       # `-> [i = ..] X T(i)`: the GLR parser reports an ambiguity
    return len(funcs) > 0


# ------------------------------------------------------------------ running the real compiler
def run_ptgpp(exe, jdf, outbase, flags=(), timeout=300, env=None):
    """One run of parsec-ptgpp.  Returns dict rc/sig/out/err/c/h (bytes of the emitted files or None)."""
    for ext in ('.c', '.h'):
        try:
            os.unlink(outbase + ext)
        except OSError:
            pass
    jdf, outbase = os.path.abspath(jdf), os.path.abspath(outbase)
    cmd = [exe, '--noline', '-E'] + list(flags) + ['-i', jdf, '-o', outbase, '-f', os.path.basename(outbase)]
    e = dict(os.environ)
    if env:
        e.update(env)
    try:
        p = subprocess.run(cmd, capture_output=True, timeout=timeout, env=e, cwd=os.path.dirname(outbase) or '.')
        rc, out, err = p.returncode, p.stdout, p.stderr
    except subprocess.TimeoutExpired as ex:
        rc, out, err = -signal.SIGALRM, ex.stdout or b'', (ex.stderr or b'') + b'\n[timeout]'
    r = {'rc': rc if rc >= 0 else None, 'sig': -rc if rc < 0 else 0,
         'out': out.decode(errors='replace'), 'err': err.decode(errors='replace'), 'c': None, 'h': None, 'cmd': ' '.join(cmd)}
    for ext in ('c', 'h'):
        try:
            r[ext] = open(outbase + '.' + ext, 'rb').read()
        except OSError:
            pass
    return r


_cc_inc = {}


def cc_prepare(build):
    """(call once from the main thread: pv.mpi_flags is not re-entrant)"""
    if build not in _cc_inc:
        mc, _ = pv.mpi_flags()
        _cc_inc[build] = ['-I' + pv.REPO, '-I' + os.path.join(pv.REPO, 'parsec', 'include'), '-I' + build,
                          '-I' + os.path.join(build, 'parsec', 'include')] + mc


def cc_syntax(build, cfile, timeout=120):
    """`gcc -fsyntax-only` on emitted C with the include paths of pv.cc_harness.  Returns (ok, stderr)."""
    cc_prepare(build)
    cfile = os.path.abspath(cfile)
    cmd = ['gcc', '-fsyntax-only', '-I' + os.path.dirname(cfile)] + _cc_inc[build] + [cfile]
    rc, out, err = pv.sh(cmd, timeout=timeout)
    return rc == 0, err


# ------------------------------------------------------------------ grammar-based generator of whole programs
PARAM_NAMES = ['k', 'm', 'n']
FLOW_NAMES = ['X', 'Y', 'Z', 'V', 'W', 'U']


class _Gen:
    """Builds a random valid JDF program: 1-3 task classes, 1-3 parameters each (ranges on globals, steps, derived
    locals, inline C), data flows linked by self chains and pipes between classes (every reference has its
    counterpart), control flows (chains, gathers), NEW/NULL inputs, guarded/ternary/unconditional dependencies,
    ranges and local definitions in output dependencies, priorities, task properties, hidden globals, comments."""

    def __init__(self, rng):
        self.r = rng
        self.feat = set()

    def atom(self, scope, depth=0):
        r = self.r
        c = r.below(10)
        if c < 5 and scope:
            return r.choice(scope)
        if c < 7:
            return str(r.below(4))
        if c < 8:
            return r.choice(['NT', 'MT'])
        if c < 9 and scope and depth < 2:
            self.feat.add('inline_c')
            return '%%{ return %s + %d; %%}' % (r.choice(scope), r.below(3))
        return '(%s)' % self.expr(scope, depth + 1)

    def expr(self, scope, depth=0):
        r = self.r
        if depth >= 2 or r.chance(1, 2):
            return self.atom(scope, depth)
        op = r.choice(['+', '-', '*', '+', '-', '/', '%', '<<', '>>'])
        a, b = self.atom(scope, depth + 1), self.atom(scope, depth + 1)
        if op in ('/', '%'):
            b = str(r.range(1, 3))
        if op in ('<<', '>>'):
            b = str(r.below(3))
        return '%s %s %s' % (a, op, b)

    def cond(self, scope):
        r = self.r
        c = r.below(8)
        a = self.expr(scope, 1)
        if c < 5:
            return '(%s %s %s)' % (a, r.choice(['==', '!=', '<', '<=', '>', '>=']), self.expr(scope, 1))
        if c < 6:
            return '((%s == 0) %s (%s < NT))' % (a, r.choice(['&&', '||', '&', '|', '^']), self.expr(scope, 1))
        if c < 7:
            return '(!(%s == %d))' % (a, r.below(3))
        self.feat.add('inline_c_guard')
        return '%%{ return %s == %d; %%}' % (r.choice(scope) if scope else '0', r.below(3))

    def program(self):
        r = self.r
        nT = r.choice([1, 1, 2, 2, 3])
        classes = []
        for j in range(nT):
            np_ = r.choice([1, 1, 2, 2, 3])
            params = PARAM_NAMES[:np_]
            locs = []          # (name, text)
            scope = []
            for p in params:
                c = r.below(6)
                lo = '0' if not scope or r.chance(2, 3) else r.choice(scope)
                hi = r.choice(['NT', 'MT', 'NT-1', 'MT - 1'] + (['%s + 2' % scope[-1]] if scope else []))
                if c == 0:
                    self.feat.add('range_step')
                    locs.append((p, '%s .. %s .. %d' % (lo, hi, r.range(1, 3))))
                elif c == 1 and scope:
                    self.feat.add('range_inline_c')
                    locs.append((p, '%s .. %%{ return %s + 1; %%}' % (lo, scope[-1])))
                else:
                    locs.append((p, '%s .. %s' % (lo, hi)))
                scope.append(p)
                if r.chance(1, 4):
                    dn = 'd%d' % len(locs)
                    self.feat.add('derived_local')
                    locs.append((dn, self.expr(scope)))
                    scope.append(dn)
            nfl = r.choice([1, 2, 2, 3, 4])
            flows = []
            for i in range(nfl):
                acc = r.choice(['x', 'x', 'x', 'r', 'r', 'w', 'c'])
                flows.append({'name': FLOW_NAMES[i], 'acc': acc, 'in': [], 'out': []})
            classes.append({'name': 'T%d' % j if r.chance(1, 2) else ['POTRF', 'GEMM', 'bcast'][j], 'params': params, 'locals': locs, 'scope': scope,
                            'flows': flows, 'props': [], 'prio': None})
        self.classes = classes
        # links
        for cj, c in enumerate(classes):
            for fl in c['flows']:
                self.link_flow(c, fl)
        for c in classes:
            self.cur = c
            c['part'] = 'A(%s, %s)' % (self.expr(c['scope'], 1), self.expr(c['scope'], 1))
            for fl in c['flows']:
                self.fix_flow(c, fl)
            if r.chance(1, 4):
                self.feat.add('priority')
                c['prio'] = self.expr(c['scope'])
            if r.chance(1, 4):
                self.feat.add('task_props')
                c['props'] = r.choice([['high_priority = on'], ['profile = off'], ['high_priority = on', 'profile = off'], ['count_deps = on']])
        return self.text()

    def data_ref(self, scope):
        if self.strict:     # no "potential direct remote memory reference" warning: same text as the partitioning
            return self.cur['part']
        return '%s(%s, %s)' % (self.r.choice(self.datas), self.expr(scope, 1), self.expr(scope, 1))

    def args(self, target, scope, ranged=False):
        out = []
        used_range = False
        for p in target['params']:
            if ranged and not used_range and self.r.chance(1, 2):
                used_range = True
                self.feat.add('range_in_out_dep')
                out.append('%s .. %s' % (self.expr(scope, 1), self.expr(scope, 1)))
            else:
                out.append(self.expr(scope, 1))
        return ', '.join(out)

    def link_flow(self, c, fl):
        """add a few dependencies to flow fl of class c, together with their counterparts"""
        r = self.r
        kind = 'ctl' if fl['acc'] == 'c' else 'data'
        cands = [(d, g) for d in self.classes for g in d['flows'] if (('ctl' if g['acc'] == 'c' else 'data') == kind)]
        n = r.choice([0, 1, 1, 2, 3])
        for _ in range(n):
            d, g = r.choice(cands)
            # c.fl -> d.g   (d.g <- c.fl), unless g is WRITE (its inputs must be NEW)
            if g['acc'] == 'w':
                continue
            ld = ''
            scope = list(c['scope'])
            if r.chance(1, 5):
                self.feat.add('ldef_out_dep')
                v = 'i%d' % len(fl['out'])
                ld = '[ %s = 0 .. %d ] ' % (v, r.range(1, 2))
                scope.append(v)
            guard = self.cond(c['scope']) if (ld or r.chance(3, 4)) else None   # `-> [i = ..] X T(i)` alone is ambiguous for the GLR parser
            fl['out'].append({'task': True, 'guard': guard, 'ld': ld, 't': '%s %s(%s)' % (g['name'], d['name'], self.args(d, scope, ranged=True)), 'f': None})
            gin = self.cond(d['scope']) if r.chance(3, 4) else None
            gather = kind == 'ctl' and r.chance(1, 3)
            if gather:
                self.feat.add('ctl_gather')
            g['in'].append({'guard': gin, 'ld': '', 't': '%s %s(%s)' % (fl['name'], c['name'], self.args(c, d['scope'], ranged=gather)), 'f': None})
        self.feat.add('pipe' if n else 'nopipe')

    def fix_flow(self, c, fl):
        """complete the flow so that it is valid: inputs for READ/RW, data endpoints, NEW/NULL, ternaries"""
        r = self.r
        acc = fl['acc']
        scope = c['scope']
        if acc == 'c':
            return
        if acc == 'w':
            # inputs of a WRITE flow: only `<- NEW`
            fl['in'] = []
            if r.chance(1, 2):
                self.feat.add('write_new')
                fl['in'].append({'guard': None, 'ld': '', 't': 'NEW', 'f': None})
            if not fl['out'] or r.chance(1, 2):
                fl['out'].append({'guard': self.cond(scope) if r.chance(1, 2) else None, 'ld': '', 't': self.data_ref(scope), 'f': None})
            return
        # READ / RW: guarded task inputs first, then a closing input
        for d in fl['in']:
            if d['guard'] is None:
                d['guard'] = self.cond(scope)
        c_ = r.below(6)
        if c_ < 3:
            fl['in'].append({'guard': None, 'ld': '', 't': self.data_ref(scope), 'f': None})
        elif c_ < 4:
            self.feat.add('null_input')
            fl['in'].append({'guard': None, 'ld': '', 't': 'NULL', 'f': None})
        elif c_ < 5:
            self.feat.add('new_input')      # an unguarded `<- NEW` is reserved to WRITE flows
            fl['in'].append({'guard': self.cond(scope), 'ld': '', 't': 'NEW', 'f': None})
            fl['in'].append({'guard': None, 'ld': '', 't': self.data_ref(scope), 'f': None})
        else:
            self.feat.add('ternary_in')
            fl['in'].append({'guard': self.cond(scope), 'ld': '', 't': self.data_ref(scope), 'f': r.choice(['NEW', 'NULL'])})
        if acc == 'x' and (not fl['out'] or r.chance(1, 2)):
            fl['out'].append({'guard': self.cond(scope) if r.chance(2, 3) else None, 'ld': '', 't': self.data_ref(scope), 'f': None})
        # turn one guarded task output into a ternary with a data reference
        outs = [d for d in fl['out'] if d['guard'] and d.get('task') and d['f'] is None and not d['ld']]
        if outs and acc == 'x' and r.chance(1, 3):
            self.feat.add('ternary_out')
            r.choice(outs)['f'] = self.data_ref(scope)

    def dep_text(self, arrow, d):
        s = d['ld']
        if d['guard'] is None:
            return '%s %s%s' % (arrow, s, d['t'])
        if d['f'] is None:
            return '%s %s%s ? %s' % (arrow, s, d['guard'], d['t'])
        return '%s %s%s ? %s : %s' % (arrow, s, d['guard'], d['t'], d['f'])

    def text(self):
        r = self.r
        o = ['extern "C" %{', '/* generated */', '#include "parsec.h"', '#include <stdio.h>', '%}', '']
        o += ['A   [type = "parsec_data_collection_t*"]']
        if 'B' in self.datas:
            o += ['B   [type = "parsec_data_collection_t*" aligned = A]' if r.chance(1, 2) else 'B   [type = "parsec_data_collection_t*"]']
        o += ['NT  [type = int]']
        if r.chance(1, 2):
            self.feat.add('hidden_global')
            o += ['MT  [type = int hidden = on default = "NT + 1"]' if r.chance(1, 2) else 'MT  [type = int hidden = on default = 3]']
        else:
            o += ['MT  [type = int]']
        o.append('')
        for c in self.classes:
            if r.chance(1, 3):
                self.feat.add('comments')
                o.append('/* task class %s */' % c['name'])
            o.append('%s(%s)%s' % (c['name'], ', '.join(c['params']), (' [ ' + ' '.join(c['props']) + ' ]') if c['props'] else ''))
            for n, t in c['locals']:
                o.append('  %s = %s%s' % (n, t, '  // local' if r.chance(1, 8) else ''))
            o.append('')
            o.append(': ' + c['part'])
            o.append('')
            for fl in c['flows']:
                head = '  %-5s %s ' % (r.choice({'c': ['CTL'], 'r': ['READ', 'RO'], 'w': ['WRITE', 'WO'], 'x': ['RW', 'RW', '']}[fl['acc']]), fl['name'])
                lines = [self.dep_text('<-', d) for d in fl['in']] + [self.dep_text('->', d) for d in fl['out']]
                o.append(head + ('\n' + ' ' * len(head)).join(lines))
            if c['prio'] is not None:
                o.append('')
                o.append('; %s' % c['prio'])
            o.append('')
            o.append('BODY')
            o.append('{')
            for fl in c['flows']:
                if fl['acc'] != 'c':
                    o.append('    (void)%s;' % fl['name'])
            o.append('    printf("%s(%s)\\n"%s);' % (c['name'], ', '.join(['%d'] * len(c['params'])), ''.join(', ' + p for p in c['params'])))
            o.append('}')
            o.append('END')
            o.append('')
        if r.chance(1, 3):
            self.feat.add('epilogue')
            o += ['extern "C" %{', 'static int pv_unused_epilogue(void) { return 0; }', '%}', '']
        return '\n'.join(o) + '\n'


def gen_program(rng, strict=False):
    """strict: the program draws no warning at all (it must be accepted under --Werror too)"""
    g = _Gen(rng)
    g.strict = strict
    g.datas = ['A', 'B'] if (rng.chance(1, 3) and not strict) else ['A']
    txt = g.program()
    # CTL flows without any dependency are useless but legal; READ flows were completed
    return txt, sorted(g.feat)


# ------------------------------------------------------------------ near-valid programs: one damage
def damage(rng, txt):
    """One syntactic or semantic damage applied to a valid program.  Returns (text, name of the damage).
    The result may still be a valid program: the oracle does not assume it is not."""
    for _ in range(6):
        out, name = _damage1(rng, txt)
        if out is not None and out != txt:
            return out, name
    lines = txt.split('\n')
    i = rng.choice([i for i, l in enumerate(lines) if l.strip()])
    return '\n'.join(lines[:i] + lines[i + 1:]), 'drop-line'


def _damage1(rng, txt):
    # never inside embedded C (BODY … END, extern "C" %{ … %}, inline %{ … %}): ptgpp copies it verbatim, by design
    prot = [(m.start(), m.end()) for m in re.finditer(r'\nBODY\n(.|\n)*?\nEND\n|%\{(.|\n)*?%\}', txt)]

    def free(a, b):
        return all(b <= s or a >= e for s, e in prot)
    lines = txt.split('\n')
    pos, idx = 0, []
    for i, l in enumerate(lines):
        if l.strip() and free(pos, pos + len(l)):
            idx.append(i)
        pos += len(l) + 1
    if not idx:
        return None, None
    k = rng.below(22)

    def sub(pat, rep):
        ms = [m for m in re.finditer(pat, txt) if free(m.start(), m.end())]
        if not ms:
            return None
        m = rng.choice(ms)
        return txt[:m.start()] + m.expand(rep) + txt[m.end():]
    out, name = None, None
    if k == 0:
        name, out = 'drop-close-paren', sub(r'\)', '')
    elif k == 1:
        name, out = 'drop-open-paren', sub(r'\(', '')
    elif k == 2:
        name, out = 'unknown-task', sub(r'(<-|->)([^\n]*?)\b([A-Z]) (T\d|POTRF|GEMM|bcast)\(', r'\1\2\3 NOSUCH(')
    elif k == 3:
        name, out = 'unknown-flow', sub(r'\b([XYZVWU]) (T\d|POTRF|GEMM|bcast)\(', r'Q \2(')
    elif k == 4:
        name, out = 'undefined-variable', sub(r'\b(k|m|n)\b(?=[^\n]*\n)', 'undefvar')
    elif k == 5:
        m = re.search(r'\n(T\d|POTRF|GEMM|bcast)\((.|\n)*?\nEND\n', txt)
        name, out = 'duplicate-task-class', (txt + m.group(0)) if m else None
    elif k == 6:
        name, out = 'duplicate-global', txt.replace('NT  [type = int]', 'NT  [type = int]\nNT  [type = int]', 1)
    elif k == 7:
        i = txt.rfind('\nEND\n')          # the last one only: an earlier END missing turns the next task class into C text
        name, out = 'drop-END', (txt[:i] + txt[i + 4:]) if i >= 0 else None
    elif k == 8:
        ms = list(re.finditer(r'\nBODY\n', txt))
        m = rng.choice(ms) if ms else None
        name, out = 'drop-BODY', (txt[:m.start()] + txt[m.end() - 1:]) if m else None
    elif k == 9:
        name, out = 'param-without-definition', sub(r'\n(T\d|POTRF|GEMM|bcast)\(k', r'\n\1(zz, k')
    elif k == 10:
        name, out = 'data-arity', sub(r'\bA\(([^()\n]*), ([^()\n]*)\)', r'A(\1)')
    elif k == 11:
        name, out = 'read-flow-without-input', sub(r'\n  (READ|RO)  ([XYZVWU]) <-[^\n]*(\n +<-[^\n]*)*', r'\n  READ  \2 ')
    elif k == 12:
        name, out = 'ctl-refers-to-data', sub(r'\n  CTL   ([XYZVWU]) [^\n]*', r'\n  CTL   \1 <- A(0, 0)')
    elif k == 13:
        name, out = 'new-as-output', sub(r'-> [^\n]*', '-> NEW')
    elif k == 14:
        name, out = 'unterminated-string', sub(r'\[type = int\]', '[type = "int]')
    elif k == 15:
        i = rng.choice(idx)
        c = rng.below(max(1, len(lines[i])))
        lines[i] = lines[i][:c] + rng.choice(['@', '$', '`', '\\', '#', '~', '{', '}', ']', '[']) + lines[i][c:]
        name, out = 'garbage-char', '\n'.join(lines)
    elif k == 16:
        name, out = 'truncated', txt[:rng.range(len(txt) // 4, len(txt) - 2)]
    elif k == 17:
        name, out = 'flow-shadows-global', sub(r'\n  (RW|READ|RO|WRITE|WO|CTL)?\s+([XYZVWU]) ', r'\n  \1 NT ')
    elif k == 18:
        i = rng.choice(idx)
        name, out = 'drop-line', '\n'.join(lines[:i] + lines[i + 1:])
    elif k == 19:
        i = rng.choice(idx)
        name, out = 'duplicate-line', '\n'.join(lines[:i + 1] + lines[i:])
    elif k == 20:
        name, out = 'two-data-ternary', sub(r'(<-|->) ([^\n?]*) \? (A\([^\n]*\))\n', r'\1 \2 ? \3 : \3\n')
    else:
        toks = [m for m in re.finditer(r'\S+', txt) if free(m.start(), m.end())]
        a = rng.choice(toks)
        name, out = 'drop-token', txt[:a.start()] + txt[a.end():]
    return out, name


# ------------------------------------------------------------------ shapes: generator, independent oracle
def D(out, g='b', a=0, b=0, c=0):
    return {'out': out, 'g': g, 'a': a, 'b': b, 'c': c}


def FL(acc, nin, nout, gin='b', gout='b'):
    """a flow with nin inputs and nout outputs of the given guard kinds (the last input is unconditional)"""
    if acc == 'w':
        ins = [D(False, 'u') for _ in range(min(nin, 1))]
    else:
        ins = [D(False, gin) for _ in range(max(nin - 1, 0))] + ([D(False, 'u' if gin != 't' else 't')] if nin else [])
    return {'acc': acc, 'deps': ins + [D(True, gout) for _ in range(nout)]}


def F(nl, flows, ll=0):
    return {'nl': nl, 'll': ll, 'flows': flows}


def boundary_shapes(L):
    """hand-made shapes on each side of every limit and of every branch of the decision logic"""
    P, LO, I, O = L['maxParam'], L['maxLocal'], L['maxDepIn'], L['maxDepOut']
    S = []
    S.append(('small', [F(2, [FL('x', 1, 1)])]))
    for d in (-1, 0, 1, 4):
        S.append(('din%+d' % d, [F(1, [FL('r', I + d, 1)])]))
        S.append(('dout%+d' % d, [F(1, [FL('x', 1, O + d)])]))
    S.append(('din+1 ctl', [F(1, [FL('c', I + 1, 1)])]))
    S.append(('dout+1 write', [F(1, [FL('w', 1, O + 1)])]))
    S.append(('din+1 dout+1 same flow', [F(1, [FL('x', I + 1, O + 1)])]))
    S.append(('din+1 second class', [F(1, [FL('x', 1, 1)]), F(1, [FL('x', 1, 1), FL('r', I + 1, 0)])]))
    for d in (-1, 0, 1):
        S.append(('read flows%+d' % d, [F(1, [FL('r', 1, 0) for _ in range(P + d)])]))
        S.append(('write flows%+d' % d, [F(1, [FL('w', 0, 1) for _ in range(P + d)])]))
        S.append(('rw flows%+d' % d, [F(1, [FL('x', 1, 1) for _ in range(P + d)])]))
        S.append(('locals%+d' % d, [F(LO + d, [FL('x', 1, 1)])]))
    S.append(('mixed flows +1 (read, write <= limit)', [F(1, [FL('r', 1, 0) for _ in range(P // 2 + 1)] + [FL('w', 0, 1) for _ in range(P - P // 2)])]))
    S.append(('ctl flows +1', [F(1, [FL('c', 1, 1) for _ in range(P + 1)])]))
    S.append(('ctl+data flows +1', [F(1, [FL('c', 1, 1) for _ in range(3)] + [FL('x', 1, 1) for _ in range(P - 2)])]))
    # locals + local definitions
    S.append(('locals+ldef =limit', [F(LO - 3, [{'acc': 'x', 'deps': [D(False, 'u'), D(True, 'b', 1, 1)]}], ll=1)]))
    S.append(('locals+ldef +1', [F(LO - 2, [{'acc': 'x', 'deps': [D(False, 'u'), D(True, 'b', 1, 1)]}], ll=1)]))
    S.append(('locals+ldef(dep only) +1', [F(LO - 1, [{'acc': 'x', 'deps': [D(False, 'u'), D(True, 'b', 2, 0)]}])]))
    S.append(('locals+ldef in second class', [F(LO + 1, [FL('x', 1, 1)]), F(LO + 1, [FL('x', 1, 1)]), F(2, [FL('x', 1, 1)])]))
    S.append(('ldef ternary false branch counts', [F(LO - 1, [{'acc': 'x', 'deps': [D(False, 'u'), D(True, 't', 0, 0, 2)]}])]))
    # ternaries: two runtime entries for one counted dependency
    S.append(('ternary out x%d' % (O // 2), [F(1, [FL('x', 1, O // 2, gout='t')])]))
    S.append(('ternary out x%d' % (O // 2 + 1), [F(1, [FL('x', 1, O // 2 + 1, gout='t')])]))
    S.append(('ternary out x%d' % O, [F(1, [FL('x', 1, O, gout='t')])]))
    S.append(('ternary out x%d' % (O + 1), [F(1, [FL('x', 1, O + 1, gout='t')])]))
    S.append(('ternary in x%d' % (I // 2 + 1), [F(1, [FL('r', I // 2 + 1, 1, gin='t')])]))
    # local definitions of the true branch of a ternary
    S.append(('ternary true ldef only', [F(1, [{'acc': 'x', 'deps': [D(False, 'u'), D(True, 't', 0, 2, 0)]}])]))
    S.append(('ternary true ldef + other ldef', [F(LO - 1, [{'acc': 'x', 'deps': [D(False, 'u'), D(True, 'b', 1, 0), D(True, 't', 0, 2, 0)]}])]))
    S.append(('ternary true ldef < false ldef', [F(2, [{'acc': 'x', 'deps': [D(False, 'u'), D(True, 't', 0, 1, 2)]}])]))
    # dependency index masks of jdf_flatten_function
    def outs(*ns):
        return [F(1, [FL('x', 1, n) for n in ns])]

    def ins(*ns):
        return [F(1, [FL('x', n, 1) for n in ns])]
    S.append(('out index 23', outs(8, 8, 7)))
    S.append(('out index 24', outs(8, 8, 8)))
    S.append(('out index 31', outs(8, 8, 7, 8)))
    S.append(('out index 23 then 32', outs(8, 8, 7, 9)))
    S.append(('out index 23 then 33', outs(8, 8, 7, 10)))
    S.append(('out index window hit later', outs(8, 8, 7, 10, 10, 10)))
    S.append(('in index 28', ins(10, 10, 8)))
    S.append(('in index 29', ins(10, 10, 9)))
    S.append(('in index 28 then 38', ins(10, 10, 8, 10)))
    S.append(('parse reject in class 1, locals in class 0', [F(LO + 1, [FL('x', 1, 1)]), F(1, [FL('x', 1, 8), FL('x', 1, 8), FL('x', 1, 8)])]))
    return S


def random_shape(rng, L):
    """random shape, biased to sit near one or two limits"""
    P, LO, I, O = L['maxParam'], L['maxLocal'], L['maxDepIn'], L['maxDepOut']
    funcs = []
    for _ in range(rng.choice([1, 1, 2, 3])):
        big = rng.below(8)
        nfl = rng.choice([1, 2, 3, 4]) if big != 0 else rng.range(P - 1, P + 2)
        flows = []
        for i in range(nfl):
            acc = rng.choice(['x', 'x', 'r', 'w', 'c'])
            nin = rng.choice([0, 1, 1, 2, 3]) if big != 1 else rng.range(I - 1, I + 2)
            nout = rng.choice([0, 1, 1, 2, 3]) if big != 2 else rng.range(O - 1, O + 2)
            if nfl > 6:
                nin, nout = min(nin, 1), min(nout, 1)
            deps = []
            for n in range(nin + nout):
                out = n >= nin
                g = rng.choice(['u', 'b', 'b', 'b', 't'])
                if g == 'u' and not out and n != nin - 1:
                    g = 'b'
                a = rng.choice([0, 0, 0, 1, 2])
                b = rng.choice([0, 0, 0, 1, 2])
                c = rng.choice([0, 0, 1, 2]) if g == 't' else 0
                deps.append(D(out, g, a, b, c))
            flows.append({'acc': acc, 'deps': deps})
        nl = rng.choice([1, 2, 3, 5]) if big != 3 else rng.range(LO - 3, LO + 1)
        ll = rng.choice([0, 0, 1, 2])
        funcs.append(F(nl, flows, ll))
    return repair(funcs)


def repair(funcs):
    """minimal changes that make a shape renderable (see `renderable`)"""
    for f in funcs:
        f['nl'] = max(f['nl'], 1)
        f['ll'] = min(f['ll'], f['nl'] - 1)
        for fl in f['flows']:
            for d in fl['deps']:
                if d['g'] != 't':
                    d['c'] = 0
                if fl['acc'] == 'w' and not d['out']:
                    d.update(g='u', a=0, b=0, c=0)
                if fl['acc'] != 'c' and not d['out']:
                    d.update(b=0, c=0)
            if fl['acc'] == 'w':        # at most one `<- NEW`
                ins = [d for d in fl['deps'] if not d['out']]
                fl['deps'] = ins[:1] + [d for d in fl['deps'] if d['out']]
            for _ in range(2):
                nin = sum(1 for d in fl['deps'] if not d['out'])
                nout = len(fl['deps']) - nin
                if fl['acc'] in 'rx' and nin == 0:
                    fl['deps'].insert(0, D(False, 'u'))
                    continue
                tt = any(_task_target(fl, d) for d in fl['deps'])
                if tt and nin == 0:
                    fl['deps'].insert(0, D(False, 'u') if fl['acc'] != 'c' else D(False, 'b'))
                if tt and nout == 0:
                    fl['deps'].append(D(True, 'b'))
            for d in fl['deps']:
                if d['g'] == 'u' and _task_target(fl, d) and (d['a'] > 0) != (d['b'] > 0):
                    d['g'] = 'b'
    return funcs


def oracle_exceeds(funcs, L):
    """The limits of the property statement, read off the runtime structures (parsec_internal.h):
    locals[MAX_LOCAL_COUNT] (locals + every ldef slot in use at the same time), data/in/out[MAX_PARAM_COUNT]
    (one slot per flow), dep_in[MAX_DEP_IN_COUNT] / dep_out[MAX_DEP_OUT_COUNT] (one slot per call: a ternary
    dependency fills two), dependency indexes within the 24 / 29 bit masks.  Returns the list of reasons."""
    why = []
    for j, f in enumerate(funcs):
        need = 0
        tin = tout = 0
        for i, fl in enumerate(f['flows']):
            ein = eout = 0
            for d in fl['deps']:
                n = 2 if d['g'] == 't' else 1
                if d['out']:
                    eout += n
                    tout += 1
                else:
                    ein += n
                    tin += 1
                need = max(need, d['a'] + (max(d['b'], d['c']) if d['g'] == 't' else d['b']))
            if ein > L['maxDepIn']:
                why.append('dep_in:%d.%d:%d' % (j, i, ein))
            if eout > L['maxDepOut']:
                why.append('dep_out:%d.%d:%d' % (j, i, eout))
        if f['nl'] + f['ll'] + need > L['maxLocal']:
            why.append('locals:%d:%d' % (j, f['nl'] + f['ll'] + need))
        if len(f['flows']) > L['maxParam']:
            why.append('flows:%d:%d' % (j, len(f['flows'])))
        if tout >= 24:
            why.append('outmask:%d:%d' % (j, tout))
        if tin >= 29:
            why.append('inmask:%d:%d' % (j, tin))
    return why


def counted(funcs, L):
    """what ptgpp counts (used only to name the root cause of an accepted over-limit program)"""
    r = {'deps': False, 'rdwr': False, 'flows': False, 'locals': False, 'window': False}
    for f in funcs:
        ci = co = 0
        nb = f['ll']
        for fl in f['flows']:
            di = sum(1 for d in fl['deps'] if not d['out'])
            do = len(fl['deps']) - di
            ci, co = ci + di, co + do
            if 29 <= ci < 32 or 24 <= co < 32:
                r['window'] = True
            if di > L['maxDepIn'] or do > L['maxDepOut']:
                r['deps'] = True
            for d in fl['deps']:
                nb = max(nb, f['ll'] + d['a'], f['ll'] + d['a'] + (d['c'] if d['g'] == 't' else d['b']))
        if f['nl'] + nb > L['maxLocal']:
            r['locals'] = True
        if len(f['flows']) > L['maxParam']:
            r['flows'] = True
        if sum(1 for fl in f['flows'] if fl['acc'] in 'rx') > L['maxParam'] or sum(1 for fl in f['flows'] if fl['acc'] in 'wx') > L['maxParam']:
            r['rdwr'] = True
    return r


# ------------------------------------------------------------------ one case on the real compiler
SAN_RE = re.compile(r'^.*(ERROR: AddressSanitizer[^\n]*|runtime error:[^\n]*|#ptgpp-hang).*$', re.M)
SAN_ENV = {'ASAN_OPTIONS': 'detect_leaks=0:abort_on_error=0:exitcode=86', 'UBSAN_OPTIONS': 'print_stacktrace=0'}


def read_limits(build):
    txt = open(os.path.join(build, 'parsec', 'include', 'parsec', 'parsec_options.h')).read()
    g = lambda n: int(re.search(r'#define\s+%s\s+(\d+)' % n, txt).group(1))
    return {'maxParam': g('MAX_PARAM_COUNT'), 'maxLocal': g('MAX_LOCAL_COUNT'), 'maxDepIn': g('MAX_DEP_IN_COUNT'), 'maxDepOut': g('MAX_DEP_OUT_COUNT')}


_cc_cache = {}


def _cc_cached(env, r, cfile):
    if r['c'] is None or r['h'] is None:
        return (False, 'no output file although exit status 0')
    k = hashlib.sha1(r['c'] + b'\0' + r['h']).hexdigest()
    if k not in _cc_cache:
        _cc_cache[k] = cc_syntax(env['build'], cfile)
    return _cc_cache[k]


def observe(env, name, text, modes=(0, 1)):
    """Run one program: per mode (0: default command line, 1: --Werror) the real parsec-ptgpp (twice in mode 0:
    byte comparison), once the instrumented copy (mode 0), and the C compiler on accepted output.
    Returns {mode: observation}."""
    d = os.path.join(env['dir'], name)
    shutil.rmtree(d, ignore_errors=True)
    res = {}
    for w in modes:
        flags = ['--Werror'] if w else []
        dw = os.path.join(d, 'w%d' % w)
        os.makedirs(dw, exist_ok=True)
        jdf = os.path.join(dw, name + '.jdf')
        with open(jdf, 'w') as f:
            f.write(text)
        r1 = run_ptgpp(env['ptgpp'], jdf, os.path.join(dw, name), flags)
        o = {'name': name, 'mode': w, 'flags': flags, 'jdf': jdf, 'r': r1, 'same': True, 'san': [], 'san_same': True, 'cc': None}
        if w == 0 or env.get('thorough'):
            d2 = os.path.join(dw, 'second')
            os.makedirs(d2, exist_ok=True)
            shutil.copy(jdf, os.path.join(d2, name + '.jdf'))
            # same command line (relative names, other directory): the outputs must be the same bytes
            r2 = run_ptgpp(env['ptgpp'], jdf, os.path.join(d2, name), flags)
            o['same'] = all(r1[k] == r2[k] for k in ('rc', 'sig', 'out', 'err', 'c', 'h'))
        if w == 0:
            ds = os.path.join(dw, 'san')
            os.makedirs(ds, exist_ok=True)
            rs = run_ptgpp(env['san'], jdf, os.path.join(ds, name), flags, env=SAN_ENV)
            o['san'] = sorted(set(m.group(1) for m in SAN_RE.finditer(rs['err'])))
            if rs['sig'] and not o['san']:
                o['san'] = ['instrumented copy killed by signal %d' % rs['sig']]
            o['san_same'] = bool(o['san']) or (rs['rc'] == r1['rc'] and rs['c'] == r1['c'] and rs['h'] == r1['h'])
        if r1['rc'] == 0 and r1['sig'] == 0:
            o['cc'] = _cc_cached(env, r1, os.path.join(dw, name + '.c'))
        res[w] = o
    return res


W_RE = [
    (re.compile(r'Function T(\d+): flow F(\d+) has too many \((\d+)\) input dependencies'), 'din'),
    (re.compile(r'Function T(\d+): flow F(\d+) has too many \((\d+)\) output dependencies'), 'dout'),
    (re.compile(r'Function T(\d+): has too many \((\d+)\) input or READ flows'), 'rd'),
    (re.compile(r'Function T(\d+): has too many \((\d+)\) output or WRITE flows'), 'wr'),
]
RANK_W = {'din': 0, 'dout': 0, 'rd': 1, 'wr': 2}
RANK_E = {'locals': -1, 'flows': 0, 'unused': 0.5, 'din': 1, 'dout': 1, 'rd': 2, 'wr': 3, 'noldef': 4, 'other': 5}


def _fmt(items, rank):
    def key(t):
        k, f, fl, n = t
        return (f, rank[k], fl if fl is not None else 0, 0 if k in ('din',) else 1)
    out = []
    for k, f, fl, n in sorted(items, key=key):
        if k in ('din', 'dout'):
            out.append('%s:%d.%d:%d' % (k, f, fl, n))
        elif k in ('noldef',):
            out.append('%s:%d' % (k, f))
        elif k == 'other':
            out.append('other')
        else:
            out.append('%s:%d:%d' % (k, f, n))
    return '[' + ' '.join(out) + ']'


def limit_warnings(err):
    ws = []
    for rx, k in W_RE:
        for m in rx.finditer(err):
            g = [int(x) for x in m.groups()]
            ws.append((k, g[0], g[1], g[2]) if len(g) == 3 else (k, g[0], None, g[1]))
    return ws


def fired_errors(o, L):
    """which `#if MAX_… < n / #error` blocks of the emitted files fire, and other compiler errors"""
    es = []
    h = (o['r']['h'] or b'').decode(errors='replace')
    c = (o['r']['c'] or b'').decode(errors='replace')
    for m in re.finditer(r'#if MAX_LOCAL_COUNT < (\d+)\s+/\* number of parameters and locals T(\d+) \*/', h):
        if L['maxLocal'] < int(m.group(1)):
            es.append(('locals', int(m.group(2)), None, int(m.group(1))))
    for m in re.finditer(r'#if MAX_PARAM_COUNT < (\d+)\s+/\* total number of flows for task T(\d+) \*/', h):
        if L['maxParam'] < int(m.group(1)):
            es.append(('flows', int(m.group(2)), None, int(m.group(1))))
    nunused = 0
    for m in re.finditer(r'parsec_data_pair_t unused\[MAX_LOCAL_COUNT-(\d+)\];\s*\} __parsec_\w+?_T(\d+)_data_t;', h):
        if L['maxLocal'] < int(m.group(1)):
            es.append(('unused', int(m.group(2)), None, int(m.group(1))))
            nunused += 1
    pend = []
    for m in re.finditer(r'#if (MAX_DEP_IN_COUNT|MAX_DEP_OUT_COUNT) < (\d+)|static const parsec_flow_t flow_of_\w+?_T(\d+)_for_F(\d+) =', c):
        if m.group(1):
            pend.append((m.group(1), int(m.group(2))))
        else:
            for which, n in pend:
                if which == 'MAX_DEP_IN_COUNT' and L['maxDepIn'] < n:
                    es.append(('din', int(m.group(3)), int(m.group(4)), n))
                if which == 'MAX_DEP_OUT_COUNT' and L['maxDepOut'] < n:
                    es.append(('dout', int(m.group(3)), int(m.group(4)), n))
            pend = []
    for m in re.finditer(r'#if MAX_PARAM_COUNT < (\d+)\s+/\* number of (read|write) flows of T(\d+) \*/', c):
        if L['maxParam'] < int(m.group(1)):
            es.append(('rd' if m.group(2) == 'read' else 'wr', int(m.group(3)), None, int(m.group(1))))
    ccerr = o['cc'][1] if o['cc'] else ''
    nerr = 0
    noldef = set()
    for ln in ccerr.splitlines():
        if ' error: ' in ln or 'fatal error: ' in ln:
            if '#error' in ln:
                nerr += 1
            elif "size of array 'unused' is negative" in ln.replace('\u2018', "'").replace('\u2019', "'") and nunused > 0:
                nunused -= 1
            elif "size of array 'reserved' is negative" in ln.replace('\u2018', "'").replace('\u2019', "'") and any(e[0] == 'locals' for e in es):
                pass
            else:
                m = re.search(r"_T(\d+)_assignment_s\W.*has no member named .ldef.", ln)
                if m:
                    noldef.add(int(m.group(1)))
                else:
                    es.append(('other', 10 ** 6, None, 0))
    for f in sorted(noldef):
        es.append(('noldef', f, None, 0))
    fired = len([e for e in es if e[0] not in ('other', 'noldef', 'unused')])
    if o['cc'] and nerr != fired and not o['cc'][0]:
        es.append(('other', 10 ** 6, None, 0))      # the compiler saw another number of #error than the blocks say
    return es


def observed_outcome(o, L):
    """the run, in the vocabulary of the model (lean/ParsecVerif/Model/JdfLimits.lean, Outcome.str)"""
    r = o['r']
    if r['sig']:
        return 'signal-%d' % r['sig']
    ws = _fmt(limit_warnings(r['err']), RANK_W)
    if r['rc'] != 0:
        m = re.search(r'Function T(\d+) has too many input or output flow with different datatypes', r['err'])
        if m:
            return 'reject-parse f=%s' % m.group(1)
        m = re.search(r'Task class T(\d+) uses (\d+) locals', r['err'])
        if m:
            return 'reject-gen f=%s warn=%s' % (m.group(1), ws)
        if '--Werror' in o['flags'] and 'rror' not in r['err'].replace('--Werror', ''):
            return 'reject-sanity warn=%s' % ws
        return 'reject-other rc=%s' % r['rc']
    es = fired_errors(o, L)
    if o['cc'][0] and not es:
        return 'emit-ok warn=%s' % ws
    if o['cc'][0]:
        return 'emit-ok-but-error-blocks warn=%s cerr=%s' % (ws, _fmt(es, RANK_E))
    return 'emit-bad warn=%s cerr=%s' % (ws, _fmt(es, RANK_E))


# ------------------------------------------------------------------ the property, evaluated on the runs
K_DEFAULT = 'F1-sanity-verdict-ignored-without-Werror'
K_FLOWS = 'F2-total-flow-count-only-guarded-by-#error'
K_TERNARY = 'F3-ternary-dependency-counted-once-fills-two-slots'
K_LDEF = 'F4-ternary-true-branch-local-definitions-not-counted'
K_WRAP = 'F5-dependency-index-test-wraps-at-32'
K_TWODATA = 'F6-ternary-with-two-data-references-redefinition'
K_REDECL = 'F7-local-definition-name-reused-in-two-dependencies'
K_STRBUF = 'F8-lexer-string-buffer-overflow'
K_DERIVED = 'F9-local-definition-in-derived-local'
K_PRIO = 'F10-unbound-variable-in-priority-not-checked'
K_CALLLDEF = 'F11-local-definition-on-call-of-data-input'
K_DUPFLOW = 'F12-two-flows-with-the-same-name-not-detected'
K_DUPLOCAL = 'F13-derived-local-defined-twice-not-detected'


def classify_uncompilable(o, L):
    """root cause of `exit 0 but the C does not compile`, from what the compilers printed"""
    err = o['r']['err']
    ccerr = o['cc'][1].replace('‘', "'").replace('’', "'")
    es = [l for l in ccerr.splitlines() if ' error: ' in l or 'fatal error: ' in l]
    kinds = set()
    for l in es:
        if '#error' in l or "size of array 'unused' is negative" in l or "size of array 'reserved' is negative" in l:
            kinds.add('limit')
        elif 'redefinition of' in l and '_direct_access' in l:
            kinds.add('twodata')
        elif re.search(r"has no member named 'ldef'", l):
            kinds.add('noldef')
        elif re.search(r"redeclaration of '\w+' with no linkage", l):
            kinds.add('redecl')
        else:
            kinds.add('other')
    if o['mode'] == 0 and (re.search(r'^Fatal Error on (?![^\n]*During code generation)', err, re.M) or
                           (limit_warnings(err) and kinds == {'limit'})):
        # the sanity checks saw and reported a fatal problem; without --Werror main() ignores their (negative) answer
        return [K_DEFAULT], es
    if any("duplicate member '_f_" in l for l in ccerr.splitlines()):
        return [K_DUPFLOW], es
    m = re.search(r"duplicate member '(\w+)'", ccerr)
    if m and len(re.findall(r'^\s*%s\s*=[^=]' % re.escape(m.group(1)), open(o['jdf']).read(), re.M)) > 1:
        return [K_DUPLOCAL], es
    keys = []
    for kind in sorted(kinds):       # several independent causes may meet in one program
        if kind == 'limit':
            fired = set(e[0] for e in fired_errors(o, L)) - {'other', 'noldef'}
            keys.append(K_FLOWS if fired <= {'flows', 'unused'} else 'limit-left-to-the-C-compiler:%s' % '+'.join(sorted(fired)))
        elif kind == 'twodata':
            keys.append(K_TWODATA)
        elif kind == 'noldef':
            keys.append(K_LDEF)
        elif kind == 'redecl':
            keys.append(K_REDECL)
        else:
            oth = [l for l in es if not ('#error' in l or 'is negative' in l or '_direct_access' in l or "named 'ldef'" in l or 'with no linkage' in l)]
            und = [re.search(r"'(\w+)' undeclared", l) for l in oth]
            k = 'accepted-but-uncompilable'
            if oth and all(und):
                # every such error is an undeclared identifier that the JDF uses only in priority expressions (`; expr`)
                txt = open(o['jdf']).read()
                prio = ' '.join(re.findall(r'^\s*;[^\n]*', txt, re.M))
                rest = re.sub(r'^\s*;[^\n]*', '', txt, flags=re.M)
                names = set(m.group(1) for m in und)
                if all(re.search(r'\b%s\b' % re.escape(n), prio) and not re.search(r'\b%s\b' % re.escape(n), rest) for n in names):
                    k = K_PRIO
            keys.append(k)
    return keys or ['accepted-but-uncompilable'], es


def classify_san(msgs):
    keys = {}
    for m in msgs:
        if 'shift exponent' in m or 'left shift of 1 by 31' in m:
            keys.setdefault(K_WRAP, []).append(m)
        elif 'global-buffer-overflow' in m:
            keys.setdefault(K_STRBUF + '?', []).append(m)      # confirmed below with the stack frame
        else:
            keys.setdefault('sanitizer:' + re.sub(r'0x[0-9a-f]+|\d+', 'N', m)[:80], []).append(m)
    return keys


def judge(case, o, L):
    """The property statement on one run.  Returns a list of (key, what)."""
    v = []
    r = o['r']
    mode = 'default command line' if o['mode'] == 0 else '--Werror'
    if r['sig']:
        if o['mode'] == 0 and re.search(r'^Fatal Error on ', r['err'], re.M):
            # the sanity checks found a fatal error; main() went on because --Werror was not given, and jdf2c crashed
            v.append((K_DEFAULT, 'parsec-ptgpp (default command line) printed a fatal error, went on and was killed by signal %d: %s' % (r['sig'], r['err'].strip()[:200])))
        else:
            v.append(('ptgpp-killed-by-signal-%d' % r['sig'], 'parsec-ptgpp (%s) was killed by signal %d; stderr: %s' % (mode, r['sig'], r['err'][-300:])))
        return v
    if not o['same']:
        v.append(('output-differs-between-two-runs', 'two runs of parsec-ptgpp (%s) on the same input differ (exit status, messages or emitted files)' % mode))
    if not o['san_same']:
        v.append(('instrumented-copy-differs', 'the ASan/UBSan build of the same sources gives another exit status or other files than the installed binary'))
    for k, ms in classify_san(o['san']).items():
        if k == K_STRBUF + '?':
            k = K_STRBUF if re.search(r'"[^"\n]{1024,}', case['text']) else 'sanitizer:global-buffer-overflow'
        v.append((k, 'instrumented parsec-ptgpp: ' + ' | '.join(ms)[:400]))
    if r['rc'] != 0:
        if not (r['err'] + r['out']).strip():
            v.append(('rejected-without-diagnostic', 'exit status %s and nothing printed (%s)' % (r['rc'], mode)))
    else:
        if not o['cc'][0]:
            ks, es = classify_uncompilable(o, L)
            for k in ks:
                v.append((k, 'exit status 0 (%s) but the emitted C does not compile: %s%s' % (
                    mode, ' ; '.join(e.split(': ', 1)[-1][:120] for e in es[:3]), (' ; ptgpp said: ' + r['err'].strip()[:200]) if r['err'].strip() else '')))
    if case['kind'] == 'shape':
        why = oracle_exceeds(case['shape'], L)
        if why and r['rc'] == 0 and o['cc'][0]:
            cnt = counted(case['shape'], L)
            for w in why:
                kind = w.split(':')[0]
                if kind in ('dep_in', 'dep_out') and not cnt['deps']:
                    k = K_TERNARY
                elif kind == 'locals' and not cnt['locals']:
                    k = K_LDEF
                elif kind in ('outmask', 'inmask') and not cnt['window']:
                    k = K_WRAP
                else:
                    k = 'over-limit-accepted:' + kind
                v.append((k, 'program exceeds a runtime limit (%s) but parsec-ptgpp (%s) exits 0 and the C compiles' % (w, mode)))
    seen, out = set(), []
    for k, w in v:
        if k not in seen:
            seen.add(k)
            out.append((k, w))
    return out


# ------------------------------------------------------------------ corpus
def load_corpus():
    """corpus/C24/*.case: header lines `key: value` (kind shape|jdf, finding, modes, note), a line `---`,
    then the shape tokens or the JDF text."""
    d = os.path.join(pv.ROOT, 'corpus', PROP)
    cases = []
    for fn in sorted(os.listdir(d)) if os.path.isdir(d) else []:
        if not fn.endswith('.case'):
            continue
        head, _, body = open(os.path.join(d, fn)).read().partition('\n---\n')
        h = {}
        for ln in head.splitlines():
            if ln.strip() and not ln.startswith('#'):
                k, _, val = ln.partition(':')
                h[k.strip()] = val.strip()
        name = 'c' + re.sub(r'\W', '_', fn[:-5])
        c = {'name': name, 'origin': 'corpus:' + fn, 'kind': h.get('kind', 'jdf'), 'finding': h.get('finding') or None,
             'modes': tuple(int(x) for x in h.get('modes', '0 1').split())}
        if c['kind'] == 'shape':
            c['shape'] = parse_shape(body.split())
            c['text'] = render_shape(c['shape'])
        else:
            c['text'] = body
        cases.append(c)
    return cases


def shape_case(name, origin, funcs):
    return {'name': name, 'origin': origin, 'kind': 'shape', 'shape': funcs, 'text': render_shape(funcs), 'finding': None, 'modes': (0, 1)}


def make_cases(ctx, L):
    rng = pv.Rng(ctx.seed)
    q = ctx.quick
    B = boundary_shapes(L)
    if q:
        # the shapes right at and right above each checked limit always run; of the others a seed-dependent quarter
        # (the corpus holds the witnesses of the theorems)
        core = ('din+0', 'din+1', 'dout+0', 'dout+1', 'read flows+1', 'write flows+1', 'rw flows+0', 'locals+0')
        rest = [i for i in range(len(B)) if B[i][0] not in core]
        idx = sorted(rest, key=lambda i: rng.fork(1000 + i).next())[:len(rest) // 4]
        B = [B[i] for i in range(len(B)) if B[i][0] in core or i in idx]
    else:
        core = ()
    groups = {
        'boundary': [shape_case('b%d' % i, 'boundary:' + nm, s) for i, (nm, s) in enumerate(B)],
        'random-shape': [shape_case('r%d' % i, 'random-shape', random_shape(rng.fork(2000 + i), L)) for i in range(10 if q else 200)],
        'valid': [], 'strict': [], 'damaged': []}
    for i in range(16 if q else 200):
        t, feat = gen_program(rng.fork(3000 + i))
        groups['valid'].append({'name': 'v%d' % i, 'origin': 'valid', 'kind': 'jdf', 'text': t, 'feat': feat, 'finding': None, 'modes': (0,), 'expect_ok': True})
    for i in range(8 if q else 80):
        t, feat = gen_program(rng.fork(4000 + i), strict=True)
        groups['strict'].append({'name': 's%d' % i, 'origin': 'strict', 'kind': 'jdf', 'text': t, 'feat': feat, 'finding': None, 'modes': (0, 1), 'expect_ok': True})
    for i in range(18 if q else 300):
        r = rng.fork(5000 + i)
        t, feat = gen_program(r, strict=r.chance(1, 2))
        t2, op = damage(r, t)
        groups['damaged'].append({'name': 'd%d' % i, 'origin': 'damaged:' + op, 'kind': 'jdf', 'text': t2, 'feat': feat, 'finding': None, 'modes': (0, 1)})
    # interleave, so that a time budget cuts every group alike
    order = []
    gl = [groups[k] for k in ('boundary', 'valid', 'damaged', 'random-shape', 'strict')]
    n = max(len(g) for g in gl)
    for i in range(n):
        for g in gl:
            if i * len(g) // n != (i + 1) * len(g) // n:
                order.append(g[i * len(g) // n])
    always = load_corpus() + [c for c in order if c['origin'].startswith('boundary:') and (not q or c['origin'][9:] in core)]
    return always, [c for c in order if c not in always]


# ------------------------------------------------------------------ run
def setup_env(ctx, res):
    src = os.path.join(pv.REPO, 'parsec', 'interfaces', 'ptg', 'ptg-compiler')
    gen = os.path.join(ctx.build, 'parsec', 'interfaces', 'ptg', 'ptg-compiler')
    # the instrumented copy is rebuilt whenever one byte of its inputs changes (sources of the compiler in the
    # current tree, generated parser, configuration headers, this harness); otherwise the cached binary is reused
    hh = hashlib.sha1()
    inputs = [os.path.join(src, f) for f in sorted(os.listdir(src)) if f.endswith(('.c', '.h', '.y', '.l'))]
    inputs += [os.path.join(gen, f) for f in ('parsec.y.c', 'parsec.y.h', 'parsec.l.c')]
    inputs += [os.path.join(ctx.build, 'parsec', 'include', 'parsec', f) for f in ('parsec_options.h', 'parsec_config.h')]
    inputs += [os.path.join(pv.ROOT, 'harness', 'C24.c'), os.path.join(pv.ROOT, 'lib', 'pv.py')]
    for f in inputs:
        hh.update(f.encode() + b'\0')
        hh.update(open(f, 'rb').read() if os.path.exists(f) else b'<missing>')
    cache = os.path.join(pv.WORK, 'cache')
    os.makedirs(cache, exist_ok=True)
    exe = os.path.join(cache, 'C24-' + hh.hexdigest()[:16])
    extra = ['-Dmain=ptgpp_main', '-I' + src, '-I' + gen, '-w', '-fsanitize-recover=shift',
             os.path.join(src, 'jdf.c'), os.path.join(src, 'jdf2c.c'), os.path.join(src, 'jdf_unparse.c'),
             os.path.join(gen, 'parsec.y.c'), os.path.join(gen, 'parsec.l.c'),
             os.path.join(ctx.build, 'parsec', 'libparsec-base.a')]
    if not os.path.exists(exe):
        ok, log = pv.cc_harness(os.path.join(pv.ROOT, 'harness', 'C24.c'), exe + '.tmp', ctx.build, extra=extra, sanitize=True, link_parsec=False)
        if not ok:
            res.infra_errors.append('harness compile failed: ' + log[-1500:])
            return None
        os.replace(exe + '.tmp', exe)
    ptgpp = os.path.join(gen, 'parsec-ptgpp')
    if not os.path.exists(ptgpp):
        res.infra_errors.append('no parsec-ptgpp in the build: ' + ptgpp)
        return None
    cc_prepare(ctx.build)
    return {'dir': ctx.path('cases'), 'build': ctx.build, 'ptgpp': ptgpp, 'san': exe, 'thorough': not ctx.quick}


def model_lines(ctx, L, ops):
    if not ctx.driver_ok or not ops:
        return None
    rc, lines, err = pv.run_driver('pv_C24', ['limits %d %d %d %d' % (L['maxParam'], L['maxLocal'], L['maxDepIn'], L['maxDepOut'])] + ops)
    if rc != 0 or len(lines) != len(ops) + 1 or lines[0] != 'ok':
        return ['<driver failed: rc=%s %s>' % (rc, err[-200:])] * len(ops)
    return lines[1:]


def run_cases(env, cases, budget=None, floor=0):
    import time
    t0 = time.time()
    done = []
    chunk = 16
    with ThreadPoolExecutor(8) as ex:
        for i in range(0, len(cases), chunk):
            if budget is not None and len(done) >= floor and time.time() - t0 > budget:
                break
            part = cases[i:i + chunk]
            for c, obs in zip(part, ex.map(lambda c: observe(env, c['name'], c['text'], c['modes']), part)):
                done.append((c, obs))
    return done


def evaluate(ctx, res, L, done, stats):
    """model correspondence (shape cases) + the oracle of the statement (all cases)"""
    ops, who = [], []
    for c, obs in done:
        if c['kind'] == 'shape':
            toks = ' '.join(shape_tokens(c['shape']))
            for w, o in sorted(obs.items()):
                ops.append('prog %d %s' % (w, toks))
                who.append((c, o))
            ops.append('spec ' + toks)
            who.append((c, None))
    model = model_lines(ctx, L, ops)
    if model is None and ops:
        res.notes.append('model driver unavailable: correspondence not run, oracle only')
    for n, (c, o) in enumerate(who):
        if o is None:
            impl = 'counted=%d runtime=%d' % (int(any(v for k, v in counted(c['shape'], L).items() if k != 'window')), int(bool(oracle_exceeds(c['shape'], L))))
        else:
            impl = observed_outcome(o, L)
            res.traces_validated += 1
            stats['outcome:' + impl.split(' ')[0]] = stats.get('outcome:' + impl.split(' ')[0], 0) + 1
            if len(res.samples) < 8 and (n % 7 == 0):
                res.samples.append('%s => %s' % (ops[n][:160], impl))
        if model is not None and impl != model[n]:
            res.disagreements.append({'op': ops[n], 'impl': impl, 'model': model[n], 'case': c['origin']})
    nviol = 0
    for c, obs in done:
        h = hashlib.sha1(c['text'].encode()).hexdigest()[:12]
        for w, o in sorted(obs.items()):
            res.evaluations += 1
            res.nontrivial('%s/%d' % (h, w))
            st = 'rc=%s' % o['r']['rc'] if not o['r']['sig'] else 'signal'
            if o['r']['rc'] == 0:
                st += ',cc=%s' % ('ok' if o['cc'][0] else 'fail')
            key = '%s:%s' % (c['origin'].split(':')[0], st)
            stats[key] = stats.get(key, 0) + 1
            vs = judge(c, o, L)
            if c.get('expect_ok') and o['r']['rc'] != 0:
                # not a failure of the property (a rejection with a diagnostic is allowed) but of the generator
                stats['valid-program-rejected'] = stats.get('valid-program-rejected', 0) + 1
                res.notes.append('generator: program meant to be valid was rejected (%s): %s' % (c['name'], o['r']['err'][:160].replace('\n', ' ')))
            for k, what in vs:
                if c.get('finding') and not k.startswith(('output-differs', 'instrumented-copy')):
                    k = c['finding']
                nviol += 1
                res.violations.append({'key': k, 'what': '%s [%s]' % (what, c['origin']), 'seed': ctx.seed,
                                       'case': {'kind': c['kind'], 'mode': w, 'origin': c['origin'], 'finding': c.get('finding'),
                                                'shape': ' '.join(shape_tokens(c['shape'])) if c['kind'] == 'shape' else None,
                                                'text': c['text'] if c['kind'] == 'jdf' else None}})
        if c.get('finding') and not any(judge(c, o, L) for o in obs.values()):
            res.notes.append('corpus case %s: finding %s does not reproduce any more' % (c['origin'], c['finding']))
        for f in c.get('feat', []):
            stats['feature:' + f] = stats.get('feature:' + f, 0) + 1
        if c['origin'].startswith('damaged:'):
            stats[c['origin']] = stats.get(c['origin'], 0) + 1
    return nviol


def _sig(what):
    """first compiler error of a violation text without the identifiers: keeps ddmin on the same failure"""
    m = re.search(r"error: ([^'\u2018;\[]{6,60})", what)
    return m.group(1).strip() if m else ''


def shrink_new(ctx, res, env, L):
    """minimise the cases of violations that are not listed findings (bounded effort)"""
    known = set(f['key'] for f in pv.known_findings(PROP))
    seen = set()
    n = 0
    for v in res.violations:
        if v['key'] in known or v['key'] in seen or n >= 3:
            continue
        seen.add(v['key'])
        n += 1
        c = v['case']
        tag = 'm%d' % n

        def still(text, shape=None):
            case = {'kind': c['kind'], 'text': text, 'shape': shape, 'origin': 'shrink', 'finding': None}
            o = observe(env, tag, text, (c['mode'],))[c['mode']]
            return any(k == v['key'] and _sig(w) == _sig(v['what']) for k, w in judge(case, o, L))
        try:
            if c['kind'] == 'jdf':
                lines = c['text'].split('\n')
                small = pv.ddmin(lines, lambda ls: still('\n'.join(ls)), max_tests=60)
                c['text'] = '\n'.join(small)
            else:
                funcs = parse_shape(c['shape'].split())
                changed = True
                while changed:
                    changed = False
                    for cand in _shape_reductions(funcs):
                        if renderable(cand) and still(render_shape(cand), cand):
                            funcs, changed = cand, True
                            break
                c['shape'] = ' '.join(shape_tokens(funcs))
                c['text'] = render_shape(funcs)
            v['minimised'] = True
        except Exception as ex:      # shrinking is best effort
            v['minimised'] = 'failed: %r' % ex


def _shape_reductions(funcs):
    import copy
    for j in range(len(funcs)):
        if len(funcs) > 1:
            yield [copy.deepcopy(f) for k, f in enumerate(funcs) if k != j]
        f = funcs[j]
        for i in range(len(f['flows'])):
            g = copy.deepcopy(funcs)
            del g[j]['flows'][i]
            yield g
            for n in range(len(f['flows'][i]['deps'])):
                g = copy.deepcopy(funcs)
                del g[j]['flows'][i]['deps'][n]
                yield g
        if f['nl'] > 1:
            g = copy.deepcopy(funcs)
            g[j]['nl'] -= 1
            g[j]['ll'] = min(g[j]['ll'], g[j]['nl'] - 1)
            yield g


def run(ctx, res):
    env = setup_env(ctx, res)
    if env is None:
        return
    L = read_limits(ctx.build)
    stats = {}
    corpus, gen = make_cases(ctx, L)
    done = run_cases(env, corpus)
    done += run_cases(env, gen, budget=(30 if ctx.quick else 540), floor=(20 if ctx.quick else 200))
    stats['cases_generated'] = len(gen)
    stats['cases_run'] = len(done)
    evaluate(ctx, res, L, done, stats)
    shrink_new(ctx, res, env, L)
    res.rule = ('case = one JDF program x one command line (default / --Werror). Corpus (witnesses of the theorems and of the findings) + '
                'boundary shapes on both sides of every limit + random shapes + grammar-generated valid programs (1-3 task classes, ranges, steps, '
                'derived locals, inline C, pipes/chains between flows, CTL gathers, NEW/NULL, ternaries, ranges and local definitions in outputs, '
                'priorities, properties) + the same with one syntactic/semantic damage. Each: real parsec-ptgpp (twice in default mode, bytes compared), '
                'ASan/UBSan build of the same sources, gcc -fsyntax-only on accepted output. distinct = distinct (program text, mode); every case is non-trivial '
                '(>= 1 task class reaching the parser)')
    res.extra['input_distribution'] = dict(sorted(stats.items()))
    res.extra['limits'] = L
    res.extra['exhaustive'] = False


def replay(ctx, res, data):
    env = setup_env(ctx, res)
    if env is None:
        return
    L = read_limits(ctx.build)
    cases = []
    for n, v in enumerate(data.get('violations', [])):
        c = v.get('case') or {}
        if c.get('kind') == 'shape':
            cases.append(dict(shape_case('p%d' % n, 'replay', parse_shape(c['shape'].split())), modes=(c.get('mode', 0),)))
        elif c.get('text'):
            cases.append({'name': 'p%d' % n, 'origin': 'replay', 'kind': 'jdf', 'text': c['text'], 'finding': None, 'modes': (c.get('mode', 0),)})
    done = run_cases(env, cases)
    evaluate(ctx, res, L, done, {})


THEOREMS = ['ParsecVerif.C24.' + t for t in (
    'clean_iff', 'rejected_iff', 'limits_never_clean', 'limits_rejected_werror_partial', 'locals_always_rejected',
    'counted_le_runtime', 'runtime_limits_partial', 'shl_form', 'default_flags_not_rejected', 'total_flows_not_rejected',
    'ternary_deps_accepted', 'ternary_ldef_accepted', 'accepted_not_compilable', 'index_wrap_accepted', 'not_limits_full')]
LEVEL_TEXT = ('Only the limit decision logic is a theorem. Lean 4 theorems over every build configuration, command line and program shape: exact '
              'characterisation of the three outcomes (refused by ptgpp / accepted with C that a firing #error stops / accepted cleanly), '
              '"a limit exceeded as ptgpp counts it is never accepted cleanly", "under --Werror ptgpp itself refuses it (all checked limits)", '
              '"too many locals are refused whatever the command line", "what ptgpp counts never exceeds what the runtime needs", and the runtime limits '
              'for programs without ternary dependencies and < 32 dependencies per class. The full statement (always rejected by ptgpp) is proved FALSE '
              'of the code with five witnesses that are replayed on the real compiler (known findings F1-F5). Everything else of the property — accepted '
              'programs compile, two runs give identical bytes, rejection comes with a diagnostic and a non-zero status, no crash — is grammar-based '
              'differential exploration of the real parsec-ptgpp (installed binary + ASan/UBSan build of the same sources + gcc -fsyntax-only), not a theorem.')
LEVEL_NOTE = ('The model covers jdf_assign_ldef_index, jdf_flatten_function (index test, x86 shift semantics for counts >= 32: the C is undefined there), '
              'jdf_sanity_check_flows_and_deps_number, main() and the limit tests/#error blocks of jdf2c.c over a shape (counts only); the 8.6 kLOC C printer and gcc are '
              'outside any model. The tie renders shapes into JDF programs that pass every other check and compares exit status, the limit warnings (with their '
              'numbers), the fatal message and the firing #error blocks of the emitted files with the model, line by line. Sampled, not proved: compilability, determinism, diagnostics.')
TECHNIQUE = ('Lean 4 proof of the limit decision logic (hand-written model, exact iff characterisation + negative witnesses) tied by end-to-end differential runs of the real '
             'compiler; grammar-based differential exploration (valid / single-damage / limit-exceeding programs) for the rest')
ASSUMPTIONS = ['a shape is rendered into a program that passes every check of ptgpp other than the limits (checked on every run: the within-limit shapes must be accepted under --Werror)',
               'gcc 12 -fsyntax-only with the include paths of the build stands for "the emitted C compiles"; warnings (e.g. excess elements in array initializer) are not errors',
               'shift counts >= 32 in jdf_flatten_function are undefined in C; the model takes the x86 behaviour (count modulo 32), which the differential runs confirm for this build']
