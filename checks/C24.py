"""C24 — the PTG compiler accepts only programs it can compile."""
import os, re, json, signal, subprocess, hashlib, shutil
from concurrent.futures import ThreadPoolExecutor
import pv

PROP = 'C24'
LEAN_MODULE = 'ParsecVerif.Props.C24'
DRIVERS = ['pv_C24']
THEOREMS = []
IMPL = ('parsec/interfaces/ptg/ptg-compiler: parsec.y (function rule), jdf.c (jdf_assign_ldef_index, jdf_flatten_function, '
        'jdf_sanity_check_flows_and_deps_number, jdf_sanity_checks), main.c (main), jdf2c.c (jdf_generate_task_typedef, '
        'jdf_generate_dataflow, jdf_generate_one_function); the parsec-ptgpp executable end to end')
ENGINE = 'lean-seq'
LEVEL = 'other'

ACC_KW = {'c': 'CTL', 'r': 'READ', 'w': 'WRITE', 'x': 'RW'}


# ------------------------------------------------------------------ shapes (same tokens as lean/Driver/C24.lean)
def parse_shape(ws):
    """tokens -> [{'nl':..,'ll':..,'flows':[{'acc':..,'deps':[{'out':bool,'g':'u|b|t','a':..,'b':..,'c':..}]}]}]"""
    funcs = []
    i = 0
    while i < len(ws):
        t = ws[i]
        if t == 'f':
            funcs.append({'nl': int(ws[i + 1]), 'll': int(ws[i + 2]), 'flows': []})
            i += 3
        elif t == 'fl':
            funcs[-1]['flows'].append({'acc': ws[i + 1], 'deps': []})
            i += 2
        elif t == 'd':
            funcs[-1]['flows'][-1]['deps'].append({'out': ws[i + 1] == 'o', 'g': ws[i + 2], 'a': int(ws[i + 3]),
                                                   'b': int(ws[i + 4]), 'c': int(ws[i + 5])})
            i += 6
        else:
            raise ValueError('bad shape token %r' % t)
    return funcs


def shape_tokens(funcs):
    ws = []
    for f in funcs:
        ws += ['f', str(f['nl']), str(f['ll'])]
        for fl in f['flows']:
            ws += ['fl', fl['acc']]
            for d in fl['deps']:
                ws += ['d', 'o' if d['out'] else 'i', d['g'], str(d['a']), str(d['b']), str(d['c'])]
    return ws


def _ldefs(prefix, n, ranged):
    if n == 0:
        return '', []
    names = ['%s%d' % (prefix, k) for k in range(n)]
    return '[ ' + ', '.join('%s = %s' % (v, '0 .. 1' if ranged else '1') for v in names) + ' ] ', names


def render_shape(funcs):
    """A JDF program that has exactly this shape and passes every other check of ptgpp."""
    o = ['extern "C" %{', '#include "parsec.h"', '%}', '', 'A   [type = "parsec_data_collection_t*"]', 'NT  [type = int]', '']
    for j, f in enumerate(funcs):
        ll = f['ll']
        params = ['k'] + ['p%d' % n for n in range(1, ll + 1)]
        o.append('T%d(%s)' % (j, ', '.join(params)))
        o.append('  k = 0 .. NT')
        for n in range(1, f['nl']):
            if n <= ll:
                o.append('  p%d = [ q%d = 0 .. 1 ] 2 * q%d' % (n, n, n))
            else:
                o.append('  l%d = k + %d' % (n, n))
        o.append(': A(k, 0)')
        o.append('')
        for i, fl in enumerate(f['flows']):
            head = '  %-5s F%d ' % (ACC_KW[fl['acc']], i)
            pad = ' ' * len(head)
            lines = []
            for n, d in enumerate(fl['deps']):
                arrow = '->' if d['out'] else '<-'
                ranged = d['out']
                pre, an = _ldefs('a%d_%d_' % (i, n), d['a'], ranged)

                def target(nld, prefix, false_branch=False):
                    if fl['acc'] == 'w' and not d['out']:
                        return 'NEW'
                    if false_branch and nld == 0 and fl['acc'] != 'c' and not d['out']:
                        return 'NEW'        # two data references in one ternary do not compile (finding F6)
                    if fl['acc'] == 'c' or nld > 0 or false_branch:
                        s, names = _ldefs('%s%d_%d_' % (prefix, i, n), nld, ranged)
                        e = 'k' + ''.join(' + %s' % v for v in names) + (' + 1' if d['out'] else ' - 1')
                        return '%sF%d T%d(%s)' % (s, i, j, ', '.join([e] + ['0'] * ll))
                    return 'A(k, 0)'
                g = '(k == %d)' % n
                if d['g'] == 'u':
                    s = target(d['b'], 'b')
                elif d['g'] == 'b':
                    s = '%s ? %s' % (g, target(d['b'], 'b'))
                else:
                    s = '%s ? %s : %s' % (g, target(d['b'], 'b'), target(d['c'], 'c', True))
                lines.append('%s %s%s' % (arrow, pre, s))
            o.append(head + (('\n' + pad).join(lines) if lines else ''))
        o.append('')
        o.append('BODY')
        o.append('{')
        o.append('    (void)k;')
        o.append('}')
        o.append('END')
        o.append('')
    return '\n'.join(o) + '\n'


def _task_target(fl, d):
    """directions in which dependency d of flow fl is rendered with a task as peer"""
    if fl['acc'] == 'w' and not d['out']:
        return False
    if fl['acc'] == 'c' or d['b'] > 0:
        return True
    if d['g'] == 't':
        return d['out'] or d['c'] > 0
    return False


def renderable(funcs):
    """Side conditions under which render_shape yields a program that passes every check of ptgpp other than
    the limits: READ/RW flows have an input; the inputs of a WRITE flow are `<- NEW`; a flow that receives from
    (sends to) a task must also have an output (input) because the peer is the same flow of the same task class."""
    for f in funcs:
        if f['nl'] < 1 or f['ll'] > f['nl'] - 1:
            return False
        for fl in f['flows']:
            nin = sum(1 for d in fl['deps'] if not d['out'])
            nout = len(fl['deps']) - nin
            if fl['acc'] in 'rx' and nin == 0:
                return False
            for d in fl['deps']:
                if d['g'] != 't' and d['c'] != 0:
                    return False
                if fl['acc'] == 'w' and not d['out'] and (d['g'], d['a'], d['b'], d['c']) != ('u', 0, 0, 0):
                    return False
                if _task_target(fl, d) and (nin == 0 or nout == 0):
                    return False
                if d['g'] == 'u' and _task_target(fl, d) and (d['a'] > 0) != (d['b'] > 0):
                    return False       # `-> [i = ..] X T(i)`: the GLR parser reports an ambiguity
    return len(funcs) > 0


# ------------------------------------------------------------------ running the real compiler
def run_ptgpp(exe, jdf, outbase, flags=(), timeout=60, env=None):
    """One run of parsec-ptgpp.  Returns dict rc/sig/out/err/c/h (bytes of the emitted files or None)."""
    for ext in ('.c', '.h'):
        try:
            os.unlink(outbase + ext)
        except OSError:
            pass
    jdf, outbase = os.path.abspath(jdf), os.path.abspath(outbase)
    cmd = [exe, '--noline', '-E'] + list(flags) + ['-i', jdf, '-o', outbase, '-f', os.path.basename(outbase)]
    e = dict(os.environ)
    if env:
        e.update(env)
    try:
        p = subprocess.run(cmd, capture_output=True, timeout=timeout, env=e, cwd=os.path.dirname(outbase) or '.')
        rc, out, err = p.returncode, p.stdout, p.stderr
    except subprocess.TimeoutExpired as ex:
        rc, out, err = -signal.SIGALRM, ex.stdout or b'', (ex.stderr or b'') + b'\n[timeout]'
    r = {'rc': rc if rc >= 0 else None, 'sig': -rc if rc < 0 else 0,
         'out': out.decode(errors='replace'), 'err': err.decode(errors='replace'), 'c': None, 'h': None, 'cmd': ' '.join(cmd)}
    for ext in ('c', 'h'):
        try:
            r[ext] = open(outbase + '.' + ext, 'rb').read()
        except OSError:
            pass
    return r


_cc_inc = {}


def cc_prepare(build):
    """(call once from the main thread: pv.mpi_flags is not re-entrant)"""
    if build not in _cc_inc:
        mc, _ = pv.mpi_flags()
        _cc_inc[build] = ['-I' + pv.REPO, '-I' + os.path.join(pv.REPO, 'parsec', 'include'), '-I' + build,
                          '-I' + os.path.join(build, 'parsec', 'include')] + mc


def cc_syntax(build, cfile, timeout=120):
    """`gcc -fsyntax-only` on emitted C with the include paths of pv.cc_harness.  Returns (ok, stderr)."""
    cc_prepare(build)
    cfile = os.path.abspath(cfile)
    cmd = ['gcc', '-fsyntax-only', '-I' + os.path.dirname(cfile)] + _cc_inc[build] + [cfile]
    rc, out, err = pv.sh(cmd, timeout=timeout)
    return rc == 0, err


# ------------------------------------------------------------------ grammar-based generator of whole programs
PARAM_NAMES = ['k', 'm', 'n']
FLOW_NAMES = ['X', 'Y', 'Z', 'V', 'W', 'U']


class _Gen:
    """Builds a random valid JDF program: 1-3 task classes, 1-3 parameters each (ranges on globals, steps, derived
    locals, inline C), data flows linked by self chains and pipes between classes (every reference has its
    counterpart), control flows (chains, gathers), NEW/NULL inputs, guarded/ternary/unconditional dependencies,
    ranges and local definitions in output dependencies, priorities, task properties, hidden globals, comments."""

    def __init__(self, rng):
        self.r = rng
        self.feat = set()

    def atom(self, scope, depth=0):
        r = self.r
        c = r.below(10)
        if c < 5 and scope:
            return r.choice(scope)
        if c < 7:
            return str(r.below(4))
        if c < 8:
            return r.choice(['NT', 'MT'])
        if c < 9 and scope and depth < 2:
            self.feat.add('inline_c')
            return '%%{ return %s + %d; %%}' % (r.choice(scope), r.below(3))
        return '(%s)' % self.expr(scope, depth + 1)

    def expr(self, scope, depth=0):
        r = self.r
        if depth >= 2 or r.chance(1, 2):
            return self.atom(scope, depth)
        op = r.choice(['+', '-', '*', '+', '-', '/', '%', '<<', '>>'])
        a, b = self.atom(scope, depth + 1), self.atom(scope, depth + 1)
        if op in ('/', '%'):
            b = str(r.range(1, 3))
        if op in ('<<', '>>'):
            b = str(r.below(3))
        return '%s %s %s' % (a, op, b)

    def cond(self, scope):
        r = self.r
        c = r.below(8)
        a = self.expr(scope, 1)
        if c < 5:
            return '(%s %s %s)' % (a, r.choice(['==', '!=', '<', '<=', '>', '>=']), self.expr(scope, 1))
        if c < 6:
            return '((%s == 0) %s (%s < NT))' % (a, r.choice(['&&', '||', '&', '|', '^']), self.expr(scope, 1))
        if c < 7:
            return '(!(%s == %d))' % (a, r.below(3))
        self.feat.add('inline_c_guard')
        return '%%{ return %s == %d; %%}' % (r.choice(scope) if scope else '0', r.below(3))

    def program(self):
        r = self.r
        nT = r.choice([1, 1, 2, 2, 3])
        classes = []
        for j in range(nT):
            np_ = r.choice([1, 1, 2, 2, 3])
            params = PARAM_NAMES[:np_]
            locs = []          # (name, text)
            scope = []
            for p in params:
                c = r.below(6)
                lo = '0' if not scope or r.chance(2, 3) else r.choice(scope)
                hi = r.choice(['NT', 'MT', 'NT-1', 'MT - 1'] + (['%s + 2' % scope[-1]] if scope else []))
                if c == 0:
                    self.feat.add('range_step')
                    locs.append((p, '%s .. %s .. %d' % (lo, hi, r.range(1, 3))))
                elif c == 1 and scope:
                    self.feat.add('range_inline_c')
                    locs.append((p, '%s .. %%{ return %s + 1; %%}' % (lo, scope[-1])))
                else:
                    locs.append((p, '%s .. %s' % (lo, hi)))
                scope.append(p)
                if r.chance(1, 4):
                    dn = 'd%d' % len(locs)
                    self.feat.add('derived_local')
                    locs.append((dn, self.expr(scope)))
                    scope.append(dn)
            nfl = r.choice([1, 2, 2, 3, 4])
            flows = []
            for i in range(nfl):
                acc = r.choice(['x', 'x', 'x', 'r', 'r', 'w', 'c'])
                flows.append({'name': FLOW_NAMES[i], 'acc': acc, 'in': [], 'out': []})
            classes.append({'name': 'T%d' % j if r.chance(1, 2) else ['POTRF', 'GEMM', 'bcast'][j], 'params': params, 'locals': locs, 'scope': scope,
                            'flows': flows, 'props': [], 'prio': None})
        self.classes = classes
        # links
        for cj, c in enumerate(classes):
            for fl in c['flows']:
                self.link_flow(c, fl)
        for c in classes:
            self.cur = c
            c['part'] = 'A(%s, %s)' % (self.expr(c['scope'], 1), self.expr(c['scope'], 1))
            for fl in c['flows']:
                self.fix_flow(c, fl)
            if r.chance(1, 4):
                self.feat.add('priority')
                c['prio'] = self.expr(c['scope'])
            if r.chance(1, 4):
                self.feat.add('task_props')
                c['props'] = r.choice([['high_priority = on'], ['profile = off'], ['high_priority = on', 'profile = off'], ['count_deps = on']])
        return self.text()

    def data_ref(self, scope):
        if self.strict:     # no "potential direct remote memory reference" warning: same text as the partitioning
            return self.cur['part']
        return '%s(%s, %s)' % (self.r.choice(self.datas), self.expr(scope, 1), self.expr(scope, 1))

    def args(self, target, scope, ranged=False):
        out = []
        used_range = False
        for p in target['params']:
            if ranged and not used_range and self.r.chance(1, 2):
                used_range = True
                self.feat.add('range_in_out_dep')
                out.append('%s .. %s' % (self.expr(scope, 1), self.expr(scope, 1)))
            else:
                out.append(self.expr(scope, 1))
        return ', '.join(out)

    def link_flow(self, c, fl):
        """add a few dependencies to flow fl of class c, together with their counterparts"""
        r = self.r
        kind = 'ctl' if fl['acc'] == 'c' else 'data'
        cands = [(d, g) for d in self.classes for g in d['flows'] if (('ctl' if g['acc'] == 'c' else 'data') == kind)]
        n = r.choice([0, 1, 1, 2, 3])
        for _ in range(n):
            d, g = r.choice(cands)
            # c.fl -> d.g   (d.g <- c.fl), unless g is WRITE (its inputs must be NEW)
            if g['acc'] == 'w':
                continue
            ld = ''
            scope = list(c['scope'])
            if r.chance(1, 5):
                self.feat.add('ldef_out_dep')
                v = 'i%d' % len(fl['out'])
                ld = '[ %s = 0 .. %d ] ' % (v, r.range(1, 2))
                scope.append(v)
            guard = self.cond(c['scope']) if (ld or r.chance(3, 4)) else None   # `-> [i = ..] X T(i)` alone is ambiguous for the GLR parser
            fl['out'].append({'task': True, 'guard': guard, 'ld': ld, 't': '%s %s(%s)' % (g['name'], d['name'], self.args(d, scope, ranged=True)), 'f': None})
            gin = self.cond(d['scope']) if r.chance(3, 4) else None
            gather = kind == 'ctl' and r.chance(1, 3)
            if gather:
                self.feat.add('ctl_gather')
            g['in'].append({'guard': gin, 'ld': '', 't': '%s %s(%s)' % (fl['name'], c['name'], self.args(c, d['scope'], ranged=gather)), 'f': None})
        self.feat.add('pipe' if n else 'nopipe')

    def fix_flow(self, c, fl):
        """complete the flow so that it is valid: inputs for READ/RW, data endpoints, NEW/NULL, ternaries"""
        r = self.r
        acc = fl['acc']
        scope = c['scope']
        if acc == 'c':
            return
        if acc == 'w':
            # inputs of a WRITE flow: only `<- NEW`
            fl['in'] = []
            if r.chance(1, 2):
                self.feat.add('write_new')
                fl['in'].append({'guard': None, 'ld': '', 't': 'NEW', 'f': None})
            if not fl['out'] or r.chance(1, 2):
                fl['out'].append({'guard': self.cond(scope) if r.chance(1, 2) else None, 'ld': '', 't': self.data_ref(scope), 'f': None})
            return
        # READ / RW: guarded task inputs first, then a closing input
        for d in fl['in']:
            if d['guard'] is None:
                d['guard'] = self.cond(scope)
        c_ = r.below(6)
        if c_ < 3:
            fl['in'].append({'guard': None, 'ld': '', 't': self.data_ref(scope), 'f': None})
        elif c_ < 4:
            self.feat.add('null_input')
            fl['in'].append({'guard': None, 'ld': '', 't': 'NULL', 'f': None})
        elif c_ < 5:
            self.feat.add('new_input')      # an unguarded `<- NEW` is reserved to WRITE flows
            fl['in'].append({'guard': self.cond(scope), 'ld': '', 't': 'NEW', 'f': None})
            fl['in'].append({'guard': None, 'ld': '', 't': self.data_ref(scope), 'f': None})
        else:
            self.feat.add('ternary_in')
            fl['in'].append({'guard': self.cond(scope), 'ld': '', 't': self.data_ref(scope), 'f': r.choice(['NEW', 'NULL'])})
        if acc == 'x' and (not fl['out'] or r.chance(1, 2)):
            fl['out'].append({'guard': self.cond(scope) if r.chance(2, 3) else None, 'ld': '', 't': self.data_ref(scope), 'f': None})
        # turn one guarded task output into a ternary with a data reference
        outs = [d for d in fl['out'] if d['guard'] and d.get('task') and d['f'] is None and not d['ld']]
        if outs and acc == 'x' and r.chance(1, 3):
            self.feat.add('ternary_out')
            r.choice(outs)['f'] = self.data_ref(scope)

    def dep_text(self, arrow, d):
        s = d['ld']
        if d['guard'] is None:
            return '%s %s%s' % (arrow, s, d['t'])
        if d['f'] is None:
            return '%s %s%s ? %s' % (arrow, s, d['guard'], d['t'])
        return '%s %s%s ? %s : %s' % (arrow, s, d['guard'], d['t'], d['f'])

    def text(self):
        r = self.r
        o = ['extern "C" %{', '/* generated */', '#include "parsec.h"', '#include <stdio.h>', '%}', '']
        o += ['A   [type = "parsec_data_collection_t*"]']
        if 'B' in self.datas:
            o += ['B   [type = "parsec_data_collection_t*" aligned = A]' if r.chance(1, 2) else 'B   [type = "parsec_data_collection_t*"]']
        o += ['NT  [type = int]']
        if r.chance(1, 2):
            self.feat.add('hidden_global')
            o += ['MT  [type = int hidden = on default = "NT + 1"]' if r.chance(1, 2) else 'MT  [type = int hidden = on default = 3]']
        else:
            o += ['MT  [type = int]']
        o.append('')
        for c in self.classes:
            if r.chance(1, 3):
                self.feat.add('comments')
                o.append('/* task class %s */' % c['name'])
            o.append('%s(%s)%s' % (c['name'], ', '.join(c['params']), (' [ ' + ' '.join(c['props']) + ' ]') if c['props'] else ''))
            for n, t in c['locals']:
                o.append('  %s = %s%s' % (n, t, '  // local' if r.chance(1, 8) else ''))
            o.append('')
            o.append(': ' + c['part'])
            o.append('')
            for fl in c['flows']:
                head = '  %-5s %s ' % (r.choice({'c': ['CTL'], 'r': ['READ', 'RO'], 'w': ['WRITE', 'WO'], 'x': ['RW', 'RW', '']}[fl['acc']]), fl['name'])
                lines = [self.dep_text('<-', d) for d in fl['in']] + [self.dep_text('->', d) for d in fl['out']]
                o.append(head + ('\n' + ' ' * len(head)).join(lines))
            if c['prio'] is not None:
                o.append('')
                o.append('; %s' % c['prio'])
            o.append('')
            o.append('BODY')
            o.append('{')
            for fl in c['flows']:
                if fl['acc'] != 'c':
                    o.append('    (void)%s;' % fl['name'])
            o.append('    printf("%s(%s)\\n"%s);' % (c['name'], ', '.join(['%d'] * len(c['params'])), ''.join(', ' + p for p in c['params'])))
            o.append('}')
            o.append('END')
            o.append('')
        if r.chance(1, 3):
            self.feat.add('epilogue')
            o += ['extern "C" %{', 'static int pv_unused_epilogue(void) { return 0; }', '%}', '']
        return '\n'.join(o) + '\n'


def gen_program(rng, strict=False):
    """strict: the program draws no warning at all (it must be accepted under --Werror too)"""
    g = _Gen(rng)
    g.strict = strict
    g.datas = ['A', 'B'] if (rng.chance(1, 3) and not strict) else ['A']
    txt = g.program()
    # CTL flows without any dependency are useless but legal; READ flows were completed
    return txt, sorted(g.feat)


# ------------------------------------------------------------------ near-valid programs: one damage
def damage(rng, txt):
    """One syntactic or semantic damage applied to a valid program.  Returns (text, name of the damage).
    The result may still be a valid program: the oracle does not assume it is not."""
    lines = txt.split('\n')
    idx = [i for i, l in enumerate(lines) if l.strip()]
    k = rng.below(22)

    def sub(pat, rep, count=1, pick=True):
        ms = list(re.finditer(pat, txt))
        if not ms:
            return None
        m = rng.choice(ms) if pick else ms[0]
        return txt[:m.start()] + m.expand(rep) + txt[m.end():]
    out, name = None, None
    if k == 0:
        name, out = 'drop-close-paren', sub(r'\)', '')
    elif k == 1:
        name, out = 'drop-open-paren', sub(r'\(', '')
    elif k == 2:
        name, out = 'unknown-task', sub(r'(<-|->)([^\n]*?)\b([A-Z]) (T\d|POTRF|GEMM|bcast)\(', r'\1\2\3 NOSUCH(')
    elif k == 3:
        name, out = 'unknown-flow', sub(r'\b([XYZVWU]) (T\d|POTRF|GEMM|bcast)\(', r'Q \2(')
    elif k == 4:
        name, out = 'undefined-variable', sub(r'\b(k|m|n)\b(?=[^\n]*\n)', 'undefvar')
    elif k == 5:
        m = re.search(r'\n(T\d|POTRF|GEMM|bcast)\((.|\n)*?\nEND\n', txt)
        name, out = 'duplicate-task-class', (txt + m.group(0)) if m else None
    elif k == 6:
        name, out = 'duplicate-global', txt.replace('NT  [type = int]', 'NT  [type = int]\nNT  [type = int]', 1)
    elif k == 7:
        name, out = 'drop-END', sub(r'\nEND\n', '\n')
    elif k == 8:
        name, out = 'drop-BODY', sub(r'\nBODY\n', '\n')
    elif k == 9:
        name, out = 'param-without-definition', sub(r'\n(T\d|POTRF|GEMM|bcast)\(k', r'\n\1(zz, k')
    elif k == 10:
        name, out = 'data-arity', sub(r'\bA\(([^()\n]*), ([^()\n]*)\)', r'A(\1)')
    elif k == 11:
        name, out = 'read-flow-without-input', sub(r'\n  (READ|RO)  ([XYZVWU]) <-[^\n]*(\n +<-[^\n]*)*', r'\n  READ  \2 ')
    elif k == 12:
        name, out = 'ctl-refers-to-data', sub(r'\n  CTL   ([XYZVWU]) [^\n]*', r'\n  CTL   \1 <- A(0, 0)')
    elif k == 13:
        name, out = 'new-as-output', sub(r'-> [^\n]*', '-> NEW')
    elif k == 14:
        name, out = 'unterminated-string', sub(r'\[type = int\]', '[type = "int]')
    elif k == 15:
        i = rng.choice(idx)
        c = rng.below(max(1, len(lines[i])))
        lines[i] = lines[i][:c] + rng.choice(['@', '$', '`', '\\', '#', '~', '{', '}', ']', '[']) + lines[i][c:]
        name, out = 'garbage-char', '\n'.join(lines)
    elif k == 16:
        name, out = 'truncated', txt[:rng.range(len(txt) // 4, len(txt) - 2)]
    elif k == 17:
        name, out = 'flow-shadows-global', sub(r'\n  (RW|READ|RO|WRITE|WO|CTL)?\s+([XYZVWU]) ', r'\n  \1 NT ')
    elif k == 18:
        i = rng.choice(idx)
        name, out = 'drop-line', '\n'.join(lines[:i] + lines[i + 1:])
    elif k == 19:
        i = rng.choice(idx)
        name, out = 'duplicate-line', '\n'.join(lines[:i + 1] + lines[i:])
    elif k == 20:
        name, out = 'two-data-ternary', sub(r'(<-|->) ([^\n?]*) \? (A\([^\n]*\))\n', r'\1 \2 ? \3 : \3\n')
    else:
        toks = list(re.finditer(r'\S+', txt))
        a = rng.choice(toks)
        name, out = 'drop-token', txt[:a.start()] + txt[a.end():]
    if out is None or out == txt:
        i = rng.choice(idx)
        name, out = 'drop-line', '\n'.join(lines[:i] + lines[i + 1:])
    return out, name


# ------------------------------------------------------------------ shapes: generator, independent oracle
def D(out, g='b', a=0, b=0, c=0):
    return {'out': out, 'g': g, 'a': a, 'b': b, 'c': c}


def FL(acc, nin, nout, gin='b', gout='b'):
    """a flow with nin inputs and nout outputs of the given guard kinds (the last input is unconditional)"""
    if acc == 'w':
        ins = [D(False, 'u') for _ in range(nin)]
    else:
        ins = [D(False, gin) for _ in range(max(nin - 1, 0))] + ([D(False, 'u' if gin != 't' else 't')] if nin else [])
    return {'acc': acc, 'deps': ins + [D(True, gout) for _ in range(nout)]}


def F(nl, flows, ll=0):
    return {'nl': nl, 'll': ll, 'flows': flows}


def boundary_shapes(L):
    """hand-made shapes on each side of every limit and of every branch of the decision logic"""
    P, LO, I, O = L['maxParam'], L['maxLocal'], L['maxDepIn'], L['maxDepOut']
    S = []
    S.append(('small', [F(2, [FL('x', 1, 1)])]))
    for d in (-1, 0, 1, 4):
        S.append(('din%+d' % d, [F(1, [FL('r', I + d, 1)])]))
        S.append(('dout%+d' % d, [F(1, [FL('x', 1, O + d)])]))
    S.append(('din+1 ctl', [F(1, [FL('c', I + 1, 1)])]))
    S.append(('dout+1 write', [F(1, [FL('w', 1, O + 1)])]))
    S.append(('din+1 dout+1 same flow', [F(1, [FL('x', I + 1, O + 1)])]))
    S.append(('din+1 second class', [F(1, [FL('x', 1, 1)]), F(1, [FL('x', 1, 1), FL('r', I + 1, 0)])]))
    for d in (-1, 0, 1):
        S.append(('read flows%+d' % d, [F(1, [FL('r', 1, 0) for _ in range(P + d)])]))
        S.append(('write flows%+d' % d, [F(1, [FL('w', 0, 1) for _ in range(P + d)])]))
        S.append(('rw flows%+d' % d, [F(1, [FL('x', 1, 1) for _ in range(P + d)])]))
        S.append(('locals%+d' % d, [F(LO + d, [FL('x', 1, 1)])]))
    S.append(('mixed flows +1 (read, write <= limit)', [F(1, [FL('r', 1, 0) for _ in range(P // 2 + 1)] + [FL('w', 0, 1) for _ in range(P - P // 2)])]))
    S.append(('ctl flows +1', [F(1, [FL('c', 1, 1) for _ in range(P + 1)])]))
    S.append(('ctl+data flows +1', [F(1, [FL('c', 1, 1) for _ in range(3)] + [FL('x', 1, 1) for _ in range(P - 2)])]))
    # locals + local definitions
    S.append(('locals+ldef =limit', [F(LO - 3, [{'acc': 'x', 'deps': [D(False, 'u'), D(True, 'b', 1, 1)]}], ll=1)]))
    S.append(('locals+ldef +1', [F(LO - 2, [{'acc': 'x', 'deps': [D(False, 'u'), D(True, 'b', 1, 1)]}], ll=1)]))
    S.append(('locals+ldef(dep only) +1', [F(LO - 1, [{'acc': 'x', 'deps': [D(False, 'u'), D(True, 'b', 2, 0)]}])]))
    S.append(('locals+ldef in second class', [F(LO + 1, [FL('x', 1, 1)]), F(LO + 1, [FL('x', 1, 1)]), F(2, [FL('x', 1, 1)])]))
    S.append(('ldef ternary false branch counts', [F(LO - 1, [{'acc': 'x', 'deps': [D(False, 'u'), D(True, 't', 0, 0, 2)]}])]))
    # ternaries: two runtime entries for one counted dependency
    S.append(('ternary out x%d' % (O // 2), [F(1, [FL('x', 1, O // 2, gout='t')])]))
    S.append(('ternary out x%d' % (O // 2 + 1), [F(1, [FL('x', 1, O // 2 + 1, gout='t')])]))
    S.append(('ternary out x%d' % O, [F(1, [FL('x', 1, O, gout='t')])]))
    S.append(('ternary out x%d' % (O + 1), [F(1, [FL('x', 1, O + 1, gout='t')])]))
    S.append(('ternary in x%d' % (I // 2 + 1), [F(1, [FL('r', I // 2 + 1, 1, gin='t')])]))
    # local definitions of the true branch of a ternary
    S.append(('ternary true ldef only', [F(1, [{'acc': 'x', 'deps': [D(False, 'u'), D(True, 't', 0, 2, 0)]}])]))
    S.append(('ternary true ldef + other ldef', [F(LO - 1, [{'acc': 'x', 'deps': [D(False, 'u'), D(True, 'b', 1, 0), D(True, 't', 0, 2, 0)]}])]))
    S.append(('ternary true ldef < false ldef', [F(2, [{'acc': 'x', 'deps': [D(False, 'u'), D(True, 't', 0, 1, 2)]}])]))
    # dependency index masks of jdf_flatten_function
    def outs(*ns):
        return [F(1, [FL('x', 1, n) for n in ns])]

    def ins(*ns):
        return [F(1, [FL('x', n, 1) for n in ns])]
    S.append(('out index 23', outs(8, 8, 7)))
    S.append(('out index 24', outs(8, 8, 8)))
    S.append(('out index 31', outs(8, 8, 7, 8)))
    S.append(('out index 23 then 32', outs(8, 8, 7, 9)))
    S.append(('out index 23 then 33', outs(8, 8, 7, 10)))
    S.append(('out index window hit later', outs(8, 8, 7, 10, 10, 10)))
    S.append(('in index 28', ins(10, 10, 8)))
    S.append(('in index 29', ins(10, 10, 9)))
    S.append(('in index 28 then 38', ins(10, 10, 8, 10)))
    S.append(('parse reject in class 1, locals in class 0', [F(LO + 1, [FL('x', 1, 1)]), F(1, [FL('x', 1, 8), FL('x', 1, 8), FL('x', 1, 8)])]))
    return S


def random_shape(rng, L):
    """random shape, biased to sit near one or two limits"""
    P, LO, I, O = L['maxParam'], L['maxLocal'], L['maxDepIn'], L['maxDepOut']
    funcs = []
    for _ in range(rng.choice([1, 1, 2, 3])):
        big = rng.below(8)
        nfl = rng.choice([1, 2, 3, 4]) if big != 0 else rng.range(P - 1, P + 2)
        flows = []
        for i in range(nfl):
            acc = rng.choice(['x', 'x', 'r', 'w', 'c'])
            nin = rng.choice([0, 1, 1, 2, 3]) if big != 1 else rng.range(I - 1, I + 2)
            nout = rng.choice([0, 1, 1, 2, 3]) if big != 2 else rng.range(O - 1, O + 2)
            if nfl > 6:
                nin, nout = min(nin, 1), min(nout, 1)
            deps = []
            for n in range(nin + nout):
                out = n >= nin
                g = rng.choice(['u', 'b', 'b', 'b', 't'])
                if g == 'u' and not out and n != nin - 1:
                    g = 'b'
                a = rng.choice([0, 0, 0, 1, 2])
                b = rng.choice([0, 0, 0, 1, 2])
                c = rng.choice([0, 0, 1, 2]) if g == 't' else 0
                deps.append(D(out, g, a, b, c))
            flows.append({'acc': acc, 'deps': deps})
        nl = rng.choice([1, 2, 3, 5]) if big != 3 else rng.range(LO - 3, LO + 1)
        ll = rng.choice([0, 0, 1, 2])
        funcs.append(F(nl, flows, ll))
    return repair(funcs)


def repair(funcs):
    """minimal changes that make a shape renderable (see `renderable`)"""
    for f in funcs:
        f['nl'] = max(f['nl'], 1)
        f['ll'] = min(f['ll'], f['nl'] - 1)
        for fl in f['flows']:
            for d in fl['deps']:
                if d['g'] != 't':
                    d['c'] = 0
                if fl['acc'] == 'w' and not d['out']:
                    d.update(g='u', a=0, b=0, c=0)
            for _ in range(2):
                nin = sum(1 for d in fl['deps'] if not d['out'])
                nout = len(fl['deps']) - nin
                if fl['acc'] in 'rx' and nin == 0:
                    fl['deps'].insert(0, D(False, 'u'))
                    continue
                tt = any(_task_target(fl, d) for d in fl['deps'])
                if tt and nin == 0:
                    fl['deps'].insert(0, D(False, 'u') if fl['acc'] != 'c' else D(False, 'b'))
                if tt and nout == 0:
                    fl['deps'].append(D(True, 'b'))
            for d in fl['deps']:
                if d['g'] == 'u' and _task_target(fl, d) and (d['a'] > 0) != (d['b'] > 0):
                    d['g'] = 'b'
    return funcs


def oracle_exceeds(funcs, L):
    """The limits of the property statement, read off the runtime structures (parsec_internal.h):
    locals[MAX_LOCAL_COUNT] (locals + every ldef slot in use at the same time), data/in/out[MAX_PARAM_COUNT]
    (one slot per flow), dep_in[MAX_DEP_IN_COUNT] / dep_out[MAX_DEP_OUT_COUNT] (one slot per call: a ternary
    dependency fills two), dependency indexes within the 24 / 29 bit masks.  Returns the list of reasons."""
    why = []
    for j, f in enumerate(funcs):
        need = 0
        tin = tout = 0
        for i, fl in enumerate(f['flows']):
            ein = eout = 0
            for d in fl['deps']:
                n = 2 if d['g'] == 't' else 1
                if d['out']:
                    eout += n
                    tout += 1
                else:
                    ein += n
                    tin += 1
                need = max(need, d['a'] + (max(d['b'], d['c']) if d['g'] == 't' else d['b']))
            if ein > L['maxDepIn']:
                why.append('dep_in:%d.%d:%d' % (j, i, ein))
            if eout > L['maxDepOut']:
                why.append('dep_out:%d.%d:%d' % (j, i, eout))
        if f['nl'] + f['ll'] + need > L['maxLocal']:
            why.append('locals:%d:%d' % (j, f['nl'] + f['ll'] + need))
        if len(f['flows']) > L['maxParam']:
            why.append('flows:%d:%d' % (j, len(f['flows'])))
        if tout >= 24:
            why.append('outmask:%d:%d' % (j, tout))
        if tin >= 29:
            why.append('inmask:%d:%d' % (j, tin))
    return why


def counted(funcs, L):
    """what ptgpp counts (used only to name the root cause of an accepted over-limit program)"""
    r = {'deps': False, 'rdwr': False, 'flows': False, 'locals': False, 'window': False}
    for f in funcs:
        ci = co = 0
        nb = f['ll']
        for fl in f['flows']:
            di = sum(1 for d in fl['deps'] if not d['out'])
            do = len(fl['deps']) - di
            ci, co = ci + di, co + do
            if 29 <= ci < 32 or 24 <= co < 32:
                r['window'] = True
            if di > L['maxDepIn'] or do > L['maxDepOut']:
                r['deps'] = True
            for d in fl['deps']:
                nb = max(nb, f['ll'] + d['a'], f['ll'] + d['a'] + (d['c'] if d['g'] == 't' else d['b']))
        if f['nl'] + nb > L['maxLocal']:
            r['locals'] = True
        if len(f['flows']) > L['maxParam']:
            r['flows'] = True
        if sum(1 for fl in f['flows'] if fl['acc'] in 'rx') > L['maxParam'] or sum(1 for fl in f['flows'] if fl['acc'] in 'wx') > L['maxParam']:
            r['rdwr'] = True
    return r


# ------------------------------------------------------------------ one case on the real compiler
SAN_RE = re.compile(r'^.*(ERROR: AddressSanitizer[^\n]*|runtime error:[^\n]*|#ptgpp-hang).*$', re.M)
SAN_ENV = {'ASAN_OPTIONS': 'detect_leaks=0:abort_on_error=0:exitcode=86', 'UBSAN_OPTIONS': 'print_stacktrace=0'}


def read_limits(build):
    txt = open(os.path.join(build, 'parsec', 'include', 'parsec', 'parsec_options.h')).read()
    g = lambda n: int(re.search(r'#define\s+%s\s+(\d+)' % n, txt).group(1))
    return {'maxParam': g('MAX_PARAM_COUNT'), 'maxLocal': g('MAX_LOCAL_COUNT'), 'maxDepIn': g('MAX_DEP_IN_COUNT'), 'maxDepOut': g('MAX_DEP_OUT_COUNT')}


def observe(env, name, text, flags):
    """Run the case: the real parsec-ptgpp twice, the instrumented copy once, the C compiler on accepted output."""
    d = os.path.join(env['dir'], name)
    os.makedirs(d, exist_ok=True)
    jdf = os.path.join(d, name + '.jdf')
    with open(jdf, 'w') as f:
        f.write(text)
    r1 = run_ptgpp(env['ptgpp'], jdf, os.path.join(d, name), flags)
    d2 = os.path.join(d, 'second')
    os.makedirs(d2, exist_ok=True)
    r2 = run_ptgpp(env['ptgpp'], jdf, os.path.join(d2, name), flags)
    ds = os.path.join(d, 'san')
    os.makedirs(ds, exist_ok=True)
    rs = run_ptgpp(env['san'], jdf, os.path.join(ds, name), flags, env=SAN_ENV)
    o = {'name': name, 'flags': list(flags), 'jdf': jdf, 'r': r1, 'text': text}
    o['same'] = all(r1[k] == r2[k] for k in ('rc', 'sig', 'out', 'err', 'c', 'h'))
    o['san'] = sorted(set(m.group(1) for m in SAN_RE.finditer(rs['err'])))
    if rs['sig'] and not o['san']:
        o['san'] = ['instrumented copy killed by signal %d' % rs['sig']]
    o['san_same'] = bool(o['san']) or (rs['rc'] == r1['rc'] and rs['c'] == r1['c'] and rs['h'] == r1['h'])
    o['cc'] = None
    if r1['rc'] == 0 and r1['sig'] == 0:
        if r1['c'] is None or r1['h'] is None:
            o['cc'] = (False, 'no output file although exit status 0')
        else:
            o['cc'] = cc_syntax(env['build'], os.path.join(d, name + '.c'))
    return o


W_RE = [
    (re.compile(r'Function T(\d+): flow F(\d+) has too many \((\d+)\) input dependencies'), 'din'),
    (re.compile(r'Function T(\d+): flow F(\d+) has too many \((\d+)\) output dependencies'), 'dout'),
    (re.compile(r'Function T(\d+): has too many \((\d+)\) input or READ flows'), 'rd'),
    (re.compile(r'Function T(\d+): has too many \((\d+)\) output or WRITE flows'), 'wr'),
]
RANK_W = {'din': 0, 'dout': 0, 'rd': 1, 'wr': 2}
RANK_E = {'flows': 0, 'unused': 0.5, 'din': 1, 'dout': 1, 'rd': 2, 'wr': 3, 'noldef': 4, 'other': 5}


def _fmt(items, rank):
    def key(t):
        k, f, fl, n = t
        return (f, rank[k], fl if fl is not None else 0, 0 if k in ('din',) else 1)
    out = []
    for k, f, fl, n in sorted(items, key=key):
        if k in ('din', 'dout'):
            out.append('%s:%d.%d:%d' % (k, f, fl, n))
        elif k in ('noldef',):
            out.append('%s:%d' % (k, f))
        elif k == 'other':
            out.append('other')
        else:
            out.append('%s:%d:%d' % (k, f, n))
    return '[' + ' '.join(out) + ']'


def limit_warnings(err):
    ws = []
    for rx, k in W_RE:
        for m in rx.finditer(err):
            g = [int(x) for x in m.groups()]
            ws.append((k, g[0], g[1], g[2]) if len(g) == 3 else (k, g[0], None, g[1]))
    return ws


def fired_errors(o, L):
    """which `#if MAX_… < n / #error` blocks of the emitted files fire, and other compiler errors"""
    es = []
    h = (o['r']['h'] or b'').decode(errors='replace')
    c = (o['r']['c'] or b'').decode(errors='replace')
    for m in re.finditer(r'#if MAX_LOCAL_COUNT < (\d+)\s+/\* number of parameters and locals T(\d+) \*/', h):
        if L['maxLocal'] < int(m.group(1)):
            es.append(('locals', int(m.group(2)), None, int(m.group(1))))
    for m in re.finditer(r'#if MAX_PARAM_COUNT < (\d+)\s+/\* total number of flows for task T(\d+) \*/', h):
        if L['maxParam'] < int(m.group(1)):
            es.append(('flows', int(m.group(2)), None, int(m.group(1))))
    nunused = 0
    for m in re.finditer(r'parsec_data_pair_t unused\[MAX_LOCAL_COUNT-(\d+)\];\s*\} __parsec_\w+?_T(\d+)_data_t;', h):
        if L['maxLocal'] < int(m.group(1)):
            es.append(('unused', int(m.group(2)), None, int(m.group(1))))
            nunused += 1
    pend = []
    for m in re.finditer(r'#if (MAX_DEP_IN_COUNT|MAX_DEP_OUT_COUNT) < (\d+)|static const parsec_flow_t flow_of_\w+?_T(\d+)_for_F(\d+) =', c):
        if m.group(1):
            pend.append((m.group(1), int(m.group(2))))
        else:
            for which, n in pend:
                if which == 'MAX_DEP_IN_COUNT' and L['maxDepIn'] < n:
                    es.append(('din', int(m.group(3)), int(m.group(4)), n))
                if which == 'MAX_DEP_OUT_COUNT' and L['maxDepOut'] < n:
                    es.append(('dout', int(m.group(3)), int(m.group(4)), n))
            pend = []
    for m in re.finditer(r'#if MAX_PARAM_COUNT < (\d+)\s+/\* number of (read|write) flows of T(\d+) \*/', c):
        if L['maxParam'] < int(m.group(1)):
            es.append(('rd' if m.group(2) == 'read' else 'wr', int(m.group(3)), None, int(m.group(1))))
    ccerr = o['cc'][1] if o['cc'] else ''
    nerr = 0
    noldef = set()
    for ln in ccerr.splitlines():
        if ' error: ' in ln or 'fatal error: ' in ln:
            if '#error' in ln:
                nerr += 1
            elif "size of array 'unused' is negative" in ln.replace('\u2018', "'").replace('\u2019', "'") and nunused > 0:
                nunused -= 1
            else:
                m = re.search(r"_T(\d+)_assignment_s\W.*has no member named .ldef.", ln)
                if m:
                    noldef.add(int(m.group(1)))
                else:
                    es.append(('other', 10 ** 6, None, 0))
    for f in sorted(noldef):
        es.append(('noldef', f, None, 0))
    fired = len([e for e in es if e[0] not in ('other', 'noldef', 'unused')])
    if o['cc'] and nerr != fired and not o['cc'][0]:
        es.append(('other', 10 ** 6, None, 0))      # the compiler saw another number of #error than the blocks say
    return es


def observed_outcome(o, L):
    """the run, in the vocabulary of the model (lean/ParsecVerif/Model/JdfLimits.lean, Outcome.str)"""
    r = o['r']
    if r['sig']:
        return 'signal-%d' % r['sig']
    ws = _fmt(limit_warnings(r['err']), RANK_W)
    if r['rc'] != 0:
        m = re.search(r'Function T(\d+) has too many input or output flow with different datatypes', r['err'])
        if m:
            return 'reject-parse f=%s' % m.group(1)
        m = re.search(r'Task class T(\d+) uses (\d+) locals', r['err'])
        if m:
            return 'reject-gen f=%s warn=%s' % (m.group(1), ws)
        if '--Werror' in o['flags'] and 'rror' not in r['err'].replace('--Werror', ''):
            return 'reject-sanity warn=%s' % ws
        return 'reject-other rc=%s' % r['rc']
    es = fired_errors(o, L)
    if o['cc'][0] and not es:
        return 'emit-ok warn=%s' % ws
    if o['cc'][0]:
        return 'emit-ok-but-error-blocks warn=%s cerr=%s' % (ws, _fmt(es, RANK_E))
    return 'emit-bad warn=%s cerr=%s' % (ws, _fmt(es, RANK_E))
