"""C02 — PTG execution respects dependencies and delivers the named data.

Lean: Props/C02.lean (theorems about every WellFormed program and every interleaving of the abstract runtime on graphOf p).
Tie:  random data-valid programs (gen/ptg_gen.py datasafe mode + lib/pvptgrt.py:py_valid), compiled by the current ptgpp with
      both dependency back-ends, run under schedulers x 1..16 threads x startup chunk settings (x AGAIN answers in a third of
      the runs); bodies compute H(class, flow, locals, inputs) and log what they saw.  Per run the begin / again / end trace
      must be accepted step by step by the dataflow machine of graphOf p (pv_PTGRT), every recorded input / output and the
      final collection must equal what the Lean model computes in the trace's completion order (heapOfLog) AND what the
      reference sequential interpreter computes (seqRun, by theorem the same), and the independent Python oracle (sequential
      execution written from the language definition) must agree with the implementation's own outputs."""
import os, json
import pv, pvptg, ptg_gen, pvptgrt
PROP = 'C02'
LEAN_MODULE = 'ParsecVerif.Props.C02'
DRIVERS = ['pv_PTGRT']
THEOREMS = ['ParsecVerif.C02.C02_order', 'ParsecVerif.C02.C02_final', 'ParsecVerif.C02.C02_inputs', 'ParsecVerif.C02.C02_inputs_named',
            'ParsecVerif.C02.C02_schedule_independent', 'ParsecVerif.C02.C02_racefree_of_check', 'ParsecVerif.C02.endOrder_perm',
            'ParsecVerif.PtgRt.graphOf_WF', 'ParsecVerif.PtgRt.preds_edge', 'ParsecVerif.PtgRt.topo_run', 'ParsecVerif.PtgRt.exec_commute',
            'ParsecVerif.PtgRt.fold_perm_of_commute', 'ParsecVerif.PtgRt.runOrder_topo_eq', 'ParsecVerif.PtgRt.raceFreeB_sound',
            'ParsecVerif.PtgRt.nodeDs_targetsOK', 'ParsecVerif.PtgRt.get_runOrderL',
            'ParsecVerif.Runtime.deps_respected', 'ParsecVerif.Runtime.quiescent_all_once',
            'ParsecVerif.C02.async_writeback_witness', 'ParsecVerif.C02.C02_final_async_full_false']
IMPL = ('generated code of parsec-ptgpp (jdf2c.c: data_lookup, iterate_successors, release_deps, complete_hook write-back) + parsec/parsec.c '
        '(parsec_release_dep_fct, dependency counting), parsec/datarepo.c, parsec/remote_dep_mpi.c (parsec_remote_dep_memcpy), both --dep-management back-ends')
ENGINE = 'lean-trace'
LEVEL = 'proof'
LEVEL_TEXT = ('Lean 4 theorems for EVERY program of the JDF AST that satisfies the decidable WellFormed (out-edges = in-edges, inside the space, forward in enumeration order) and EVERY '
              'interleaving / worker count / AGAIN pattern of the abstract runtime (generic dataflow machine) on the task graph graphOf p: C02_order (a task starts only after every '
              'producer named by an active input dependency has ended), C02_final (with deterministic bodies out = H(class, flow, locals, inputs) and copies shared BY REFERENCE exactly as '
              'the generated data_lookup does — in-place RW updates, NEW copies, write-back of -> ddesc(e) — every complete run of a program whose conflicting bodies are ordered by '
              'dependency chains ends in the heap of the reference sequential interpreter seqRun: collection tiles, arena copies, and the ghost cells recording what every body saw and left), '
              'C02_inputs (every body sees in every flow what it sees in the sequential execution), C02_inputs_named (that value is what the NAMED producer left when no third task writes the copy '
              'in between), C02_schedule_independent; proof: non-conflicting node actions commute (footprints), the completion order of every run is a duplicate-free topological order '
              '(invariant of the machine), any two such orders are connected by swaps of independent neighbours. The race-freedom hypothesis is decidable; raceFreeB_sound proves the '
              'executable check the driver evaluates on every generated program. The correspondence to the real runtime is differential: whole-program runs of generated programs.')
LEVEL_NOTE = ('Theorem: everything above, about the model (graphOf, node actions, machine). Sampled: the real runtime on generated programs (schedules are whatever the OS gives); per run the trace '
              'is replayed on the machine and all values compared. Modelling assumptions stated as decidable side conditions checked per program (asyncSafeB): the write-back -> ddesc(e) from a '
              'foreign copy is executed later by the communication thread (parsec_remote_dep_memcpy queues DEP_MEMCPY), the model applies it when the body ends; programs where a later task touches '
              'the source copy or the tile are outside the subset — for them the sequential-execution statement is FALSE of the code (C02_final_async_full_false, witness replayed on the real runtime on every run: known finding). Bodies are atomic at their end in the model; overlapping real bodies are unordered hence non-conflicting in race-free programs. '
              'Not covered: typed / reshaped flows (C18), remote edges (C05), GPU copies, range (gather) inputs on data flows, user-defined functions. '
              'Trusted: Lean kernel, propext/Classical.choice/Quot.sound, the generator (JDF text and AST from one value), harness/ptg_rt.c, lib/pvptgrt.py.')
TECHNIQUE = 'Lean 4 proof (commutation of independent node actions + invariant "completion order is topological") + differential whole-program runs with a trace acceptor and a reference interpreter'
ASSUMPTIONS = ['task bodies are deterministic functions of their inputs and terminate (test-owned bodies)', 'single process (remote edges are C05)',
               'sequentially consistent execution of the bodies\' loads and stores once ordered by a dependency chain']


def configs(ctx, rng, n):
    """n configurations: scheduler, threads 1..16, (startup_iter, startup_chunk), AGAIN in a third of them"""
    out = []
    sch = pvptg.SCHEDS
    for i in range(n):
        s = sch[(i + rng.below(3)) % len(sch)] if not ctx.quick else ['lfq', 'ap', 'rnd', 'gd', 'll', 'pbq'][i % 6]
        t = [1, 2, 4, 16, 3, 8][i % 6] if ctx.quick else rng.range(1, 16)
        it, ch = (rng.choice(pvptgrt.CHUNKS), rng.choice(pvptgrt.CHUNKS)) if i % 2 else (64, 256)
        ag = (rng.range(1, 1 << 30), rng.range(20, 70), rng.range(1, 3)) if i % 3 == 2 else None
        out.append({'sched': s, 'threads': t, 'iter': it, 'chunk': ch, 'again': ag, 'spin': i % 4 == 1})
    return out


def evaluate(prog, g, cfg, tr, r):
    # ---- model: acceptor + values in completion order + final tiles; and the reference sequential interpreter
    ops, impl = pvptgrt.rt_ops(prog, g, tr, cfg)
    if tr['final'] is not None:
        ops.append('seqfinal'); impl.append(' '.join('%d:%d' % (t, v) for t, v in sorted(tr['final'].items())))
    r['dis'] += pvptgrt.compare_rt(ops, impl)[:4]
    # ---- independent oracle, on the implementation's own outputs
    fails = pvptgrt.oracle_basic(prog, g, tr) + pvptgrt.oracle_order(prog, g, tr)
    res, final = pvptgrt.py_seq(prog, g)
    bp = pvptgrt.by_params(prog, g)
    lastB, ended = {}, {}
    for (k, c, env, th, vals) in tr['events']:
        inst = (c, env)
        if inst not in res:
            continue
        nf = len(prog.classes[c]['flows'])
        if k == 'B':
            lastB[inst] = pvptgrt.pad(vals, nf)
            if lastB[inst] != res[inst][0]:
                fails.append('%s saw %s in its flows, a sequential execution gives %s' % (ptg_gen.inst_name(prog, c, env), pvptgrt.fmt(lastB[inst]), pvptgrt.fmt(res[inst][0])))
            # the value of an input fed by a task = what that task wrote (or passed on) in the named flow, in THIS trace
            for fi, f in enumerate(prog.classes[c]['flows']):
                if f['acc'] == 'CTL' or lastB[inst][fi] is None:
                    continue
                t = pvptgrt.first_active(f['ins'], g, env)
                if t is not None and t[0] == 't':
                    src = pvptgrt.named_instance(prog, g, env, t, bp)
                    if src in ended:
                        wrote = ended[src][1][t[2]] if ended[src][1][t[2]] is not None else ended[src][0][t[2]]
                        if wrote is not None and wrote != lastB[inst][fi]:
                            fails.append('%s flow %d holds %s, its producer %s wrote %s' % (ptg_gen.inst_name(prog, c, env), fi, lastB[inst][fi],
                                                                                           ptg_gen.inst_name(prog, *src), wrote))
        elif k == 'E':
            outs = pvptgrt.pad(vals, nf)
            ended[inst] = (lastB.get(inst, [None] * nf), outs)
            if outs != res[inst][1]:
                fails.append('%s wrote %s, a sequential execution gives %s' % (ptg_gen.inst_name(prog, c, env), pvptgrt.fmt(outs), pvptgrt.fmt(res[inst][1])))
        if len(fails) > 4:
            break
    if tr['end'] == 'complete' and tr['final'] is not None and tr['final'] != final:
        diff = sorted(set(tr['final'].items()) ^ set(final.items()))[:4]
        fails.append('final collection differs from a sequential execution: (tile, value) differences %s' % diff)
    r['fails'] += fails
    r['stats'].update({'events': len(tr['events']), 'again_events': sum(1 for e in tr['events'] if e[0] == 'A'),
                  'tiles_changed': len(tr['final'] or {}), 'values_compared': sum(len(e[4]) for e in tr['events'])})


KNOWN_ASYNC_KEY = 'writeback-to-collection-asynchronous-stale-read'


def probe_finding(ctx, res, p):
    """corpus programs marked `finding`: race free in the synchronous model but NOT asyncSafe — a consumer ordered after the
    producer reads the tile the producer writes back.  The Lean side must agree that they are outside (asyncsafe false); the
    real runtime is run a few times: event order / exactly-once must hold, a stale read is the known finding."""
    g = p.gvecs[0]
    mv = pvptgrt.model_valid(p, g)
    if not (mv['wf'] and mv['racefree']) or mv['asyncsafe']:
        res.disagreements.append({'op': 'valid', 'impl': 'finding program: expected wf, racefree, NOT asyncsafe', 'model': str(mv), 'case': json.loads(p.to_case())})
        return
    exe, log = pvptgrt.build_cached(ctx, p, pvptg.BACKENDS[0])
    if exe is None:
        res.infra_errors.append('program %s does not build: %s' % (p.name, log[-400:])); return
    seq, final = pvptgrt.py_seq(p, g)
    stale = total = 0
    for cfg in ({'sched': 'lfq', 'threads': 2, 'iter': 64, 'chunk': 256}, {'sched': 'gd', 'threads': 8, 'iter': 1, 'chunk': 1}, {'sched': 'ap', 'threads': 1, 'iter': 64, 'chunk': 256}):
        rc, out, err = pvptgrt.run_cfg(exe, g, cfg)
        tr = pvptgrt.parse_events(out)
        res.evaluations += len(tr['events'])
        fails = pvptgrt.oracle_basic(p, g, tr) + pvptgrt.oracle_order(p, g, tr)
        if tr['final'] is not None and tr['final'] != final:
            fails.append('final collection differs from a sequential execution')
        ops, impl = pvptgrt.rt_ops(p, g, tr, cfg, with_data=False)
        for d in pvptgrt.compare_rt(ops, impl, strip_data=True)[:2]:
            d['case'] = json.loads(p.to_case({'config': cfg})); res.disagreements.append(d)
        if fails:
            res.violations.append({'key': 'C02:finding-program:%s' % fails[0][:80], 'what': fails[0], 'case': json.loads(p.to_case({'config': cfg}))})
        for (k, c, env, th, vals) in tr['events']:
            if k == 'B' and (c, env) in seq:
                want = seq[(c, env)][0]
                got = pvptgrt.pad(vals, len(want))
                for fi, (a, b) in enumerate(zip(got, want)):
                    if b is not None:
                        total += 1
                        if a != b:
                            stale += 1
                            first = (ptg_gen.inst_name(p, c, env), fi, a, b, cfg)
    res.extra.setdefault('known_finding_probe', {})[p.name] = {'reads': total, 'stale': stale}
    if stale:
        res.violations.append({'key': KNOWN_ASYNC_KEY, 'what': '%s read %s in flow %d, a sequential execution gives %s (the producer\'s write-back to the collection had not been executed yet); %d of %d reads stale; %s' % (
            first[0], first[2], first[1], first[3], stale, total, first[4]), 'case': json.loads(p.to_case({'config': first[4]}))})


def run(ctx, res, cases=None):
    rng = pv.Rng(ctx.seed)
    corpus = pvptgrt.load_corpus(PROP)
    probes = [p for p in corpus if getattr(p, 'meta', {}).get('finding')]
    corpus = [p for p in corpus if p not in probes]
    if cases is None:
        for p in probes:
            probe_finding(ctx, res, p)
    if cases is None:
        progs = corpus + pvptgrt.shared_programs(ctx.seed, 8 if ctx.quick else 20)
        forced = None
    else:
        progs = [c[0] for c in cases]
        forced = {c[0].name: (c[1], c[2]) for c in cases}
    items, stats = pvptgrt.prepare(ctx, res, PROP, progs, ctx.quick)
    ncfg = 5 if ctx.quick else 6
    groups = []
    for k, (p, g, b, exe) in enumerate(items):
        cfgs = configs(ctx, rng.fork(k), ncfg)
        cfgs = (cfgs[:3] if b == pvptg.BACKENDS[0] else cfgs[3:5]) if ctx.quick else (cfgs[:4] if b == pvptg.BACKENDS[0] else cfgs[4:6])
        if forced and forced.get(p.name, (None, None))[0]:
            fc, fb = forced[p.name]
            if fb and fb != b:
                continue
            cfgs = [fc] + cfgs[:2]
        groups.append([(p, g, b, exe, cfg) for cfg in cfgs])
    work = pvptgrt.interleave(groups)      # first configuration of every (program, globals, back-end), then the second, ...
    if ctx.quick and len(work) > 48:
        work = work[:48]
    results = pvptgrt.sweep(ctx, res, PROP, work, evaluate)
    feat = {}
    for p in progs:
        for k, v in p.features().items():
            feat[k] = feat.get(k, 0) + v
    res.rule = ('corpus programs first, then random programs (gen/ptg_gen.py mode "full", datasafe: 1-4 classes, constant and expression steps, derived locals and parameters, guards and ternary '
                'dependencies, RW chains updated in place, CTL chains, cross-class edges with fan-out ranges, READ / RW / WRITE flows, NEW / NULL, write-backs to the collection) kept only when the '
                'independent validity analysis accepts them (race freedom, write-back safety, named values) and the Lean hypotheses (WellFormed, raceFreeB, asyncSafeB) hold; each is compiled by the '
                'current ptgpp with both dependency back-ends and run under (scheduler, threads, startup_iter, startup_chunk, AGAIN answers, spinning bodies) configurations; one evaluation = one '
                'begin / again / end event (with the values seen / written) or verdict line; distinct = distinct (program, globals, back-end, configuration); non-trivial = at least 3 task instances executed')
    res.samples = [{'program': w[0].ser(w[1])[:300], 'globals': list(w[1]), 'backend': w[2], 'config': w[4], 'events': r['n']} for w, r in results[:4]]
    res.extra['input_distribution'].update({'programs': len(progs), 'corpus': len(corpus), 'program_globals_pairs': stats, 'features': feat, 'runs': len(results)})
    pvptgrt.prune_cache()


def replay(ctx, res, data):
    run(ctx, res, cases=pvptgrt.cases_from_replay(data) or None)
