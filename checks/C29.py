"""C29 — futures complete once and deliver one value."""
import os, glob, pv
PROP = 'C29'
LEAN_MODULE = 'ParsecVerif.Props.C29'
DRIVERS = ['pv_C29']
THEOREMS = ['ParsecVerif.C29.binv_step', 'ParsecVerif.C29.C29_base_once', 'ParsecVerif.C29.C29_base_all_done',
            'ParsecVerif.C29.C29_base_null_needs_precondition',
            'ParsecVerif.C29.kinv_step', 'ParsecVerif.C29.C29_count', 'ParsecVerif.C29.C29_count_nonpositive',
            'ParsecVerif.FutureDC.dinv_step', 'ParsecVerif.FutureDC.minv_step', 'ParsecVerif.C29.C29_trigger_once', 'ParsecVerif.C29.C29_nested_distinct',
            'ParsecVerif.C29.C29_dc_values', 'ParsecVerif.C29.C29_dc_one_value_per_class', 'ParsecVerif.C29.C29_parent_lock_mutex']
IMPL = 'parsec/class/parsec_future.c (base/countable set, get), parsec/class/parsec_datacopy_future.c (get_or_trigger, _internal, set, nested futures)'
ENGINE = 'lean-coop'
LEVEL = 'proof'
LEVEL_TEXT = ('Lean 4 theorems for EVERY interleaving (any schedule, any number of threads, any per-thread operation sequences) of a small-step model with one transition per atomic '
              'operation / fence / spin re-check of the real code. Base future: at most one CAS wins (exactly one as soon as the future holds a value), the value never changes, the callback runs '
              'exactly once (0 before, 1 after the winner\'s fence step), every get and every positive is_ready happens after completion and every get returns the winning value, which is the '
              'argument of one of the issued sets; when all threads are done and a set was issued the future is complete. Countable future with count c>=1: ready <-> at least c fetch-decs executed, '
              'callback count = (1 if ready else 0), the count word is c - #decs; for c<=0 it never becomes ready. Data-copy future, for every match callback of the form cls a = cls b and every '
              'sync/deferred fulfilment choice: per future (base and each nested) the fulfilment callback ran exactly (1 if TRIGGERED else 0) <= 1 times; the classes of base+nested futures are pairwise '
              'distinct (at most one nested future per shape class, none matching the base); every non-NULL value returned for a request is the value of the unique future of the request\'s class '
              '(of the base future for a NULL spec), so all non-NULL answers of one class are equal; the base lock is held by at most one thread (the list scan and the creation happen under it). '
              'The model is tied to the current source on every run: real futures with counting callbacks run under the cooperative scheduler hooked at every atomic primitive; every executed schedule '
              'is replayed step by step on the Lean machine (park point, all shared fields, callback counters, return values), exhaustively (DFS over all non-stuttering schedules) for small '
              'configurations, randomly for 2-16 threads; a free-running 16-thread stress evaluates the property oracle on the real code (sampling).')
LEVEL_NOTE = ('Theorems hold under: set values are non-NULL (a set(NULL) on a base future leaves it settable again: witness theorem C29_base_null_needs_precondition); fewer than 2^31 sets on a countable future (Int count); '
              'the data-copy set protocol of the source comment (set called only by the fulfilment callback or by the party it deferred to, or before sharing), the match callback an equivalence given by a class function; '
              'sequentially consistent interleavings at atomic-operation granularity (no weak-memory effects; the plain status-byte read-modify-writes are not split). Warnings of the losing set are silenced in the harness '
              '(they take the output subsystem\'s lock). Free-running stress is sampling. Trusted: Lean kernel, propext/Classical.choice/Quot.sound, cooperative scheduler and hook H1.')
TECHNIQUE = 'Lean 4 proof (inductive invariants over all interleavings) on a small-step model; tie = step-by-step schedule replay of the real code under a cooperative scheduler + free-running stress with oracle'
ASSUMPTIONS = ['sequential consistency at the granularity of parsec_atomic_* operations', 'non-NULL values are set on base futures',
               'data-copy futures are set only by their fulfilment callback (or its delegate) or before being shared',
               'the match callback is an equivalence relation on shapes']


# ------------------------------------------------------------------ generation
def gen_progs(rng, kind, nthr, maxops, shapes=None):
    progs = []
    for t in range(nthr):
        n = rng.range(1, maxops)
        if kind == 'base':
            ns = rng.range(0, n)
            p = ['S%d' % rng.range(1, 9) for _ in range(ns)] + [rng.choice(['G', 'G', 'R']) for _ in range(n - ns)]
            # R may come anywhere
            if rng.chance(1, 3):
                p.insert(0, 'R')
        elif kind == 'count':
            ns = rng.range(0, n)
            p = ['S'] * ns + [rng.choice(['G', 'R']) for _ in range(n - ns)]
            if rng.chance(1, 3):
                p.insert(0, 'R')
        else:
            p = []
            for _ in range(n):
                if rng.chance(1, 4):
                    p.append('F')
                elif rng.chance(1, 6):
                    p.append('T0')
                else:
                    p.append('T%d' % rng.choice(shapes))
        progs.append(p[:8])
    return progs


def fix_blocking(kind, progs, c):
    """make a base/count case acceptable: enough sets for the gets (append sets to a thread without get)"""
    ns = sum(p.count('S') if kind == 'count' else sum(1 for o in p if o.startswith('S')) for p in progs)
    ng = sum(p.count('G') for p in progs)
    need = (1 if kind == 'base' else max(c, 0)) if ng else 0
    if kind == 'count' and ng and c < 1:
        for p in progs:
            p[:] = [o for o in p if o != 'G'] or ['R']
        return
    i = 0
    while ns < need:
        p = progs[i % len(progs)]
        if len(p) < 8:
            gi = p.index('G') if 'G' in p else len(p)
            p.insert(gi, 'S3' if kind == 'base' else 'S'); ns += 1
        i += 1
        if i > 200:
            for p in progs:
                p[:] = [o for o in p if o != 'G'] or ['R']
            return


def gen_case(rng, big=False):
    kind = rng.choice(['base', 'count', 'dc', 'dc', 'dc'])
    nthr = rng.choice([2, 2, 3, 3, 4, 4, 5, 8, 16]) if big else rng.choice([2, 2, 3, 3, 4])
    maxops = 2 if nthr >= 8 else 3
    if kind == 'base':
        progs = gen_progs(rng, kind, nthr, maxops)
        fix_blocking(kind, progs, 0)
        return 'base ' + ' / '.join(' '.join(p) for p in progs)
    if kind == 'count':
        progs = gen_progs(rng, kind, nthr, maxops)
        ns = sum(p.count('S') for p in progs)
        c = rng.choice([ns, ns, max(ns - 1, 1), ns + 1, 1, 2, 0, -1])
        fix_blocking(kind, progs, c)
        return 'count %d ' % c + ' / '.join(' '.join(p) for p in progs)
    M = rng.choice([1, 2, 3, 4, 4, 4, 5])
    nsh = rng.range(1, 4)
    shapes = [rng.range(1, 9) for _ in range(nsh)]
    b = rng.range(1, 9)
    amask = rng.choice([0, 0, rng.below(1024), 1022])
    pre = 1 if rng.chance(1, 6) else 0
    progs = gen_progs(rng, 'dc', nthr, maxops, shapes)
    return 'dc %d %d %d %d ' % (b, M, amask, pre) + ' / '.join(' '.join(p) for p in progs)


DFS_SMALL = [
    'base S1 / S2', 'base S1 / G', 'base S1 / S2 / G', 'base S1 G / S2 R', 'base R S1 / G',
    'count 2 S / S', 'count 1 S / S', 'count 2 S / S / G', 'count 3 S S / S G', 'count 0 S / S',
    'dc 1 4 0 0 T0 / T0', 'dc 1 4 0 0 T2 / T2', 'dc 1 4 0 0 T2 / T6', 'dc 1 4 0 0 T2 / T3', 'dc 1 4 0 0 T0 / T2',
    'dc 1 4 4 0 T2 F / T2', 'dc 1 4 2 0 T0 F / T0', 'dc 1 4 0 1 T0 / T2', 'dc 1 4 0 0 T5 / T2', 'dc 2 2 12 0 T3 F / T5 T3',
]
DFS_THOROUGH = ['base S1 G / S2 G / R', 'count 2 S G / S / S', 'dc 1 4 0 0 T2 / T3 / T2', 'dc 1 4 8 0 T2 T3 / T3 F', 'dc 1 4 0 0 T2 T0 / T6 / T0']
STRESS = [
    'base S1 G / S2 G / S3 G / G / S4 / G R / S5 G / G / S6 G / S7 / G / G / S8 G / S9 G / G / S10 G',
    'count 12 S G / S G / S G / S / S / S G / S / S G / S S / S / G / S / G / R G / G / G',
    'count 20 S / S / S / S S / S / S / S / S / S / S / S / S / S / S / S / S R',
    'dc 1 4 0 0 T0 / T2 / T3 / T4 / T0 T2 / T6 / T7 / T5 T2 / T3 / T2 T3 / T0 / T2 / T3 / T4 / T8 / T1 T2',
    'dc 1 4 1022 0 T0 F / T2 F / T3 F / T4 / T0 T2 / T6 / T7 F / T5 T2 / T3 / T2 T3 / T0 / T2 / T3 / T4 / T8 / T1 T2',
    'dc 3 2 4 0 T1 / T2 / T1 T2 / T4 / T3 / T2 / T0 / T1',
    'dc 2 5 0 1 T1 / T2 / T3 / T4',
]


def gen_lines(ctx):
    rng = pv.Rng(ctx.seed)
    lines, k = [], 0
    for f in sorted(glob.glob(os.path.join(pv.ROOT, 'corpus', 'C29', '*.case'))):
        for ln in open(f):
            ln = ln.strip()
            if ln and not ln.startswith('#'):
                lines.append('case %d %s' % (k, ln)); k += 1
    for c in DFS_SMALL + ([] if ctx.quick else DFS_THOROUGH):
        lines.append('case %d %s | dfs %d' % (k, c, 1500 if ctx.quick else 8000)); k += 1
    for _ in range(350 if ctx.quick else 4000):
        lines.append('case %d %s | rng %d' % (k, gen_case(rng, big=rng.chance(1, 4)), rng.next() % 1000000007)); k += 1
    return lines


# ------------------------------------------------------------------ oracle (from the property text, on the implementation's transcript)
def kv(s):
    return dict(w.split('=', 1) for w in s.split() if '=' in w)


def parse_rets(s):
    out = []
    for grp in s.strip().lstrip('[').rstrip(']').split('] ['):
        out.append(grp.split())
    return out


def oracle_run(ops, impl):
    """ops/impl: the lines of one run (case line first).  Returns failure text or None."""
    w = ops[0].split()
    kind = w[2]
    steps = [(o, r) for o, r in zip(ops[1:], impl[1:]) if o.startswith('step')]
    rets = [r for o, r in zip(ops, impl) if o == 'rets']
    final = [r for o, r in zip(ops, impl) if o == 'final']
    if not rets:
        return None
    results = parse_rets(rets[0])
    if kind in ('base', 'count'):
        progs = [p.split() for p in ' '.join(w[3 if kind == 'base' else 4:]).split('/')]
        c0 = int(w[3]) if kind == 'count' else None
        prev_d = 0
        for o, r in steps:
            f = kv(r)
            if int(f['cb']) > 1:
                return 'completion callback ran %s times (%s after %s)' % (f['cb'], r, o)
            if kind == 'base':
                d = int(f['d'])
                if prev_d and d != prev_d:
                    return 'the value of the future changed from %d to %d' % (prev_d, d)
                prev_d = d
                if f['st'] == '1' and (d == 0 or f['cb'] != '1'):
                    return 'ready without value or without exactly one callback: %s' % r
            else:
                ready = c0 >= 1 and int(f['c']) <= 0
                if (f['st'] == '1') != ready or int(f['cb']) != (1 if ready else 0):
                    return 'countable future of count %d: %d sets done, state %s' % (c0, c0 - int(f['c']), r)
        last = kv(steps[-1][1]) if steps else kv(impl[0])
        nset = sum(1 for p in progs for o in p if o.startswith('S'))
        if kind == 'base':
            d = int(last['d'])
            if nset and (last['cb'] != '1' or last['st'] != '1' or ('S%d' % d) not in [o for p in progs for o in p]):
                return 'after all %d sets: %s' % (nset, steps[-1][1])
            for t, rs in enumerate(results):
                for x in rs:
                    if x.startswith('G') and x != 'G%d' % d:
                        return 'a reader got %s, the future holds %d' % (x, d)
        else:
            for t, rs in enumerate(results):
                for x in rs:
                    if x.startswith('G') and x != 'G0':
                        return 'a reader of the countable future got %s' % x
        return None
    # data-copy
    b, M = int(w[3]), int(w[4])
    for o, r in [(ops[0], impl[0])] + steps:
        futs = [x for x in r.split() if x.count(':') == 3]
        for x in futs:
            sh, st, d, cb = x.split(':')
            if int(cb) > 1:
                return 'fulfilment callback of the future of shape %s ran %s times (%s)' % (sh, cb, r)
            if int(cb) != int(st[0]):
                return 'callback count and TRIGGERED bit differ: %s' % x
            if st[1] == '1' and int(d) != 100 + int(sh):
                return 'completed future of shape %s holds value %s' % (sh, d)
        cl = [int(x.split(':')[0]) % M for x in futs]
        if len(set(cl)) != len(cl):
            return 'two futures of one shape class exist: %s' % r
    lastf = [x for x in (steps[-1][1] if steps else impl[0]).split() if x.count(':') == 3]
    byclass = {int(x.split(':')[0]) % M: int(x.split(':')[0]) for x in lastf}
    progs = [p.split() for p in ' '.join(w[7:]).split('/')]
    for t, rs in enumerate(results):
        for op, x in zip(progs[t], rs):
            if op.startswith('T'):
                r_ = int(op[1:]); v = int(x[1:])
                want = 100 + (b if r_ == 0 else byclass.get(r_ % M, -1000))
                if v != 0 and v != want:
                    return 'request %s of thread %d returned %d, the future of its class holds %d' % (op, t, v, want)
    if final:
        f = final[0]
        cbs = f[f.index('[') + 1:f.index(']')].split()
        if any(int(c) > 1 for c in cbs):
            return 'fulfilment ran more than once: %s' % f
    return None


def add_harness_viols(res, viols):
    """`!viol C29 <tag> [case k <spec> | <policy>] text` lines of the harness: one per tag, with the replayable case"""
    seen = set(v['key'] for v in res.violations)
    for v in viols:
        t = v.get('what', '')
        key = ' '.join(t.split()[:2]) if t.startswith('C29') else v.get('key', t)
        if key in seen:
            continue
        seen.add(key)
        case = ''
        if '[' in t and ']' in t:
            case = t[t.index('[') + 1:t.index(']')]
            w = case.split(' ', 2)
            if w[0] == 'case' and len(w) == 3:
                case = w[2]
        res.violations.append({'key': key, 'what': t, 'case': case})


def run(ctx, res, lines=None):
    exe = ctx.path('C29')
    ok, log = pv.cc_harness(os.path.join(pv.ROOT, 'harness', 'C29.c'), exe, ctx.build)
    if not ok:
        res.infra_errors.append('harness compile failed: ' + log[-1500:]); return
    replaying = lines is not None
    lines = lines or gen_lines(ctx)
    ops, impl, model, stats = pv.differential(ctx, res, [exe], 'pv_C29', stdin='\n'.join(lines) + '\n', timeout=3000)
    harness_viols, res.violations = res.violations, []     # re-added (deduplicated, with their replayable case) after the oracle's own
    runs, cur = [], None
    for i, o in enumerate(ops):
        if o.startswith('case'):
            cur = []; runs.append(cur)
        if cur is not None:
            cur.append(i)
    nsched = 0
    kinds = {'base': 0, 'count': 0, 'dc': 0}
    nthr_hist, nested_hist = {}, {}
    seen_v = set()
    for idx in runs:
        ro, ri = [ops[i] for i in idx], [impl[i] for i in idx]
        if 'rets' not in ro:
            continue
        nsched += 1
        kind = ro[0].split()[2]
        kinds[kind] += 1
        n = ro[0].count(' / ') + 1
        nthr_hist[n] = nthr_hist.get(n, 0) + 1
        if kind == 'dc':
            nfv = int(kv(ri[-1]).get('nf', '1'))
            nested_hist[nfv - 1] = nested_hist.get(nfv - 1, 0) + 1
        f = oracle_run(ro, ri)
        sched = ' '.join(o.split()[1] for o in ro if o.startswith('step'))
        case = ro[0].split(' ', 2)[2] + ' | replay ' + sched
        if f:
            import re
            key = 'C29 ' + kind + ': ' + re.sub(r'[0-9]+', 'N', f.split(' (')[0].split(':')[0])
            if key not in seen_v:
                seen_v.add(key)
                res.violations.append({'key': key, 'what': f, 'case': case, 'trace': ri[-12:]})
        if len(ro) > 5:
            res.nontrivial(case)
    res.evaluations = nsched
    add_harness_viols(res, harness_viols)
    # free-running stress: the property oracle on the real code with 16 (and fewer) threads
    rounds = 150 if ctx.quick else 3000
    if res.disagreements:
        rounds *= 10          # correspondence broken: search harder for a concrete failing execution
    if replaying:
        rounds = 0
    if rounds:
        sl = ['case %d %s | stress %d' % (i, c, rounds) for i, c in enumerate(STRESS)]
        rc, out, err = pv.sh([exe], input='\n'.join(sl) + '\n', timeout=2400)
        _, _, st2, viols = pv.parse_transcript(out)
        stats.update(st2)
        if rc != 0:
            res.violations.append({'key': 'C29 stress harness exit %d' % rc, 'what': 'free-running harness exited with %d: %s' % (rc, err[-500:]), 'case': sl[0]})
        add_harness_viols(res, [{'key': v, 'what': v} for v in viols])
    res.traces_validated = nsched
    res.rule = ('each evaluation = one complete schedule of 1-16 threads running their operation lists on a real future (base / countable / data-copy with nested futures) under the cooperative '
                'scheduler, replayed step by step on the Lean machine and judged by the property oracle; exhaustive DFS over the non-stuttering schedules of the listed small configurations, '
                'PRNG schedules (with stutter steps) for random configurations; distinct = (configuration, schedule); non-trivial = at least 4 steps. The free-running stress rounds are counted separately (input_distribution).')
    res.samples = [{'ops': [ops[i] for i in idx][:40], 'impl': [impl[i] for i in idx][:40]} for idx in runs[-2:]]
    res.extra['input_distribution'] = dict(stats, runs_by_kind=kinds, runs_by_threads=nthr_hist, runs_by_nested_futures=nested_hist, steps=sum(1 for o in ops if o.startswith('step')))
    res.extra['inconclusive'] = stats.get('incomplete_runs', 0)


def replay(ctx, res, data):
    lines = []
    for i, v in enumerate(data.get('violations', [])):
        c = v.get('case', '')
        w = c.split(' ', 2)
        if w[0] == 'case' and len(w) == 3:
            c = w[2]
        if ' | ' in c and not c.startswith('C29'):
            lines.append('case %d %s' % (i, c))
    run(ctx, res, lines=lines or None)
