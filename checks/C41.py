"""C41 — info registries return what was set."""
import os, json, pv
PROP = 'C41'
LEAN_MODULE = 'ParsecVerif.Props.C41'
DRIVERS = ['pv_C41']
THEOREMS = ['ParsecVerif.C41.distinct_ids', 'ParsecVerif.C41.register_fresh', 'ParsecVerif.C41.register_dup',
            'ParsecVerif.C41.lookup_spec', 'ParsecVerif.C41.set_spec', 'ParsecVerif.C41.tas_spec', 'ParsecVerif.C41.get_spec',
            'ParsecVerif.C41.frame', 'ParsecVerif.C41.last_set', 'ParsecVerif.C41.buggy_register_duplicates']
IMPL = 'parsec/class/info.c'
ENGINE = 'lean-seq'
LEVEL = 'proof'
LEVEL_TEXT = ('Lean 4 theorems for every history of register/unregister/new-array/set/get/test_and_set calls: registered infos have pairwise distinct ids and names '
              '(inductive invariant: id list strictly increasing, max_id = maximum), registration returns the least free id, lookup returns the id of the entry '
              'carrying the name, set/get/test_and_set have their map semantics, and a frame theorem shows a set value survives any other traffic including '
              'registry growth and array growth. The model mirrors parsec/class/info.c call by call and is tied to the current source on every run by random and '
              'corpus histories executed on the real API under ASan/UBSan and compared line by line with the compiled Lean model; an independent map-based oracle is '
              'evaluated on the implementation outputs. Two genuine defects found this way were repaired (known_findings.json, fixed entries).')
LEVEL_NOTE = ('Sequential histories only: the theorems treat each API call as atomic (each runs under the list lock or the array rwlock; test_and_set is one CAS). '
              'Concurrent interleavings inside parsec_info_set (plain read + write under a read lock) are not modelled. Preconditions (id within the registry id range; get only for '
              'registered ids) are explicit and the harness respects them. Trusted: Lean kernel, propext/Classical.choice/Quot.sound, the harness, differential testing as tie.')
TECHNIQUE = 'Lean 4 proof (inductive invariant + frame theorem over all call histories) on a hand-written model, tied by differential correspondence with the real API'
ASSUMPTIONS = ['API calls are atomic w.r.t. each other (lock-protected); concurrent set/set races on one slot are outside the theorems',
               'values are non-zero small integers carried as pointers; 0 stands for NULL']

NAMES = ['a', 'b', 'c', 'd', 'e', 'f', 'g', 'h', 'k', 'm', 'n', 'p']


def gen_case(rng, length):
    ops = []
    maxid_guess = -1
    noa = 0
    for _ in range(length):
        r = rng.below(100)
        if r < 22:
            ops.append('reg %s %d %d %d' % (rng.choice(NAMES), rng.below(2), rng.below(2), rng.range(1, 250)))
            maxid_guess += 1
        elif r < 36:
            ops.append('unreg %d' % rng.range(-1, max(maxid_guess, 0) + 1))
        elif r < 44:
            ops.append('lookup %s' % rng.choice(NAMES))
        elif r < 52 or noa == 0:
            ops.append('oanew'); noa += 1
        elif r < 70:
            ops.append('set %d %d %d' % (rng.below(noa), rng.range(0, max(maxid_guess, 0) + (1 if rng.chance(1, 10) else 0)), rng.range(0, 250)))
        elif r < 88:
            ops.append('get %d %d' % (rng.below(noa), rng.range(0, max(maxid_guess, 0))))
        elif r < 97:
            ops.append('tas %d %d %d %d' % (rng.below(noa), rng.range(0, max(maxid_guess, 0)), rng.range(1, 250), rng.choice([0, 0, rng.range(1, 250)])))
        else:
            ops.append('maxid')
    return ops


def oracle(ops, impl):
    """The property itself, as a simple abstract map, evaluated on the implementation's outputs.
    Returns a list of failure descriptions."""
    fails = []
    reg = {}        # name -> (id, ctor default or None, dtor)
    slots = {}      # (array, id) -> value
    noa = 0
    for o, r in zip(ops, impl):
        r = r.split(' @')[0]
        w = o.split()
        if r in ('rejected', 'bad-op', '<no-result>'):
            continue
        if w[0] == 'reg':
            rid = int(r)
            if w[1] in reg:
                if rid != -1:
                    fails.append('%s: name already registered but got id %d' % (o, rid))
            else:
                if rid < 0:
                    fails.append('%s: fresh name refused' % o)
                elif rid in [v[0] for v in reg.values()]:
                    fails.append('%s: returned id %d which is still assigned to another registered info' % (o, rid))
                else:
                    reg[w[1]] = (rid, int(w[4]) if w[2] != '0' else None, w[3] != '0')
        elif w[0] == 'unreg':
            rid = int(r.split()[0])
            iid = int(w[1])
            names = [n for n, v in reg.items() if v[0] == iid]
            if names:
                if rid != iid:
                    fails.append('%s: registered id not unregistered (%s)' % (o, r))
                if reg[names[0]][2]:
                    for k in list(slots):
                        if k[1] == iid:
                            del slots[k]
                del reg[names[0]]
            elif rid != -1:
                fails.append('%s: unknown id but result %s' % (o, r))
        elif w[0] == 'lookup':
            want = reg[w[1]][0] if w[1] in reg else -1
            if int(r) != want:
                fails.append('%s: returned %s, registered id is %d' % (o, r, want))
        elif w[0] == 'oanew':
            noa += 1
        elif w[0] == 'set':
            k = (int(w[1]), int(w[2]))
            if int(r) != slots.get(k, 0):
                fails.append('%s: previous value reported %s, last value set was %d' % (o, r, slots.get(k, 0)))
            slots[k] = int(w[3])
        elif w[0] == 'tas':
            k = (int(w[1]), int(w[2]))
            cur = slots.get(k, 0)
            if cur == int(w[4]):
                if int(r) != int(w[3]):
                    fails.append('%s: slot matched %d but result %s' % (o, cur, r))
                slots[k] = int(w[3])
            elif int(r) != cur:
                fails.append('%s: slot holds %d (no match) but result %s' % (o, cur, r))
        elif w[0] == 'get':
            k = (int(w[1]), int(w[2]))
            cur = slots.get(k, 0)
            if cur == 0:
                names = [n for n, v in reg.items() if v[0] == k[1]]
                d = reg[names[0]][1] if names else None
                cur = d if d else 0
                if cur:
                    slots[k] = cur
            if int(r) != cur:
                fails.append('%s: returned %s, expected last value set / constructed default %d' % (o, r, cur))
    return fails


def load_corpus():
    cs = []
    d = os.path.join(pv.ROOT, 'corpus', PROP)
    if os.path.isdir(d):
        for f in sorted(os.listdir(d)):
            if f.endswith('.case'):
                cs.append([l.strip() for l in open(os.path.join(d, f)) if l.strip() and not l.startswith('#')])
    return cs


def run(ctx, res, cases=None):
    exe = ctx.path('C41')
    ok, log = pv.cc_harness(os.path.join(pv.ROOT, 'harness', 'C41.c'), exe, ctx.build, sanitize=True,
                            extra=[os.path.join(pv.REPO, 'parsec', 'class', 'info.c')])
    if not ok:
        res.infra_errors.append('harness compile failed: ' + log[-1500:]); return
    env = {'ASAN_OPTIONS': 'detect_leaks=0'}
    rng = pv.Rng(ctx.seed)
    corpus = load_corpus()
    if cases is None:
        n = 400 if ctx.quick else 6000
        cases = corpus + [gen_case(rng.fork(k), rng.range(4, 60 if ctx.quick else 160)) for k in range(n)]
    results, stats, viols, (rc, err) = pv.run_script(exe, 'pv_C41', cases, env=env, use_driver=ctx.driver_ok)
    hist = {}
    for k, r in enumerate(results):
        res.evaluations += 1
        for o in r['ops']:
            hist[o.split()[0]] = hist.get(o.split()[0], 0) + 1
        if r['crashed']:
            res.violations.append({'key': 'crash:' + ' ; '.join(r['ops'][:len(r['impl']) + 1]), 'what': 'real code crashed / sanitizer abort (rc=%s) in case %d after %d ops: %s' % (r.get('rc'), k, len(r['impl']), r.get('stderr', '')[-400:]), 'case': r['ops']})
            break
        fails = oracle(r['ops'], r['impl'])
        if fails:
            small = pv.ddmin(r['ops'], lambda ops: bool(oracle(ops, pv.run_script(exe, 'pv_C41', [ops], env=env, use_driver=False, timeout=60)[0][0]['impl'])))
            sf = oracle(small, pv.run_script(exe, 'pv_C41', [small], env=env, use_driver=False, timeout=60)[0][0]['impl']) or fails
            res.violations.append({'key': ' ; '.join(small), 'what': sf[0], 'case': small, 'all_failures': sf[:5]})
        if ctx.driver_ok and r['impl'] != r['model']:
            small = pv.ddmin(r['ops'], lambda ops: pv.case_disagrees(exe, 'pv_C41', ops, env=env))
            rs = pv.run_script(exe, 'pv_C41', [small], env=env, timeout=60)[0][0]
            res.disagreements.append({'case': small, 'impl': rs['impl'], 'model': rs['model']})
        if any(x.split(' @')[0] not in ('rejected', '-1', '0', '-1 []', 'ok') for x in r['impl']) and len(r['ops']) > 3:
            res.nontrivial(' ; '.join(r['ops']))
        if len(res.violations) + len(res.disagreements) >= 5:
            break
    res.traces_validated = len(results)
    # concurrent clause ("under concurrent use and registry growth"): free-running search, not a theorem.
    # info.c is compiled into the harness with ASan so that a racy access to a reallocated array is reported.
    # when the correspondence (values or synchronisation footprint) broke, search much harder for a failing execution
    rounds = '120' if res.disagreements else ('6' if ctx.quick else '150')
    rc, out, err = pv.sh([exe, 'stress', '8' if res.disagreements else '4', rounds, '200'], env=env, timeout=1500)
    _, _, st2, viols = pv.parse_transcript(out)
    for v in viols:
        res.violations.append({'key': 'concurrent:' + v[:60], 'what': v, 'case': 'C41 stress 4 threads'})
    if rc != 0:
        res.violations.append({'key': 'concurrent:crash', 'what': 'concurrent get/set vs registry growth: sanitizer abort / crash (rc=%d): %s' % (rc, err[-700:]), 'case': 'C41 stress 4 threads'})
    stats = dict(stats or {}, **st2)
    res.rule = ('corpus cases first, then random histories (length 4..60 quick / 4..160 thorough) over 12 names, ids up to max_id(+1), 1..n arrays, values 0..250, executed on the real API under ASan+UBSan; '
                'distinct = distinct op sequence; non-trivial = at least one call returned a non-default value')
    res.samples = [{'ops': r['ops'][:12], 'impl': r['impl'][:12]} for r in results[len(corpus):len(corpus) + 2]] + [{'ops': r['ops'], 'impl': r['impl']} for r in results[:1]]
    res.extra['input_distribution'] = {'op_histogram': hist, 'corpus_cases': len(corpus), 'rejected_calls': sum(r['impl'].count('rejected') for r in results), 'stress': stats}


def replay(ctx, res, data):
    cases = [v['case'] for v in data.get('violations', []) if 'case' in v] + [d['case'] for d in data.get('disagreements', []) if 'case' in d]
    run(ctx, res, cases=cases or None)
