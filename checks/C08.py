"""C08 — schedulers never lose or duplicate a ready task (all 11 modules)."""
import os, pv
PROP = 'C08'
LEAN_MODULE = 'ParsecVerif.Props.C08'
DRIVERS = ['pv_C08']
THEOREMS = ['ParsecVerif.C08.C08_conservation', 'ParsecVerif.C08.C08_no_duplicate', 'ParsecVerif.C08.C08_invariant',
            'ParsecVerif.C08.C08_progress', 'ParsecVerif.C08.C08_drain',
            'ParsecVerif.C08.C08_vp_conservation', 'ParsecVerif.C08.C08_vp_drain',
            'ParsecVerif.C08.init_ap', 'ParsecVerif.C08.init_ip', 'ParsecVerif.C08.init_spq', 'ParsecVerif.C08.init_gd', 'ParsecVerif.C08.init_rnd',
            'ParsecVerif.C08.init_ll', 'ParsecVerif.C08.init_llp', 'ParsecVerif.C08.init_lfq', 'ParsecVerif.C08.init_lhq', 'ParsecVerif.C08.init_pbq',
            'ParsecVerif.C08.init_ltq', 'ParsecVerif.C08.init_vp',
            'ParsecVerif.C08.C08_llp_chain', 'ParsecVerif.C08.C08_push_all',
            'ParsecVerif.C08.C08_llp_concurrent', 'ParsecVerif.C08.C08_llp_concurrent_quiescent', 'ParsecVerif.C08.C08_llp_two_writers_lose',
            'ParsecVerif.Sched.Module.Correct.conservation_from', 'ParsecVerif.Sched.Module.Correct.drain',
            'ParsecVerif.Sched.mergeLoop_perm', 'ParsecVerif.Sched.hbbPushAll_perm', 'ParsecVerif.Sched.pbqLoop_perm',
            'ParsecVerif.Sched.heapRemove_spec', 'ParsecVerif.Sched.heapSplit_spec', 'ParsecVerif.Sched.ltqSelect_ok']
IMPL = 'parsec/mca/sched/*/sched_*_module.c, parsec/hbbuffer.c, parsec/maxheap.c, parsec/class/{list,lifo,dequeue}.h, parsec/scheduling.c (__parsec_schedule_vp)'
ENGINE = 'lean-seq'
LEVEL = 'proof'
LEVEL_TEXT = ('Lean 4 theorems, for EVERY one of the 11 scheduler modules (ap gd ip lfq lhq ll llp ltq pbq rnd spq), every number of streams / every buffer topology satisfying a decidable shape '
              'condition that the driver evaluates on the topology read from the real module, and EVERY finite history of schedule(ring, distance)/select calls issued by any streams of the virtual process '
              '(= every interleaving of the streams at module-call granularity): pending (+) returned = scheduled as multisets of task identities (C08_conservation: no loss, no invention; C08_no_duplicate), '
              'while something is pending some stream of the virtual process selects a task (C08_progress) and |pending| successive selects drain everything (C08_drain); the same with '
              '__parsec_schedule_vp / next_task retention in front of any module (C08_vp_*). Proved once for a generic bag-refining machine and instantiated by a refinement certificate per module whose '
              'machine mirrors the real containers: shared sorted list (ap, ip), per-distance lists (spq), dequeue (gd), random re-prioritisation + sorted list (rnd), per-stream LIFOs (ll), '
              'lifo_chain_sorted/lifo_merge_ring with its prev/next cursor (llp; the certificate proves the splice branch never drops the elements linked between prev and next), hierarchical bounded buffers '
              'with overflow to parents and the system queue (lfq, lhq, pbq incl. push_all_by_priority ejection), buffers of max-heaps with heap_insert / heap_remove / heap_split_and_steal (ltq). '
              'Tie on every run: the REAL modules (installed by parsec_init, called directly on the real execution streams) execute random histories on 1..4 streams with forced buffer overflow, compared '
              'EXACTLY (returned task id and reported distance, and the order of a final full drain) with the compiled Lean machines for the 10 deterministic modules, multiset-only for rnd; plus free-running '
              'multi-thread stress on every module with a multiset oracle.')
LEVEL_NOTE = ('The per-module theorems are at module-CALL granularity: each schedule/select call is one atomic step (exact for ap/ip/spq/gd/rnd, whose calls are one lock-protected container operation). Finer than that, only llp\'s '
              'lifo_chain_sorted is modelled at atomic-operation granularity (C08_llp_concurrent: every interleaving of push-front CAS / detach CAS + merge / plain-store or CAS write-back with repeat, against concurrent pops, conserves, '
              'under the documented hypothesis that a single-writer LIFO is chained only by its owner; C08_llp_two_writers_lose shows the hypothesis is needed). Interleavings inside concurrent hbbuffer push_all/pop_best (per-slot CAS), '
              'the ll steal loop and the try-locks of the dequeues are not modelled and are only sampled by the free-running stress (multiset oracle), which respects llp\'s hypothesis (only stream 0 receives foreign schedules). '
              'Liveness is for quiescent states. ltq: the heap functions carry conserving fall-backs for tree shapes the C code never builds; that the fall-backs are never taken (shape = complete tree of `size` nodes) is '
              'not proved, only observed by the exact differential runs. rnd: the random priorities are a universally quantified parameter, its list sort is modelled up to permutation, correspondence is multiset-only. '
              'The hwloc topology is an input of the model (read from the real objects), not an assumption. Trusted: Lean kernel, propext/Classical.choice/Quot.sound, the harness, differential testing as tie.')
TECHNIQUE = 'Lean 4 proof (generic bag refinement: inductive invariant + permutation facts per module, lifted to all histories) on hand-written machines over the real containers; tie = exact differential correspondence with the real modules + multi-thread stress with a multiset oracle'
ASSUMPTIONS = ['each module call is atomic w.r.t. the others (theorems); concurrency inside calls is only sampled by the stress runs',
               'a ring handed to schedule holds distinct tasks none of which is pending (usage protocol of the runtime; the harness does not issue other calls)',
               'llp: only stream 0 receives schedule calls from foreign threads (the hypothesis documented in sched_llp_schedule); the stress respects it',
               'one virtual process; parsec_runtime_keep_highest_priority_task = 1 (default)']

MODS = ['ap', 'gd', 'ip', 'lfq', 'lhq', 'll', 'llp', 'ltq', 'pbq', 'rnd', 'spq']
HBB = ('lfq', 'lhq', 'ltq', 'pbq')
MAXID = 4096


def gen_case(rng, mod, nc, length, big):
    ops = ['mod %s %d' % (mod, nc)]
    if mod in HBB:
        ops.append('cfg auto')
    nid = 0
    for _ in range(length):
        r = rng.below(100)
        if r < 46:
            z = rng.below(100)
            if z < 62:
                n = rng.range(1, 8)
            elif z < 84:
                n = rng.range(9, 4 * nc + 6)            # around the size of a 4*nb_cores buffer
            elif z < 94 or not big:
                n = rng.range(20, 64)
            else:
                n = rng.choice([100, 470, 486, 500])    # beyond lhq's per-stream buffer
            if nid + n >= MAXID:
                continue
            toks = []
            style = rng.below(3)
            for j in range(n):
                p = rng.range(0, 2) if style == 0 else (rng.range(0, 9) if style == 1 else rng.range(-50, 50))
                g = (':%d' % rng.below(3)) if mod == 'ltq' and rng.chance(4, 5) else ''
                toks.append('%d:%d%s' % (nid, p, g)); nid += 1
            kind = 'sched'
            k = rng.below(10)
            if k < 2:
                kind = 'vps'
            elif k < 4 and mod == 'gd':
                kind = 'schedh'
            d = rng.choice([0, 0, 0, 0, 1, 1, 2, 3, 5])
            ops.append('%s %d %d %s' % (kind, rng.below(nc), d, ' '.join(toks)))
        elif r < 97:
            ops.append('%s %d' % ('next' if rng.chance(1, 4) else 'sel', rng.below(nc)))
        else:
            ops.append('drain')
    ops.append('drain')
    return ops


def oracle(ops, impl):
    """Conservation, written from the property text: every task handed in is returned exactly once, by the
    time a full drain ends.  Returns (failures, stats)."""
    fails = []
    st = {'returned': 0, 'distances': {}, 'big_rings': 0, 'drained': 0}
    pend = set()
    done = set()
    for o, r in zip(ops, impl):
        w = o.split()
        if r in ('rejected', 'bad-op', '<no-result>') or w[0] in ('mod', 'cfg'):
            continue
        if w[0] in ('sched', 'schedh', 'vps'):
            if r != 'ok':
                fails.append('%s: schedule failed: %s' % (o[:60], r)); continue
            if len(w) - 3 > 8:
                st['big_rings'] += 1
            for t in w[3:]:
                pend.add(int(t.split(':')[0]))
        elif w[0] in ('sel', 'next'):
            if r == 'none':
                continue
            try:
                tid, dist = (int(x) for x in r.split())
            except ValueError:
                fails.append('%s: unparsable result %r' % (o, r)); continue
            st['returned'] += 1
            st['distances'][dist] = st['distances'].get(dist, 0) + 1
            if tid in done:
                fails.append('%s: task %d returned a second time (duplicate)' % (o, tid))
            elif tid not in pend:
                fails.append('%s: task %d returned but never scheduled' % (o, tid))
            else:
                pend.discard(tid); done.add(tid)
        elif w[0] == 'drain':
            try:
                lst = [int(x) for x in r.strip('[]').split()]
            except ValueError:
                fails.append('drain: unparsable result %r' % r[:80]); continue
            for tid in lst:
                st['drained'] += 1
                if tid in done:
                    fails.append('drain: task %d returned a second time (duplicate)' % tid)
                elif tid not in pend:
                    fails.append('drain: task %d returned but never scheduled' % tid)
                else:
                    pend.discard(tid); done.add(tid)
            if pend:
                fails.append('drain: %d tasks lost (scheduled, never returned although every stream selected until empty), e.g. task %d' % (len(pend), min(pend)))
                pend.clear()
        elif w[0] == 'stress':
            if r != 'ok':
                fails.append('%s: %s' % (o, r))
    return fails, st


def canon(mod, ops, res):
    """rnd's choices are random: compare only whether a task was returned and how many a drain returns;
    the multiset (which tasks) is checked by the oracle"""
    if mod != 'rnd' or res is None:
        return res
    out = []
    for o, r in zip(ops, res):
        w = o.split()
        if w[0] in ('sel', 'next') and r not in ('none', 'rejected', 'bad-op'):
            out.append('task ' + r.split()[-1])
        elif w[0] == 'drain' and r.startswith('['):
            out.append('[%d tasks]' % len(r.strip('[]').split()))     # which ones: the oracle's business (multiset)
        else:
            out.append(r)
    return out


def env_for(mod):
    e = dict(pv.MPI_ENV)
    e.update({'ASAN_OPTIONS': 'detect_leaks=0', 'PARSEC_MCA_mca_sched': mod})
    return e


def run_group(exe, mod, nc, cases, use_driver=True, timeout=1800):
    """one harness process for all cases of (module, stream count).  The driver replays the ops as echoed by the
    harness transcript (`cfg auto` is echoed with the real topology)."""
    lines, bounds = [], []
    for k, c in enumerate(cases):
        bounds.append(len(lines)); lines.append('case %d' % k); lines += list(c)
    rc, out, err = pv.sh([exe, str(nc)], input='\n'.join(lines) + '\n', timeout=timeout, env=env_for(mod))
    ops, impl, stats, viols = pv.parse_transcript(out)
    model = None
    if use_driver and ops:
        rcd, model, derr = pv.run_driver('pv_C08', ops, timeout=timeout)
    results = []
    for k, c in enumerate(cases):
        lo = bounds[k]; hi = bounds[k + 1] if k + 1 < len(cases) else len(lines)
        r = {'ops': list(c), 'echo': ops[lo + 1:hi], 'impl': impl[lo + 1:hi], 'model': model[lo + 1:hi] if model is not None else None,
             'crashed': False, 'mod': mod, 'nc': nc}
        if len(impl) < hi:
            r['crashed'] = len(impl) >= lo or k == 0
            r['stderr'] = err[-800:]; r['rc'] = rc
        results.append(r)
    return results, stats, viols, (rc, err)


def case_mod(ops):
    w = ops[0].split() if ops else []
    return (w[1], int(w[2])) if len(w) == 3 and w[0] == 'mod' and w[1] in MODS and w[2].isdigit() and int(w[2]) > 0 else None


def run_one(exe, ops, use_driver=True):
    mc = case_mod(ops)
    if mc is None:
        return None
    return run_group(exe, mc[0], mc[1], [ops], use_driver=use_driver, timeout=300)[0][0]


def load_corpus():
    cs = []
    d = os.path.join(pv.ROOT, 'corpus', PROP)
    if os.path.isdir(d):
        for f in sorted(os.listdir(d)):
            if f.endswith('.case'):
                cs.append([l.strip() for l in open(os.path.join(d, f)) if l.strip() and not l.startswith('#')])
    return cs


def header_len(ops):
    return 2 if len(ops) > 1 and ops[1].startswith('cfg') else 1


def run(ctx, res, cases=None):
    exe = ctx.path('C08')
    ok, log = pv.cc_harness(os.path.join(pv.ROOT, 'harness', 'C08.c'), exe, ctx.build, sanitize=True)
    if not ok:
        res.infra_errors.append('harness compile failed: ' + log[-1500:]); return
    rng = pv.Rng(ctx.seed)
    corpus = load_corpus()
    if cases is None:
        cases = list(corpus)
        k = 0
        only = [m for m in os.environ.get('VERIF_C08_MODS', '').split(',') if m in MODS]   # debugging aid: restrict the modules
        if only:
            cases = [c for c in cases if case_mod(c) and case_mod(c)[0] in only]
            res.notes.append('VERIF_C08_MODS=%s: only these modules were run' % ','.join(only))
        for mi, mod in enumerate(MODS):
            if only and mod not in only:
                continue
            # quick: one stream count per module (rotating with the seed), thorough: 1..4 streams
            ncs = [[4, 1, 3, 2][(mi + ctx.seed) % 4]] if ctx.quick else [1, 2, 3, 4]
            for nc in ncs:
                nseq = 12 if ctx.quick else 60
                for j in range(nseq):
                    cases.append(gen_case(rng.fork(k), mod, nc, rng.range(4, 40 if ctx.quick else 90), big=(j % 7 == 3))); k += 1
                # (b) free-running stress; then one more sequential case on the same (reused) containers
                t = nc
                hdr = ['mod %s %d' % (mod, nc)] + (['cfg auto'] if mod in HBB else [])
                rounds = 1200 if ctx.quick else (3000 if mod in ('ap', 'ip', 'spq', 'rnd') else 10000)   # the sorted-list modules insert in O(length)
                cases.append(hdr + ['stress %d %d %d' % (t, rounds, rng.next() % 1000003), 'stress %d %d %d' % (max(1, t - 1), rounds // 2, rng.next() % 1000003), 'drain'])
                cases.append(gen_case(rng.fork(k), mod, nc, 20, big=False)); k += 1
    groups = {}
    for c in cases:
        mc = case_mod(c)
        if mc is None:
            res.infra_errors.append('case without a valid `mod` line: %r' % c[:2]); continue
        groups.setdefault(mc, []).append(c)
    hist = {'ops': {}, 'ring_sizes': {}, 'schedule_distances': {}, 'returned_distance_by_module': {}, 'cases': {}, 'stress': {}, 'tasks_returned': 0, 'tasks_drained': 0}
    # one harness process per (module, stream count); up to 4 of them at a time (each has at most nc+1 busy threads, and only during stress)
    import concurrent.futures, time as _t
    def job(item):
        (mod, nc), cs = item
        t0 = _t.time()
        out = run_group(exe, mod, nc, cs, use_driver=ctx.driver_ok, timeout=900 if ctx.quick else 7200)
        pv.log('[C08] %s/%d: %d cases in %.1fs' % (mod, nc, len(cs), _t.time() - t0))
        return out
    items = sorted(groups.items())
    with concurrent.futures.ThreadPoolExecutor(max_workers=4) as pool:
        outs = list(pool.map(job, items))
    for ((mod, nc), cs), (results, stats, viols, (rc, err)) in zip(items, outs):
        hist['cases']['%s/%d' % (mod, nc)] = len(cs)
        for kk, v in stats.items():
            hist['stress'][mod + ':' + kk] = hist['stress'].get(mod + ':' + kk, 0) + v
        hviol = list(viols)
        for r in results:
            res.evaluations += 1
            for o in r['ops']:
                w = o.split()
                hist['ops'][w[0]] = hist['ops'].get(w[0], 0) + 1
                if w[0] in ('sched', 'schedh', 'vps'):
                    b = len(w) - 3
                    b = str(b) if b <= 8 else ('9-24' if b <= 24 else ('25-64' if b <= 64 else '>64'))
                    hist['ring_sizes'][b] = hist['ring_sizes'].get(b, 0) + 1
                    hist['schedule_distances'][w[2]] = hist['schedule_distances'].get(w[2], 0) + 1
            if r['crashed']:
                res.violations.append({'key': 'crash:%s/%d:' % (mod, nc) + ' ; '.join(r['ops'][:len(r['impl']) + 1])[:600],
                                       'what': 'real code crashed / hung / sanitizer abort (rc=%s) in a %s/%d case after %d ops: %s' % (r.get('rc'), mod, nc, len(r['impl']), r.get('stderr', '')[-500:]),
                                       'case': r['ops']})
                break
            if any(x.startswith('wrong-module') or x.startswith('topo-') for x in r['impl']):
                res.infra_errors.append('harness/module mismatch: ' + ' | '.join(r['impl'][:3])); break
            fails, st = oracle(r['ops'], r['impl'])
            hist['tasks_returned'] += st['returned']; hist['tasks_drained'] += st['drained']
            dm = hist['returned_distance_by_module'].setdefault(mod, {})
            for d, c in st['distances'].items():
                dm[str(d)] = dm.get(str(d), 0) + c
            if fails:
                hl = header_len(r['ops'])
                head, body = r['ops'][:hl], r['ops'][hl:]
                def bad(sub):
                    rr = run_one(exe, head + sub, use_driver=False)
                    return rr is not None and (rr['crashed'] or bool(oracle(rr['ops'], rr['impl'])[0]))
                small = head + (pv.ddmin(body, bad, max_tests=24) if len(body) > 3 and len(res.violations) < 2 and not any(o.startswith('stress') for o in body) else body)
                rr = run_one(exe, small, use_driver=False)
                sf = oracle(rr['ops'], rr['impl'])[0] or fails
                res.violations.append({'key': '%s/%d: ' % (mod, nc) + ' ; '.join(small)[:600], 'what': sf[0], 'case': small, 'impl': rr['impl'][:40], 'all_failures': sf[:5]})
            if ctx.driver_ok and r['model'] is not None and canon(mod, r['ops'], r['impl']) != canon(mod, r['ops'], r['model']):
                hl = header_len(r['ops'])
                head, body = r['ops'][:hl], r['ops'][hl:]
                def dis(sub):
                    rr = run_one(exe, head + sub)
                    return rr is not None and (rr['crashed'] or rr['model'] is None or canon(mod, rr['ops'], rr['impl']) != canon(mod, rr['ops'], rr['model'][:len(rr['impl'])]))
                small = head + (pv.ddmin(body, dis, max_tests=24) if len(body) > 3 and len(res.disagreements) < 2 else body)
                rr = run_one(exe, small)
                first = next((i for i, (a, b) in enumerate(zip(canon(mod, rr['ops'], rr['impl']), canon(mod, rr['ops'], rr['model'] or []))) if a != b), None)
                res.disagreements.append({'case': small, 'module': '%s/%d' % (mod, nc), 'first_difference_at_op': first,
                                          'impl': rr['impl'][:40], 'model': (rr['model'] or [])[:40]})
            if st['big_rings'] > 0 or any(d != 0 for d in st['distances']) or any(o.startswith('stress') for o in r['ops']):
                res.nontrivial('%s/%d ' % (mod, nc) + ' ; '.join(r['ops']))
            if len(res.violations) + len(res.disagreements) >= 6:
                break
        for v in hviol:
            if not any(v in (x.get('what') or '') for x in res.violations):
                res.violations.append({'key': 'harness:%s/%d:%s' % (mod, nc, v[:200]), 'what': v, 'module': mod})
        res.traces_validated += len(results)
        if results and len(res.samples) < 6:
            r = results[min(len(results) - 1, 1)]
            res.samples.append({'module': '%s/%d' % (mod, nc), 'ops': [o[:120] for o in r['echo'][:8]], 'impl': [x[:80] for x in r['impl'][:8]]})
        if len(res.violations) + len(res.disagreements) >= 6:
            break
    res.rule = ('per module (11) and stream count (quick: one of 1..4 rotating with module and seed; thorough: 1,2,3,4): corpus cases, then random sequential histories (4..40 ops quick / 4..90 thorough; '
                '46% schedule [sched / vps = __parsec_schedule_vp / schedh for gd], 51% select [sel / next = get_next_task], 3% full drain; rings of 1..8 (62%), around the 4*nb_cores buffer size (22%), 20..64, and every 7th '
                'case rings of 100..500 tasks (beyond lhq\'s buffers); 3 priority styles; ltq tasks carry an input-group so that heaps of several tasks are built; distances from {0,0,0,0,1,1,2,3,5}; random streams), '
                'each ended by a full drain and compared exactly with the Lean machine (rnd: task/none pattern and drain multiset only); plus per (module, stream count) two free-running stress runs '
                '(nb_streams compute threads + 1 communication thread that only targets stream 0; 1200 rounds quick / 3000 (sorted-list modules) or 10000 thorough each) checked by the multiset oracle, followed by a sequential case on the same containers. '
                'distinct = distinct op sequence; non-trivial = a ring larger than 8, a task returned with a non-zero distance (steal / overflow / retention), or a stress run')
    res.extra['input_distribution'] = hist


def replay(ctx, res, data):
    cases = [v['case'] for v in data.get('violations', []) if 'case' in v] + [d['case'] for d in data.get('disagreements', []) if 'case' in d]
    run(ctx, res, cases=cases or None)
