"""C04 — DTD never runs conflicting accesses at the same time."""
import os, sys, pv
sys.path.insert(0, os.path.join(pv.ROOT, 'gen'))
import dtd_gen as G
PROP = 'C04'
LEAN_MODULE = 'ParsecVerif.Props.C04'
DRIVERS = ['pv_DTD']
THEOREMS = ['ParsecVerif.C04.C04_exclusion', 'ParsecVerif.C04.C04_writer_waits', 'ParsecVerif.C04.C04_writer_after_readers',
            'ParsecVerif.C04.C04_reader_count', 'ParsecVerif.C04.C04_activation', 'ParsecVerif.C04.C04_readers_may_overlap',
            'ParsecVerif.Dtd.inv_reachable', 'ParsecVerif.Dtd.pred_done']
IMPL = ('parsec/interfaces/dtd/insert_function.c (parsec_insert_dtd_task, data_lookup_of_dtd_task), overlap_strategies.c (parsec_dtd_ordering_correctly), '
        'insert_function_internal.h (reader_retain/_release), parsec/scheduling.c (__parsec_task_progress AGAIN path), run through harness/DTD.c')
ENGINE = 'lean-trace'
LEVEL = 'proof'
LEVEL_TEXT = ('Lean 4 theorems for EVERY insertion sequence, EVERY worker count and EVERY reachable state of the abstract DTD runtime machine (Model/Dtd.lean: chains from '
              'tile->last_writer, activation by the writer\'s walk or by the inserting thread, reader count on the shared copy, AGAIN retry as an explicit move): two running tasks never '
              'conflict on a datum (C04_exclusion); whenever the machine lets a body start, every earlier-inserted conflicting task — in particular every earlier reader of a datum it writes — '
              'has completed (C04_writer_waits, C04_writer_after_readers); the reader count equals the number of satisfied unfinished read accesses (C04_reader_count) and a flow is satisfied '
              'exactly when its parent completed (C04_activation); and a concrete valid run has two readers between the same writers running together while the next writer is answered AGAIN '
              '(C04_readers_may_overlap: the model is not trivially serial). Tie to the current source on every run: real DTD programs from random and corpus scripts; the bodies keep per-datum '
              'in-flight reader/writer counters and global begin/end stamps with spin delays; the exclusion and writer-waits oracle is evaluated on the real intervals, and the real begin/end '
              'trace must be a valid run of the Lean machine (every observed start must be an enabled move).')
LEVEL_NOTE = ('Completion (body end + walk of all flows) and insertion are atomic moves of the machine: the element-by-element walk and the tile-lock hand-shake with a concurrent insertion are not '
              'modelled at atomic-operation granularity. Shared-memory machine: across MPI ranks a reader and a later writer use different copies and may legitimately overlap, so the interval '
              'oracle is evaluated per process. Intervals are observed by the bodies (stamps taken inside the body), not by the scheduler. The genuine defect found by this check (stale '
              'tile->last_user pointer compared with a recycled task address, commit 6ed8353) is outside the model: it is a memory-reuse error of the implementation. '
              'Trusted: Lean kernel, propext/Classical.choice/Quot.sound, the harness, differential testing as tie.')
TECHNIQUE = 'Lean 4 proof (inductive invariant over all interleavings of the dataflow machine incl. reader counting) + interval oracle and trace acceptor on real executions'
ASSUMPTIONS = ['sequentially consistent shared memory at the granularity of the machine moves', 'task bodies terminate',
               'DTD usage contract of insert_function.h (producers on disjoint tile sets, flush before wait in distributed runs)']
RULE = ('each evaluation = one insertion script executed by the real DTD runtime under one configuration; reader-heavy mixes so that reader chains between writers are long; bodies spin '
        '2-8 microseconds (x4 for this check) between reading and writing; oracle: for every conflicting pair run by the same process the earlier-inserted task ended before the later began, '
        'no body saw a conflicting access in flight, every task ran exactly once; distinct = (configuration, script); non-trivial = at least 2 tasks and one conflicting pair')
_meas = {'pairs': 0, 'overlaps': 0}


def groups(ctx):
    if ctx.quick:
        single = [(2, 'lfq', 22), (4, 'ap', 22), (8, 'rnd', 22), (4, 'll', 22), (16, 'lfq', 14)]
        multi = [(2, 3, 'lfq', 6)]
    else:
        single = [(c, s, 50) for c in (2, 4, 16) for s in ('lfq', 'ap', 'rnd', 'll', 'gd', 'ltq', 'lhq', 'pbq', 'spq', 'ip', 'llp')] + [(1, 'lfq', 40), (8, 'lfq', 50)]
        multi = [(2, 4, 'lfq', 30), (3, 3, 'rnd', 30), (4, 2, 'ap', 30)]
    # LIFO-like schedulers re-select a task that answered AGAIN at once: the runtime warns about live-lock with one thread (ll), and
    # hangs were observed with 2 threads under ip and llp (docs/notes/C04.md, 'observed, not analysed'): they run with >= 4 threads
    single = [(c, s, n) for c, s, n in single if not (c < 4 and s in ('ll', 'llp', 'ip'))]
    gs = [{'nranks': 1, 'cores': c, 'sched': s, 'n': n, 'gen': {'big': not ctx.quick, 'readers_heavy': True}, 'timeout': 25 if ctx.quick else 90} for c, s, n in single]
    gs += [{'nranks': r, 'cores': c, 'sched': s, 'n': n, 'gen': {'readers_heavy': True}, 'timeout': 60 if ctx.quick else 240} for r, c, s, n in multi]
    return gs


def oracle(case, r):
    """the property statement on the real intervals: conflicting tasks never overlap, a writer does not begin before every earlier reader ended"""
    fails, npairs = G.oracle_intervals(case, r)
    _meas['pairs'] += npairs
    _meas['overlaps'] += G.readers_overlapped(case, r)
    # the in-flight counters of the bodies are per datum and per process: on several ranks two versions of a datum live in
    # different buffers of one process, so only the single-rank runs are judged by them
    fails += ['body-side oracle: ' + v for v in r['viols'] if r['config']['nranks'] == 1 or 'while' not in v]
    missing = [t.tid for t in case['tasks'] if t.tid not in r['iv']]
    if missing:
        fails.append('tasks %s never ran' % missing[:8])
    fails += ['%s answered by several ranks' % (m[0],) for m in r['multi']]
    return fails


def run(ctx, res, only=None):
    _meas['pairs'] = _meas['overlaps'] = 0
    G.run_property(ctx, res, PROP, groups(ctx), oracle, only=only, rule=RULE, spin=6000)
    res.extra.setdefault('input_distribution', {})['conflicting_pairs_checked_on_real_intervals'] = _meas['pairs']
    res.extra['input_distribution']['reader_pairs_really_overlapping'] = _meas['overlaps']


def replay(ctx, res, data):
    run(ctx, res, only=G.replay_items(data))
