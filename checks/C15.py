"""C15 — composed taskpools run strictly one after another."""
import os, sys
sys.path.insert(0, os.path.dirname(os.path.abspath(__file__)))
import pv, _ctx
PROP = 'C15'
LEAN_MODULE = 'ParsecVerif.Props.C15'
DRIVERS = ['pv_CTX', 'pv_Runtime']
THEOREMS = ['ParsecVerif.Compound.gi_cstep', 'ParsecVerif.C15.C15_inorder', 'ParsecVerif.C15.C15_root_after_leaves', 'ParsecVerif.C15.subtree_bounds',
            'ParsecVerif.C15.C15_order_members', 'ParsecVerif.C15.C15_assert_holds', 'ParsecVerif.C15.C15_once',
            'ParsecVerif.C15.C15_completes_after_last', 'ParsecVerif.C15.C15_buggy_not_after_last',
            'ParsecVerif.C15.C15_compose_cases', 'ParsecVerif.C15.C15_compose_inorder', 'ParsecVerif.C15.C15_tree_inorder', 'ParsecVerif.C15.C15_hcompose',
            'ParsecVerif.C15.C15_compose_array', 'ParsecVerif.C15.C15_context_theorems_apply']
IMPL = 'parsec/compound.c (parsec_compose, parsec_compound_taskpool_startup, parsec_composed_taskpool_cb), parsec/scheduling.c (parsec_context_add_taskpool)'
ENGINE = 'lean-trace'
LEVEL = 'proof'
LEVEL_TEXT = ('COMPOSITION TREES: parsec_compose is modelled over all four argument-kind cases exactly as coded (C15_compose_cases: a compound start gets next appended as ONE member, plain or compound; a plain start yields a new compound [start, next]); for every composition expression the leaf sequence of the built object is the in-order sequence (C15_tree_inorder); the machine runs composition FORESTS (a member may be the object of another compound; its termination is detected nested in the callback of its last member and notifies its parent, to any depth — per-thread stack of nested callbacks): for every object n and leaves a before b in the in-order of its subtree, every task of a has ended before the first task of b starts (C15_inorder), every subtree runs inside the [add, callback] interval of its root (subtree_bounds), and every compound completes exactly once, after every task of every leaf of its subtree (C15_root_after_leaves). '
              'Lean 4 theorems about EVERY run of the compound machine built on the context machine of C06 (any number of compounds of any size n >= 1 in one context, any number of '
              'threads and other taskpools, every interleaving; the compound object is a taskpool without tasks whose detector is armed by its startup hook, the release of its last pending '
              'action by the callback of tp[n-1] detects its termination and runs its callback and decrement nested in that callback): for i < j every task end of tp[i] precedes every task '
              'start of tp[j] (C15_order); the member whose termination is detected is always array[completed], i.e. the assert of parsec_composed_taskpool_cb cannot fail, and tp[i+1] is '
              'enabled iff some remain (C15_assert_holds); the compound completes exactly once, if and only if all n members completed, and its completion is later than the callback and the last '
              'task end of every member, in particular of tp[n-1] (C15_once, C15_completes_after_last = the full statement CompletesAfterLast); parsec_compose builds for every n >= 2 an array '
              'holding the members in order, NULL-terminated, never written outside its allocation (C15_compose_array); the C06 invariants hold under every compound run '
              '(C15_context_theorems_apply). The behaviour before the repair of compound.c is kept as cstepBuggy?/crunBuggy with the refutation C15_buggy_not_after_last. '
              'Tie: compositions of 2-20 generated PTG taskpools (3 JDF shapes) inside randomised multi-epoch histories on the real runtime (compounds added by the master, by task bodies and by '
              'completion callbacks, with injected preemptions), all schedulers, 1-8 threads; the event sequence incl. every RMW of active_taskpools and of the compound\'s nb_pending_actions must be '
              'accepted by the compiled Lean machine; independent stamp oracle.')
LEVEL_NOTE = ('Theorems are about the model, tied to the code by trace acceptance on sampled runs. '
              'Compositions of one taskpool are the taskpool itself (parsec_compose(tp, NULL) = tp, checked on the real code). Safety statements; liveness is not claimed.')
TECHNIQUE = 'Lean 4 proof (restriction of the context machine, inductive invariant on the chain of members, stamps as ghost state) + trace acceptor on real runs + stamp oracle'
ASSUMPTIONS = ['members of compounds are distinct PTG taskpools without user completion callback (asserted by the code); no nested compounds',
               'the assumptions of C06']
KNOWN = set()


def run(ctx, res, lines=None):
    _ctx.run_common(ctx, res, PROP, _ctx.oracle_C15, KNOWN, True, lines)
    res.rule = ('one evaluation = one randomised history containing at least one parsec_compose composition (2-20 members; every fifth case is unconstrained) executed by the real runtime and '
                'replayed on the Lean compound machine + stamp oracle; distinct = (case description, threads, scheduler); non-trivial = more than one taskpool and more than 12 events')


def replay(ctx, res, data):
    cases = [v['case'] for v in data.get('violations', []) if v.get('case')] + [d['case'] for d in data.get('disagreements', []) if d.get('case')]
    run(ctx, res, lines=cases or None)
