"""C03 — DTD results equal sequential execution in insertion order."""
import os, sys, pv
sys.path.insert(0, os.path.join(pv.ROOT, 'gen'))
import dtd_gen as G
PROP = 'C03'
LEAN_MODULE = 'ParsecVerif.Props.C03'
DRIVERS = ['pv_DTD']
THEOREMS = ['ParsecVerif.C03.C03_sequential', 'ParsecVerif.C03.C03_observed', 'ParsecVerif.C03.C03_linear_extension',
            'ParsecVerif.C03.chain_iff_conflict', 'ParsecVerif.C03.C03_no_deadlock', 'ParsecVerif.C03.C03_extends_to_complete', 'ParsecVerif.C03.C03_complete_run_exists', 'ParsecVerif.C03.seqExec_obs', 'ParsecVerif.C03.seqExec_final',
            'ParsecVerif.Dtd.inv_reachable']
IMPL = 'parsec/interfaces/dtd/insert_function.c, overlap_strategies.c, insert_function_internal.h, parsec_dtd_data_flush.c (run through a real DTD program: harness/DTD.c)'
ENGINE = 'lean-trace'
LEVEL = 'proof'
LEVEL_TEXT = ('Lean 4 theorems about the abstract DTD runtime machine of Model/Dtd.lean (per-datum access chains built at insertion from tile->last_writer, '
              'activation by the completing writer\'s walk or by the inserting thread, reader count on the shared copy, the writer\'s AGAIN retry, any number of workers, '
              'insertions interleaved arbitrarily with execution — which covers the sliding window and tasks inserting tasks): for EVERY insertion sequence (any modes, '
              'the same datum several times in a task), EVERY worker count and EVERY run, each task that has begun has read exactly the values of the sequential execution in '
              'insertion order (C03_observed), every run is a linear extension of the conflict order (C03_linear_extension), every complete run ends with the sequential '
              'final values (C03_sequential), the machine never deadlocks and every partial run extends to a complete one (C03_no_deadlock, C03_extends_to_complete). Inductive invariant over all interleavings, no bound. Tie to the current source '
              'on every run: random and corpus insertion scripts are executed by a real DTD program (1-16 threads, several schedulers, windows 1/2/8/default, tasks inserting '
              'tasks, 1-4 MPI ranks); the values every real task read and the final owner copies are compared with seqExec computed by the compiled Lean model and, independently, '
              'by a Python reference; the stamped begin/end trace of every single-rank run must be a valid run of the Lean machine (trace acceptor).')
LEVEL_NOTE = ('The machine is a shared-memory abstraction: one copy per datum; ranks are placement labels, message transport between ranks is not modelled (the distributed clause is '
              'tied by the multi-rank runs only). Completion of a task (body end + walk of all its flows) and insertion of a task (all its flows) are single atomic moves, coarser than the '
              'tile-lock hand-shake of the code. One chain node per (task, datum): the runtime\'s special-case code for a datum used in several parameters of one task is modelled by its '
              'intended effect; the real code does NOT implement it (findings F2 in docs/notes/C03.md: NULL argument, hang, lost ordering) so random scripts only use the supported '
              'multiplicity patterns and the failing ones are corpus cases. A body that blocks in the sliding window with a small threshold waits for itself (finding F3). '
              'Trusted: Lean kernel, propext/Classical.choice/Quot.sound, the harness, differential testing as tie.')
TECHNIQUE = 'Lean 4 proof (inductive invariant over all runs of a dataflow machine, refinement to the sequential interpreter) + differential/trace-acceptor tie on a real DTD program'
ASSUMPTIONS = ['task bodies are deterministic functions of the values read and terminate', 'sequentially consistent shared memory at the granularity of the machine moves',
               'DTD usage contract of insert_function.h: producers on disjoint tile sets, tiles created up front, flush before wait in distributed runs, no use of a flushed tile before the wait']


RULE = ('each evaluation = one insertion script executed by the real DTD runtime under one configuration (ranks, threads, scheduler) and compared with seqExec '
        '(Lean driver + Python reference); scripts: 2-6 data, 3-28 tasks (3-60 thorough) with R/W/RW parameters, repeated write parameters on quiescent data (1 rank), '
        'value/tile affinities, window 1/2/8/default, threshold default/0/1/2/4, waits, flushes, tasks inserting tasks; distinct = (configuration, script); '
        'non-trivial = at least 2 tasks and one conflicting pair')


def groups(ctx):
    if ctx.quick:
        single = [(1, 'lfq', 22), (2, 'ap', 22), (8, 'rnd', 22), (4, 'll', 22)]
        multi = [(2, 2, 'lfq', 6), (3, 2, 'ap', 6)]
    else:
        single = [(c, s, 50) for c in (1, 4, 16) for s in ('lfq', 'ap', 'rnd', 'gd', 'ltq', 'lhq', 'pbq', 'spq', 'ip', 'llp')] + [(c, s, 50) for c in (2, 8) for s in ('lfq', 'll')]
        multi = [(2, 2, 'lfq', 30), (2, 4, 'rnd', 30), (3, 2, 'ap', 30), (3, 1, 'lfq', 30), (4, 2, 'lfq', 30), (4, 1, 'gd', 20)]
    # LIFO-like schedulers re-select a task that answered AGAIN at once: the runtime warns about live-lock with one thread (ll), and
    # hangs were observed with 2 threads under ip and llp (docs/notes/C04.md, 'observed, not analysed'): they run with >= 4 threads
    single = [(c, s, n) for c, s, n in single if not (c < 4 and s in ('ll', 'llp', 'ip'))]
    gs = [{'nranks': 1, 'cores': c, 'sched': s, 'n': n, 'gen': {'big': not ctx.quick, 'tcapi': True}, 'timeout': 25 if ctx.quick else 90} for c, s, n in single]
    gs += [{'nranks': r, 'cores': c, 'sched': s, 'n': n, 'gen': {'tcapi': True}, 'timeout': 60 if ctx.quick else 240} for r, c, s, n in multi]
    # scripts of the shapes with recorded findings F2 (a datum in several parameters of a task) and F3 (a task inserting tasks with a small
    # window threshold): few and short, so that the KNOWN-FINDING lines keep appearing while the quick tier stays short
    gs += [{'nranks': 1, 'cores': 4, 'sched': 'lfq', 'n': 4 if ctx.quick else 30, 'shape': 'F2', 'timeout': 8},
           {'nranks': 1, 'cores': 2, 'sched': 'lfq', 'n': 1 if ctx.quick else 6, 'shape': 'F3', 'timeout': 8}]
    return gs


def oracle(case, r):
    """the property statement evaluated on the implementation's outputs: every task read, and the owner copies finally hold,
    the values of the execution one task at a time in insertion order (independent Python interpreter)"""
    return G.oracle_values(case, r) + ['body-side oracle: ' + v for v in r['viols'] if 'executed more than once' in v or 'NULL' in v]


def run(ctx, res, only=None):
    G.run_property(ctx, res, PROP, groups(ctx), oracle, only=only, rule=RULE)


def replay(ctx, res, data):
    run(ctx, res, only=G.replay_items(data))
