"""C19 — matrix datatypes select exactly the specified elements."""
import os, json, pv
PROP = 'C19'
LEAN_MODULE = 'ParsecVerif.Props.C19'
DRIVERS = ['pv_C19']
THEOREMS = ['ParsecVerif.C19.exact', 'ParsecVerif.C19.extent', 'ParsecVerif.C19.mem_iff', 'ParsecVerif.C19.increasing',
            'ParsecVerif.C19.covers', 'ParsecVerif.C19.tiles_disjoint', 'ParsecVerif.C19.triangle_bad_param']
IMPL = ('parsec/data_dist/matrix/matrixtypes.c (parsec_matrix_define_datatype/_triangle/_rectangle/_contiguous), '
        'parsec/datatype/datatype_mpi.c (parsec_type_create_contiguous/vector/indexed/resized, parsec_type_extent/size)')
ENGINE = 'lean-seq'
LEVEL = 'proof'
LEVEL_TEXT = ('Lean 4 theorems for EVERY m, n, ld, every diag (int), every uplo code and every resized value (not the 1..12 box): the typemap built by '
              'parsec_matrix_define_datatype is exactly [ j*ld+i | j<n, i<m, (i,j) in the requested region ] in column-major order with lower bound 0 and the construction never '
              'reads an unwritten cell of blocklens/indices (exact, mem_iff); the extent is ld*n for triangles, `resized` when given, ld*n or the footprint (n-1)*ld+m for full tiles '
              '(extent); with m<=ld the offsets are strictly increasing (increasing), lie below the extent which lies between the tile footprint and ld*n (covers), and consecutive '
              'instances never collide (tiles_disjoint). The model mirrors matrixtypes.c branch by branch (diag inversion, nmax, partially initialised arrays, blocklens+diag shift, '
              'm==ld short-cuts) on top of a 40-line model of the MPI typemap semantics. Tie on every run: the real functions build the real MPI datatype in a single MPI process and '
              'MPI_Pack of a marker buffer reveals the selected elements in order; exhaustive over m,n in 1..12 (quick) / 1..24 (thorough), ld in m..m+3, diag, uplo, five basic types, '
              'plus resized variants, multi-instance packs, direct calls of the three builders, random large sizes and random nested raw constructor programs that validate the MPI '
              'typemap model itself; every line is compared with the compiled Lean model and with an independent Python oracle written from the property text.')
LEVEL_NOTE = ('Theorems are over unbounded naturals in units of one basic element; they assume 1<=m, 1<=n (the C code computes n-diag and m-diag in unsigned arithmetic) and no int overflow '
              '(ld*n*oldsize < 2^31) - the tie only issues calls with ld*n <= 2^21. The MPI typemap semantics of contiguous/vector/indexed/resized (non-negative displacements only) is a '
              'trusted 40-line model, validated against Open MPI on every run (op tm) but not proved about the MPI library. For full tiles with m<ld and resized<0 the extent is the '
              'footprint (n-1)*ld+m, not ld*n (proved and observed); the `resized` argument is ignored for triangles. Trusted: Lean kernel, propext/Classical.choice/Quot.sound, the '
              'harness (marker/pack observation), differential testing as the model-code tie.')
TECHNIQUE = 'Lean 4 proof (list algebra + linear arithmetic, all sizes) on a hand-written model of matrixtypes.c over an MPI typemap semantics, tied by differential correspondence with the real datatypes observed through MPI_Pack'
ASSUMPTIONS = ['1 <= m, 1 <= n, and ld*n*oldsize < 2^31: unsigned/int arithmetic of the C code equals natural-number arithmetic',
               'MPI_Type_contiguous/vector/indexed/create_resized follow the MPI-standard typemap semantics (validated against the installed Open MPI on every run, not proved)',
               'oldtype is a basic MPI type; MPI_Pack in a homogeneous single-process setting copies elements in typemap order (cross-checked with MPI_Type_get_true_extent and MPI_Type_size)']
TRUSTED_EXTRA = ['Open MPI datatype engine (MPI_Type_*, MPI_Pack) as the observation instrument']

UP, LO, FULL = 121, 122, 123
NTYPES = 5
ENV = dict(pv.MPI_ENV, ASAN_OPTIONS='detect_leaks=0', OMPI_MCA_ess_singleton_isolated='1', OMPI_MCA_btl='self', OMPI_MCA_pml='ob1')


# ------------------------------------------------------------------ independent oracle (from the property text)
def region(uplo, diag, m, n, ld):
    """[ j*ld+i | j<n, i<m, (i,j) in region ] — upper: i<=j / i<j, lower: i>=j / i>j, else the full rectangle."""
    out = []
    for j in range(n):
        if uplo == UP:
            lo, hi = 0, min(m, j + 1 if diag else j)
        elif uplo == LO:
            lo, hi = (j if diag else j + 1), m
        else:
            lo, hi = 0, m
        base = j * ld
        out.extend(range(base + lo, base + max(hi, lo)))
    return out


def decode_runs(s):
    s = s.strip()
    if not (s.startswith('[') and s.endswith(']')):
        return None
    out = []
    for w in s[1:-1].split():
        a, b = w.split('+')
        out.extend(range(int(a), int(a) + int(b)))
    return out


def parse_type_result(r):
    """'rc lb ext size [runs]' -> (rc, lb, ext, size, offs) or (rc,) or None."""
    if '[' not in r:
        try:
            return (int(r),)
        except ValueError:
            return None
    head, runs = r.split('[', 1)
    h = head.split()
    try:
        return tuple(int(x) for x in h) + (decode_runs('[' + runs),)
    except ValueError:
        return None


def check_built(what, got, want_offs, m, n, ld, forced_ext):
    """got = (rc, lb, ext, size, offs).  forced_ext: None -> must cover the tile; int -> must equal it."""
    if got is None or len(got) != 5 or got[4] is None:
        return '%s: type not built / not observable (%s)' % (what, got)
    rc, lb, ext, size, offs = got
    if rc != 0:
        return '%s: returned %d' % (what, rc)
    if offs != want_offs:
        k = next((i for i in range(min(len(offs), len(want_offs))) if offs[i] != want_offs[i]), min(len(offs), len(want_offs)))
        return '%s: selects %d elements, region has %d; first difference at position %d (got %s, region %s)' % (
            what, len(offs), len(want_offs), k, offs[k:k + 4], want_offs[k:k + 4])
    if size != len(want_offs):
        return '%s: MPI_Type_size says %d elements, region has %d' % (what, size, len(want_offs))
    if lb != 0:
        return '%s: lower bound %d, expected 0' % (what, lb)
    if forced_ext is not None:
        if ext != forced_ext:
            return '%s: extent %d elements, requested %d' % (what, ext, forced_ext)
    else:
        foot = (n - 1) * ld + m
        if not (foot <= ext <= ld * n):
            return '%s: extent %d elements does not cover the tile (footprint %d, ld*n %d)' % (what, ext, foot, ld * n)
        if offs and max(offs) >= ext:
            return '%s: element %d selected beyond the extent %d' % (what, max(offs), ext)
    return None


def tm_eval(tokens):
    """MPI-standard typemap semantics, written from the standard (element units)."""
    st = []
    i = 0
    while i < len(tokens):
        w = tokens[i]
        if w == 'e':
            st.append(([0], 0, 1)); i += 1; continue
        offs, lb, ub = st.pop()
        ext = ub - lb
        if w == 'r':
            LB, EXT = int(tokens[i + 1]), int(tokens[i + 2]); i += 3
            st.append((offs, LB, LB + EXT)); continue
        if w == 'c':
            ps = [k * ext for k in range(int(tokens[i + 1]))]; i += 2
        elif w == 'v':
            c, b, s = (int(x) for x in tokens[i + 1:i + 4]); i += 4
            ps = [(j * s + k) * ext for j in range(c) for k in range(b)]
        elif w == 'i':
            K = int(tokens[i + 1]); ps = []
            for q in range(K):
                b, d = int(tokens[i + 2 + 2 * q]), int(tokens[i + 3 + 2 * q])
                ps += [(d + k) * ext for k in range(b)]
            i += 2 + 2 * K
        else:
            raise ValueError(w)
        st.append(([p + d for p in ps for d in offs], min([p + lb for p in ps] or [0]), max([p + ub for p in ps] or [0])))
    assert len(st) == 1
    return st[0]


def oracle(op, r):
    """Returns a failure text or None.  Written from the property statement, not from the model."""
    w = op.split()
    if r in ('rejected', 'bad-op'):
        return None
    try:
        if w[0] == 'def':
            t, uplo, diag, m, n, ld, rsz = (int(x) for x in w[1:])
            forced = rsz if (uplo not in (UP, LO) and rsz >= 0) else None
            return check_built(op, parse_type_result(r), region(uplo, diag != 0, m, n, ld), m, n, ld, forced)
        if w[0] == 'rep':
            c, t, uplo, diag, m, n, ld, rsz = (int(x) for x in w[1:])
            offs = decode_runs(r)
            reg = region(uplo, diag != 0, m, n, ld)
            if offs is None:
                return '%s: not observable (%s)' % (op, r)
            L = len(reg)
            if len(offs) != c * L:
                return '%s: %d instances select %d elements, expected %d x %d' % (op, c, len(offs), c, L)
            if L == 0 or c == 0:
                return None
            E = (offs[L] - offs[0]) if c > 1 else None
            for k in range(c):
                if offs[k * L:(k + 1) * L] != [x + k * (E or 0) for x in reg]:
                    return '%s: instance %d does not select the region shifted by %d x stride %s' % (op, k, k, E)
            forced = rsz if (uplo not in (UP, LO) and rsz >= 0) else None
            if E is not None:
                if forced is not None and E != forced:
                    return '%s: instances are %d elements apart, requested extent %d' % (op, E, forced)
                if forced is None:
                    if not ((n - 1) * ld + m <= E <= ld * n):
                        return '%s: instances are %d elements apart: extent does not cover the tile' % (op, E)
                    if any(offs[q] >= offs[q + 1] for q in range(len(offs) - 1)):
                        return '%s: consecutive instances overlap' % op
            return None
        if w[0] == 'tri':
            t, uplo, diag, m, n, ld = (int(x) for x in w[1:])
            got = parse_type_result(r)
            if uplo not in (UP, LO):
                return None if got == (-4,) else '%s: expected PARSEC_ERR_BAD_PARAM, got %s' % (op, r)
            g = check_built(op, got, region(uplo, diag != 0, m, n, ld), m, n, ld, None)
            if g is None and got[2] != ld * n:
                return '%s: triangle extent %d, expected ld*n = %d' % (op, got[2], ld * n)
            return g
        if w[0] == 'rect':
            t, m, n, ld, rsz = (int(x) for x in w[1:])
            return check_built(op, parse_type_result(r), region(FULL, True, m, n, ld), m, n, ld, rsz if rsz >= 0 else None)
        if w[0] == 'cont':
            t, nb, rsz = (int(x) for x in w[1:])
            return check_built(op, parse_type_result(r), list(range(nb)), 1, nb, 1, rsz if rsz >= 0 else nb)
        if w[0] == 'tm':
            offs, lb, ub = tm_eval(w[1:])
            want = '%d %d %d ' % (lb, ub - lb, len(offs))
            got = r.split('[')[0]
            if got != want or decode_runs('[' + r.split('[', 1)[1] if '[' in r else '') != offs:
                return 'MPI typemap assumption: %s gives %s, the MPI-standard typemap has lb/extent/size %sand offsets %s' % (op, r, want, offs[:12])
            return None
    except Exception as ex:   # unparsable implementation output is a failure, not a pass
        return '%s: cannot interpret result %r (%s)' % (op, r, ex)
    return None


# ------------------------------------------------------------------ generators
def rsz_variants(rng, m, n, ld):
    return rng.choice([-1, -1, ld * n, ld * n, (n - 1) * ld + m, 0, ld * n + rng.range(1, 7), rng.range(1, ld * n), -rng.range(2, 9)])


def gen_box(rng, maxmn):
    ops = []
    k = 0
    sizes = sorted(((m, n) for m in range(1, maxmn + 1) for n in range(1, maxmn + 1)), key=lambda p: (p[0] * p[1], p))
    for m, n in sizes:
        for ld in range(m, m + 4):
            for diag in (0, 1):
                for uplo in (UP, LO, FULL):
                    rsz = -1 if (uplo != FULL or k % 3 == 0) else rsz_variants(rng, m, n, ld)
                    ops.append('def %d %d %d %d %d %d %d' % (k % NTYPES, uplo, diag, m, n, ld, rsz))
                    k += 1
    return ops


def gen_tm(rng):
    for _ in range(50):
        toks = ['e']
        for _c in range(rng.range(1, 4)):
            r = rng.below(10)
            if r < 3:
                toks += ['c', str(rng.range(0, 5))]
            elif r < 6:
                toks += ['v', str(rng.range(0, 4)), str(rng.range(0, 4)), str(rng.range(0, 7))]
            elif r < 8:
                K = rng.range(0, 4)
                toks += ['i', str(K)]
                for _b in range(K):
                    toks += [str(rng.range(0, 3)), str(rng.range(0, 9))]
            else:
                toks += ['r', str(rng.range(0, 3)), str(rng.range(0, 40))]
        try:
            offs, lb, ub = tm_eval(toks)
        except Exception:
            continue
        if len(offs) <= 4000 and ub <= 200000 and (not offs or max(offs) < 200000):
            return 'tm ' + ' '.join(toks)
    return 'tm e'


def gen_random_def(rng, hi, kind=None):
    m = rng.range(1, hi); n = rng.range(1, hi)
    shape = rng.below(6)
    if shape == 0:
        n = m
    elif shape == 1:
        n = max(1, m - rng.range(1, 3))
    elif shape == 2:
        n = m + rng.range(1, 3)
    ld = m if rng.chance(1, 4) else m + rng.range(0, 9)
    while ld * n > 2000000:
        n = max(1, n // 2)
    uplo = rng.choice([UP, LO, FULL, UP, LO, FULL, 0, 124, 120])
    diag = rng.choice([0, 1, 0, 1, 2, -1, 7])
    rsz = -1 if rng.chance(1, 2) else rsz_variants(rng, m, n, ld)
    t = rng.below(NTYPES)
    kind = kind or rng.choice(['def', 'def', 'def', 'rep', 'tri', 'rect'])
    if kind == 'def':
        return 'def %d %d %d %d %d %d %d' % (t, uplo, diag, m, n, ld, rsz)
    if kind == 'rep':
        return 'rep %d %d %d %d %d %d %d %d' % (rng.range(0, 4), t, uplo, diag, m, n, ld, rsz)
    if kind == 'tri':
        return 'tri %d %d %d %d %d %d' % (t, uplo, diag, m, n, ld)
    return 'rect %d %d %d %d %d' % (t, m, n, ld, rsz)


def load_corpus():
    cs = []
    d = os.path.join(pv.ROOT, 'corpus', PROP)
    if os.path.isdir(d):
        for f in sorted(os.listdir(d)):
            if f.endswith('.case'):
                cs += [l.strip() for l in open(os.path.join(d, f)) if l.strip() and not l.startswith('#')]
    return cs


def build_ops(ctx):
    rng = pv.Rng(ctx.seed)
    corpus = load_corpus()
    ops = list(corpus)
    ops += gen_box(rng.fork(1), 12 if ctx.quick else 24)
    r2 = rng.fork(2)
    ops += [gen_random_def(r2, 14) for _ in range(600 if ctx.quick else 3000)]              # small, all op kinds, odd uplo/diag values
    ops += [gen_random_def(r2, 90) for _ in range(150 if ctx.quick else 1500)]              # medium
    ops += [gen_random_def(r2, 400 if ctx.quick else 1400) for _ in range(12 if ctx.quick else 60)]   # large
    ops += ['cont %d %d %d' % (r2.below(NTYPES), r2.range(1, 300), r2.choice([-1, -1, 0, r2.range(1, 400)])) for _ in range(40 if ctx.quick else 400)]
    r3 = rng.fork(3)
    ops += [gen_tm(r3) for _ in range(1500 if ctx.quick else 20000)]
    # malformed / out-of-precondition stream
    ops += ['def 0 121 1 0 3 4 -1', 'def 0 121 1 3 0 4 -1', 'def 0 122 0 5 3 4 -1', 'def 9 121 1 3 3 3 -1', 'def 0 121 1 3 3', 'tm', 'tm e e', 'tm c 3', 'tm e q 1',
            'def 0 123 0 1500 1500 1500 -1', 'rep 9 0 121 1 3 3 3 -1', 'frob 1 2']
    return ops, len(corpus)


def nontrivial_key(op, r):
    w = op.split()
    if r in ('rejected', 'bad-op') or '[' not in r:
        return None
    body = r.split('[', 1)[1]
    if body.count('+') >= 2:        # at least two separate runs: a genuinely strided / triangular selection
        return op if w[0] != 'def' else ' '.join(w[:1] + w[2:])   # the basic type does not make a def case distinct
    return None


def run_real(ctx, res, exe, ops):
    """Run the ops on the real code.  A crash / sanitizer abort is a result: it is attributed to the op that was being
    executed, recorded as a violation with that op as the replayable case, and the run resumes after it."""
    ops_i, impl, crashes = [], [], []
    rest = list(ops)
    while rest and len(crashes) < 4:
        rc, out, err = pv.sh([exe], timeout=3000, env=ENV, input='\n'.join(rest) + '\n')
        o, r, stats, viols = pv.parse_transcript(out)
        if o and r[-1] == '' and rc != 0:          # the unfinished "op => " line of the crashing op
            o, r = o[:-1], r[:-1]
        for v in viols:
            res.violations.append({'key': v, 'what': v, 'seed': ctx.seed})
        ops_i += o; impl += r
        if len(o) >= len(rest) and rc == 0:
            break
        if len(o) >= len(rest):
            res.violations.append({'key': 'harness-exit-%d' % rc, 'what': 'harness exited with %d after all ops: %s' % (rc, err[-400:]), 'seed': ctx.seed})
            break
        bad = rest[len(o)]
        lines = [l for l in err.splitlines() if 'ERROR' in l or 'SUMMARY' in l or 'runtime error' in l or ' in parsec_' in l or ' in PMPI_' in l or ' in MPI_' in l]
        crashes.append(bad)
        res.violations.append({'key': 'crash:' + bad, 'what': 'real code crashed / sanitizer abort (exit %d) while executing `%s`: %s' % (rc, bad, ' | '.join(lines[:6])[:700] or err[-400:]),
                               'case': [bad], 'seed': ctx.seed})
        rest = rest[len(o) + 1:]
    return ops_i, impl, crashes


def run(ctx, res, ops=None):
    exe = ctx.path('C19')
    ok, log = pv.cc_harness(os.path.join(pv.ROOT, 'harness', 'C19.c'), exe, ctx.build, sanitize=True)
    if not ok:
        res.infra_errors.append('harness compile failed: ' + log[-1500:]); return
    ncorpus = 0
    if ops is None:
        ops, ncorpus = build_ops(ctx)
    ops_i, impl, crashes = run_real(ctx, res, exe, ops)
    if len(ops_i) + len(crashes) != len(ops):
        res.infra_errors.append('harness answered %d of %d ops (%d crashes)' % (len(ops_i), len(ops), len(crashes)))
    res.evaluations += len(ops_i)
    if ctx.driver_ok and ops_i:
        rcd, model, derr = pv.run_driver('pv_C19', ops_i, timeout=3000)
        if rcd != 0:
            res.disagreements.append({'op': '<driver>', 'impl': '', 'model': 'driver exit %d: %s' % (rcd, derr[-300:])})
        res.disagreements += pv.compare(ops_i, impl, model)[:50]
    elif not ctx.driver_ok:
        res.notes.append('model driver unavailable: correspondence not run, oracle only')
    hist = {}
    fails = []
    built = 0
    for o, r in zip(ops_i, impl):
        w = o.split()
        kind = w[0] if w else '?'
        hist[kind] = hist.get(kind, 0) + 1
        if r == 'rejected':
            hist['rejected'] = hist.get('rejected', 0) + 1
        elif r == 'bad-op':
            hist['bad-op'] = hist.get('bad-op', 0) + 1
        else:
            built += 1
            if kind in ('def', 'rep'):
                q = w[1:] if kind == 'def' else w[2:]
                u = {'121': 'upper', '122': 'lower', '123': 'full'}.get(q[1], 'other-uplo')
                hist['def_' + u] = hist.get('def_' + u, 0) + 1
                hist['def_diag_' + ('0' if q[2] == '0' else 'nonzero')] = hist.get('def_diag_' + ('0' if q[2] == '0' else 'nonzero'), 0) + 1
                if q[3] == q[5]:
                    hist['def_m_eq_ld'] = hist.get('def_m_eq_ld', 0) + 1
                if int(q[6]) >= 0:
                    hist['def_resized_given'] = hist.get('def_resized_given', 0) + 1
                if r.endswith('[]'):
                    hist['def_empty_type'] = hist.get('def_empty_type', 0) + 1
                hist['def_basic_type_' + q[0]] = hist.get('def_basic_type_' + q[0], 0) + 1
        f = oracle(o, r)
        if f:
            fails.append((o, f))
        k = nontrivial_key(o, r)
        if k:
            res.nontrivial(k)

    def size_of(op):
        w = op.split()
        try:
            if w[0] in ('def', 'tri'):
                return int(w[4]) * int(w[5]) + int(w[6])
            if w[0] == 'rep':
                return int(w[5]) * int(w[6]) + int(w[7]) + 1
            if w[0] == 'rect':
                return int(w[2]) * int(w[3]) + int(w[4])
        except (ValueError, IndexError):
            pass
        return len(op) + 10 ** 6
    fails.sort(key=lambda x: size_of(x[0]))
    seen = set()
    for o, f in fails:
        w = o.split()
        norm = ' '.join(w[:1] + w[2:]) if w[0] in ('def', 'tri', 'rect', 'cont') else ' '.join(w[:2] + w[3:]) if w[0] == 'rep' else o
        if norm in seen or len(seen) >= 8:      # the basic type does not make a failing case different
            continue
        seen.add(norm)
        key = ('mpi-typemap:' if o.startswith('tm') else '') + o
        res.violations.append({'key': key, 'what': f, 'case': [o], 'seed': ctx.seed, 'failing_ops_total': len(fails)})
    # disagreements: keep the smallest ones first (pv.differential recorded the first 50 in stream order)
    res.disagreements.sort(key=lambda d: size_of(d.get('op', '')))
    res.traces_validated = built
    res.rule = ('corpus ops first; then exhaustive def over m,n in 1..%d, ld in m..m+3, diag 0/1, uplo upper/lower/full (basic type cycling over 5 MPI types, resized variants for full tiles); '
                'random small/medium/large def, rep (1..4 packed instances), direct tri/rect/cont calls incl. unknown uplo codes and other diag values; random nested raw constructor programs (tm) '
                'validating the MPI typemap model; a malformed/out-of-precondition stream. Every op builds the real type and packs a marker buffer. '
                'distinct = distinct op line (basic type ignored for def); non-trivial = the selection consists of at least two separate runs of elements' % (12 if ctx.quick else 24))
    pick = [i for i, (o, r) in enumerate(zip(ops_i, impl)) if '[' in r and r.count('+') >= 3]
    res.samples = ['%s => %s' % (ops_i[i], impl[i][:160]) for i in (pick[:2] + pick[len(pick) // 2:len(pick) // 2 + 3] + pick[-2:])]
    res.extra['input_distribution'] = dict(hist, corpus_ops=ncorpus, types_built_and_packed=built)
    res.extra['exhaustive'] = True
    res.extra['exhaustive_scope'] = ('the finite space of the property statement (m,n in 1..12, ld in m..m+3, diag 0/1, uplo full/upper/lower) is enumerated completely by the def ops '
                                     '(1..24 in the thorough tier); all other op streams are sampled; the theorems cover every size')


def replay(ctx, res, data):
    ops = []
    for v in data.get('violations', []):
        ops += v.get('case', [])
    for d in data.get('disagreements', []):
        if d.get('op') and not d['op'].startswith('<'):
            ops.append(d['op'])
    run(ctx, res, ops=ops or None)
