"""Shared machinery of checks C06 and C15 (context/wait layer and compound taskpools).

A *case* is a dict {'units': [...], 'compose': [...], 'program': [...]} rendered to a harness script (harness/CTX.c).
  unit  = {'kind': 'tp', 'id': i, 'shape': 'chain'|'fork'|'indep', 'n': N, 'delay': d, 'cb': bool,
           'adder': ('master',) | ('task', tp_id, task) | ('cb', tp_id)}
        | {'kind': 'comp', 'id': c, 'members': [ids of taskpools or of other compounds], 'cb': bool, 'adder': ...}
  compose = [(rid, a, b), ...]: all parsec_compose calls of the case in program order, `rid = parsec_compose(a, b)` with a, b plain
           taskpools or compounds (any composition tree).  As in parsec/compound.c: if a is a compound, b (plain or compound) is appended
           as a MEMBER of a and a is returned (rid == a); otherwise a NEW compound rid = [a, b] is created.  Ids: plain taskpools 0..M-1,
           compounds M, M+1, ... in creation order.  unit['members'] of a compound is the result of these calls (sim_compose); only ROOT
           compounds (never passed to another compose) have 'adder'/'cb', the nested ones are added by the callback of their parent.
           The composition order of a root is the in-order sequence of its LEAF taskpools (members_closure).
  program = master ops: 'start' 'wait' 'test' 'active' ('add', id) ('tpwait', id) ('stall', us) ('compose1', id)
All randomness comes from pv.Rng.  The harness transcript (ops => results) is fed to the Lean trace
acceptor pv_CTX; the property oracles below are written from the property statements and use only the
event order (one global atomic stamp counter in the harness).
"""
import os, subprocess, json
import pv

SHAPES = ['chain', 'fork', 'indep']
SCHEDS = ['lfq', 'ap', 'rnd', 'll', 'gd', 'ltq', 'pbq', 'ip', 'spq', 'lhq', 'llp']
RUN_ENV = dict(pv.MPI_ENV, OMPI_MCA_btl='self', OMPI_MCA_pml='ob1', OMPI_MCA_ess_singleton_isolated='1',
               PARSEC_MCA_runtime_bind_threads='0', PARSEC_MCA_bind_threads='0')


# ------------------------------------------------------------------ build
def build_harness(ctx):
    exe = ctx.path('CTX')
    ptgpp = os.path.join(ctx.build, 'parsec', 'interfaces', 'ptg', 'ptg-compiler', 'parsec-ptgpp')
    gen = []
    for sh in SHAPES:
        src = os.path.join(pv.ROOT, 'harness', 'ctx', 'ctx_%s.jdf' % sh)
        rc, o, e = pv.sh([ptgpp, '--noline', '-E', '-i', src, '-o', 'ctx_' + sh], cwd=ctx.run_dir, timeout=120)
        if rc != 0 or not os.path.exists(ctx.path('ctx_%s.c' % sh)):
            return None, 'parsec-ptgpp failed on %s: %s' % (src, (o + e)[-800:])
        gen.append(ctx.path('ctx_%s.c' % sh))
    ok, log = pv.cc_harness(os.path.join(pv.ROOT, 'harness', 'CTX.c'), exe, ctx.build,
                            extra=['-I' + ctx.run_dir, '-Wno-unused-variable', '-Wno-unused-but-set-variable', '-w'] + gen)
    if not ok:
        return None, 'harness compile failed: ' + log[-1500:]
    return exe, ''


# ------------------------------------------------------------------ cases
def ntasks(u):
    return u['n'] + 2 if u['shape'] == 'fork' else u['n']


def task_ids(u):
    if u['shape'] == 'fork':
        return [0] + [1000 + k for k in range(u['n'])] + [2000]
    return list(range(u['n']))


def preds(u, task):
    """dependencies of a task inside its taskpool (from the JDF shapes)"""
    if u['shape'] == 'chain':
        return [task - 1] if task > 0 else []
    if u['shape'] == 'fork':
        if task == 0:
            return []
        if task == 2000:
            return [1000 + k for k in range(u['n'])]
        return [0]
    return []


# ------------------------------------------------------------------ composition trees
def sim_compose(calls, ntp=None):
    """the member lists parsec_compose builds (parsec/compound.c) for the calls [(rid, a, b), ...] -> {cid: [member ids]} (creation order).
    ntp (optional) = number of plain taskpools: ids below it can never be compounds."""
    comps = {}
    for (rid, a, b) in calls:
        if ntp is not None and (b >= ntp and b not in comps or a >= ntp and a not in comps):
            raise ValueError('compose %s: unknown operand' % ((rid, a, b),))
        if a in comps:                      # start is a compound: next (plain or compound) appended as a member, start returned
            if rid != a:
                raise ValueError('compose %s: a compound start is returned itself' % ((rid, a, b),))
            comps[a].append(b)
        else:                               # start is plain: a new compound [start, next]
            if rid in comps or (ntp is not None and rid < ntp):
                raise ValueError('compose %s: result id in use' % ((rid, a, b),))
            comps[rid] = [a, b]
    return comps


def left_fold_calls(cid, members):
    """the calls of `compound cid m1 ... mk` = compose(...compose(m1, m2)..., mk)"""
    return [(cid, members[0], members[1])] + [(cid, cid, m) for m in members[2:]]


def comp_members(case):
    return {u['id']: list(u['members']) for u in case['units'] if u['kind'] == 'comp'}


def leaves_of(comps, uid):
    """in-order leaf taskpools of node uid (comps = {cid: members})"""
    if uid not in comps:
        return [uid]
    out = []
    for m in comps[uid]:
        out += leaves_of(comps, m)
    return out


def nodes_of(comps, uid):
    """all ids of the tree rooted at uid (compounds and leaves)"""
    out = [uid]
    for m in comps.get(uid, []):
        out += nodes_of(comps, m)
    return out


def roots_of(comps):
    inner = set(m for ms in comps.values() for m in ms)
    return [c for c in comps if c not in inner]


def nesting_depth(comps, uid):
    """0 for a plain taskpool, 1 for a flat compound, ..."""
    if uid not in comps:
        return 0
    return 1 + max(nesting_depth(comps, m) for m in comps[uid])


def arg_kinds(calls):
    """-> counts of the four (start, next) argument kinds over the compose calls"""
    out = {'plain/plain': 0, 'comp/plain': 0, 'plain/comp': 0, 'comp/comp': 0}
    comps = set()
    for (rid, a, b) in calls:
        out['%s/%s' % ('comp' if a in comps else 'plain', 'comp' if b in comps else 'plain')] += 1
        comps.add(rid)
    return out


FOLDS = ['left', 'right', 'random']


def gen_tree(rng, leaves, fold):
    """a binary composition tree over the leaves in that order: int = leaf, (l, r) = parsec_compose(l, r)"""
    if fold == 'left':
        t = leaves[0]
        for x in leaves[1:]:
            t = (t, x)
        return t
    if fold == 'right':
        t = leaves[-1]
        for x in reversed(leaves[:-1]):
            t = (x, t)
        return t
    if len(leaves) == 1:
        return leaves[0]
    k = rng.range(1, len(leaves) - 1)
    return (gen_tree(rng, leaves[:k], fold), gen_tree(rng, leaves[k:], fold))


def tree_calls(tree, nid, calls):
    """emit the compose calls of the C expression `tree` (arguments evaluated left to right, then the call: post-order).
    Returns (id of the value, next fresh id)."""
    if isinstance(tree, int):
        return tree, nid
    a, nid = tree_calls(tree[0], nid, calls)
    b, nid = tree_calls(tree[1], nid, calls)
    if any(c[0] == a for c in calls):       # a is a compound: returned itself
        calls.append((a, a, b))
        return a, nid
    calls.append((nid, a, b))
    return nid, nid + 1


def gen_case(rng, big=False, want_compound=None, risky=False):
    ntp = rng.range(1, 9 if not big else 26)
    tps = []
    for i in range(ntp):
        sh = rng.choice(SHAPES)
        n = rng.range(1, 5) if sh == 'fork' else rng.range(0, 6)
        if rng.chance(1, 12) and sh != 'fork':
            n = 0
        tps.append({'kind': 'tp', 'id': i, 'shape': sh, 'n': n, 'delay': rng.choice([0, 0, 5, 20, 60, 150]), 'cb': True,
                    'cbdelay': rng.choice([0, 0, 200, 500, 1000, 3000])})
    units = []
    free = list(range(ntp))
    # "late round": a tiny taskpool Y and a long one B with a slow completion callback, both added by the master inside an
    # epoch; the master waits for Y (this also lets the communication engine release B's registration action), then
    # enters parsec_taskpool_wait(B) once B's completion callback has begun on a worker
    late = None
    if rng.chance(2, 5):
        y, b = ntp, ntp + 1
        tps.append({'kind': 'tp', 'id': y, 'shape': 'chain', 'n': 1, 'delay': 0, 'cb': True, 'cbdelay': 0, 'adder': ('master',)})
        tps.append({'kind': 'tp', 'id': b, 'shape': rng.choice(['indep', 'indep', 'fork', 'chain']), 'n': rng.range(4, 8),
                    'delay': rng.choice([3000, 6000, 8000]), 'cb': True, 'cbdelay': rng.choice([2000, 3000, 4000]), 'adder': ('master',)})
        late = (y, b, rng.choice([300, 1000, 2000, 3000]))
        ntp += 2
    # compounds over disjoint subsets
    ncomp = 0
    if want_compound is None:
        want_compound = rng.chance(3, 5)
    nid = ntp
    calls = []
    folds = {}
    while want_compound and len(free) >= 2 and ncomp < 2 and (ncomp == 0 or rng.chance(1, 3)):
        k = rng.range(2, min(len(free), 20 if big else 5))
        mem = []
        for _ in range(k):
            mem.append(free.pop(rng.below(len(free))))
        fold = rng.choice(FOLDS)
        root, nid = tree_calls(gen_tree(rng, mem, fold), nid, calls)
        folds[root] = fold
        ncomp += 1
    cm = sim_compose(calls, ntp)
    comps = []
    for cid in sorted(cm):
        c = {'kind': 'comp', 'id': cid, 'members': cm[cid]}
        if cid in folds:                # a root: added by the test, may have a callback; the nested ones belong to their parent
            c.update({'fold': folds[cid], 'cb': rng.chance(3, 4), 'cbdelay': rng.choice([0, 300, 1000, 3000])})
        comps.append(c)
        for m in cm[cid]:
            if m < ntp:
                tps[m]['cb'] = False    # the compound owns on_complete of its members
    roots = [c for c in comps if c['id'] in folds]
    top = [tps[i] for i in free] + roots
    # random order; adders only from earlier units
    order = []
    pool = list(top)
    while pool:
        order.append(pool.pop(rng.below(len(pool))))
    seen_tps = []   # plain taskpool ids (members included) that will run before
    for u in order:
        cand_task = [t for t in seen_tps if ntasks(tps[t]) > 0]
        cand_cb = [t for t in seen_tps if tps[t]['cb']]
        if cand_task and rng.chance(2, 5):
            t = rng.choice(cand_task)
            u['adder'] = ('task', t, rng.choice(task_ids(tps[t])))
        elif cand_cb and rng.chance(1, 4):
            u['adder'] = ('cb', rng.choice(cand_cb))
        else:
            u['adder'] = ('master',)
        seen_tps += [u['id']] if u['kind'] == 'tp' else leaves_of(cm, u['id'])
    if order and order[0]['adder'] != ('master',):
        order[0]['adder'] = ('master',)
    # master program
    madds = [u['id'] for u in order if u['adder'] == ('master',)]
    prog = []
    nep = rng.range(1, 4)
    late_epoch = rng.below(nep) if late else -1
    slots = [[] for _ in range(2 * nep)]   # slot 2e: before start of epoch e, 2e+1: between start and wait
    for a in madds:
        slots[rng.below(len(slots))].append(a)
    added = []
    if rng.chance(1, 3):
        prog.append(('stalladd', rng.choice([100, 300, 1000])))
    for m in tps:
        if m['id'] in free and rng.chance(1, 10):
            prog.append(('compose1', m['id']))
    for e in range(nep):
        if rng.chance(1, 8):
            prog.append('wait')                 # refused: not started
        for a in slots[2 * e]:
            prog.append(('add', a)); added.append(a)
        if rng.chance(1, 3):
            prog.append('active')
        prog.append('start')
        if rng.chance(1, 8):
            prog.append('start')                # refused: already started
        if rng.chance(1, 3):
            prog.append('test')
        for a in slots[2 * e + 1]:
            prog.append(('add', a)); added.append(a)
            if rng.chance(1, 4):
                prog.append('test')
        byid = {u['id']: u for u in tps + comps}
        if e == late_epoch:
            y, b, slp = late
            prog += [('add', y), ('add', b), ('sleep', slp), ('tpwait', y), ('tpwaitlate', b, 60000)]
            added += [y, b]
        for _round in range(rng.range(0, 2)):
            if not added:
                break
            x = rng.choice(added)
            k = rng.below(4)
            if k == 0 and byid[x].get('cb'):
                # arrive while the completion callback is running on a worker
                prog.append(('tpwaitlate', x, 30000))
            elif k == 1:
                prog.append(('sleep', rng.choice([50, 200, 600, 1500, 4000])))
                prog.append(('tpwait', x))
            else:
                prog.append(('tpwait', x))
        later = [a for a in madds if a not in added]
        if later and rng.chance(1, 6):
            prog.append(('tpwait', rng.choice(later)))       # not registered yet: refused
        if comps and rng.chance(1, 3):
            prog.append(('stall', rng.choice([200, 2000, 20000])))
        prog.append('wait')
        prog.append('active')
        if rng.chance(1, 3):
            prog.append('test')
    return {'units': tps + comps, 'compose': calls, 'program': prog}


def norm(case):
    """tuples instead of lists after a JSON round trip; a case in the old format (flat compounds, no 'compose') gets the left folds"""
    c = {'units': [dict(u) for u in case['units']], 'program': [op if isinstance(op, str) else tuple(op) for op in case['program']]}
    for u in c['units']:
        if 'adder' in u:
            u['adder'] = tuple(u['adder'])
        if u['kind'] == 'comp':
            u['members'] = list(u['members'])
    if 'compose' in case:
        c['compose'] = [tuple(x) for x in case['compose']]
    else:
        c['compose'] = [x for u in c['units'] if u['kind'] == 'comp' for x in left_fold_calls(u['id'], u['members'])]
    return c


def render(case):
    L = []
    case = norm(case)
    units = case['units']
    for u in units:
        if u['kind'] == 'tp':
            L.append('tp %d %s %d %d' % (u['id'], u['shape'], u['n'], u['delay']))
    for (rid, a, b) in case['compose']:
        L.append('compose %d %d %d' % (rid, a, b))
    inner = set(m for u in units if u['kind'] == 'comp' for m in u['members'])
    for u in units:
        if u.get('cb') and not (u['kind'] == 'comp' and u['id'] in inner):
            L.append('cb %d' % u['id'])
            if u.get('cbdelay'):
                L.append('cbdelay %d %d' % (u['id'], u['cbdelay']))
    for u in units:
        ad = u.get('adder')
        if not ad:
            continue
        if ad[0] == 'task':
            L.append('addat %d %d %d' % (ad[1], ad[2], u['id']))
        elif ad[0] == 'cb':
            L.append('cbadd %d %d' % (ad[1], u['id']))
    for op in case['program']:
        L.append(op if isinstance(op, str) else ' '.join(map(str, op)))
    L.append('endcase')
    return L


def drop_unit(case, uid):
    """case without unit uid (and without everything that depended on it); None if impossible.
    A composition tree goes as a whole: dropping any of its nodes (leaf, nested compound, root) drops all of them."""
    case = norm(case)
    units = [dict(u) for u in case['units']]
    byid = {u['id']: u for u in units}
    gone = set()

    def kill(i):
        if i in gone or i not in byid:
            return
        gone.add(i)
        u = byid[i]
        if u['kind'] == 'comp':
            for m in u['members']:
                kill(m)
        for v in units:
            ad = v.get('adder')
            if ad and ad[0] in ('task', 'cb') and ad[1] == i:
                kill(v['id'])
            if v['kind'] == 'comp' and i in v['members']:
                kill(v['id'])
    kill(uid)
    keep = [u for u in units if u['id'] not in gone]
    if not keep:
        return None
    # renumber densely: taskpools first, compounds after
    ren = {}
    for u in [x for x in keep if x['kind'] == 'tp'] + [x for x in keep if x['kind'] == 'comp']:
        ren[u['id']] = len(ren)
    out = []
    for u in keep:
        v = dict(u)
        v['id'] = ren[u['id']]
        if v['kind'] == 'comp':
            v['members'] = [ren[m] for m in u['members']]
        ad = u.get('adder')
        if ad and ad[0] == 'task':
            v['adder'] = ('task', ren[ad[1]], ad[2])
        elif ad and ad[0] == 'cb':
            v['adder'] = ('cb', ren[ad[1]])
        out.append(v)
    out.sort(key=lambda x: x['id'])
    calls = [(ren[r], ren[a], ren[b]) for (r, a, b) in case['compose'] if r not in gone and a not in gone and b not in gone]
    prog = []
    for op in case['program']:
        if isinstance(op, tuple) and op[0] in ('add', 'tpwait', 'tpwaitlate', 'compose1'):
            if op[1] in gone:
                continue
            prog.append((op[0], ren[op[1]]) + tuple(op[2:]))
        else:
            prog.append(op)
    return {'units': out, 'compose': calls, 'program': prog}


# ------------------------------------------------------------------ running
def run_process(exe, cases_lines, K, sched, keep=1, timeout=240, wd=25):
    """one harness process (one parsec_init) running several cases.  Returns (rc, stdout, stderr)."""
    lines = []
    for k, c in enumerate(cases_lines):
        lines.append('case %d' % k)
        lines += c
    env = dict(RUN_ENV, PARSEC_MCA_mca_sched=sched, PARSEC_MCA_runtime_keep_highest_priority_task=str(keep))
    for attempt in range(3):
        rc, out, err = pv.sh([exe, str(K), str(wd)], input='\n'.join(lines) + '\n', timeout=timeout, env=env)
        # MPI_Init of a singleton occasionally fails when many start at once (session directory): not the code under test
        if rc != 0 and not out.strip() and 'MPI_Init' in err:
            import time
            time.sleep(1 + attempt)
            continue
        break
    return rc, out, err


def run_parallel(jobs, maxpar=5):
    """jobs: list of (exe, cases_lines, K, sched, keep).  Runs up to maxpar harness processes at a time."""
    import concurrent.futures as cf
    with cf.ThreadPoolExecutor(max_workers=maxpar) as ex:
        futs = [ex.submit(run_process, *j) for j in jobs]
        return [f.result() for f in futs]


def split_transcript(out):
    """-> list of cases: {'ops': [...], 'impl': [...]} in harness order, plus stats and !viol lines"""
    ops, impl, stats, viols = pv.parse_transcript(out)
    cases = []
    cur = None
    for o, r in zip(ops, impl):
        if o.startswith('case '):
            cur = {'ops': [], 'impl': []}
            cases.append(cur)
        if cur is not None:
            cur['ops'].append(o)
            cur['impl'].append(r)
    return cases, stats, viols


def accept(cases):
    """feed all cases of one process to the Lean acceptor; returns per case list of (index, op, impl, model) mismatches"""
    ops = [o for c in cases for o in c['ops']]
    if not ops:
        return []
    rc, model, err = pv.run_driver('pv_CTX', ops, timeout=600)
    res = []
    i = 0
    for c in cases:
        n = len(c['ops'])
        m = model[i:i + n]
        i += n
        dis = []
        for j in range(n):
            mm = m[j] if j < len(m) else '<missing>'
            if mm != c['impl'][j]:
                dis.append({'index': j, 'op': c['ops'][j], 'impl': c['impl'][j], 'model': mm})
        res.append(dis)
    if rc != 0:
        res.append([{'index': -1, 'op': '<driver>', 'impl': '', 'model': 'driver exit %d %s' % (rc, err[-200:])}])
    return res


# ------------------------------------------------------------------ events
def events_of(tcase):
    """events (kind, thread, a, b) in stamp order"""
    ev = []
    for o in tcase['ops']:
        w = o.split()
        if w[0] == 'ev':
            ev.append((w[1], int(w[2]), int(w[3]), int(w[4])))
    return ev


def ended_quiescent(tcase):
    return bool(tcase['ops']) and tcase['ops'][-1] == 'end' and tcase['impl'][-1] == 'quiescent'


def index_events(case, ev):
    """per taskpool: positions of tb/te per task, cb positions; plus explicit add positions"""
    info = {}
    for u in case['units']:
        info[u['id']] = {'tb': {}, 'te': {}, 'cb': [], 'cbe': [], 'add': [], 'u': u}
    for i, (k, t, a, b) in enumerate(ev):
        if k in ('tb', 'te', 'cb', 'cbe', 'add') and a not in info:
            info[a] = {'tb': {}, 'te': {}, 'cb': [], 'cbe': [], 'add': [], 'u': {'kind': 'tp', 'id': a, 'shape': 'indep', 'n': 0, 'foreign': True}}
        if k == 'tb':
            info[a]['tb'].setdefault(b, []).append(i)
        elif k == 'te':
            info[a]['te'].setdefault(b, []).append(i)
        elif k == 'cb':
            info[a]['cb'].append(i)
        elif k == 'cbe':
            info[a]['cbe'].append(i)
        elif k == 'add':
            info[a]['add'].append(i)
    return info


def members_closure(case, uid):
    """the LEAF taskpools of uid in composition order (in-order over nested compounds); [uid] for a plain taskpool"""
    return leaves_of(comp_members(case), uid)


def last_te(info, tp):
    pos = [p for l in info[tp]['te'].values() for p in l]
    return max(pos) if pos else -1


def first_tb(info, tp):
    pos = [p for l in info[tp]['tb'].values() for p in l]
    return min(pos) if pos else None


def all_done_before(info, tp, i):
    """every task of taskpool tp began and ended exactly once, all before position i"""
    u = info[tp]['u']
    for task in task_ids(u):
        b = info[tp]['tb'].get(task, [])
        e = info[tp]['te'].get(task, [])
        if len(b) != 1 or len(e) != 1 or not (b[0] < e[0] < i):
            return False
    return True


def oracle_tasks(case, ev, info):
    """every task exactly once, begin before end, dependencies inside the taskpool respected, tasks only inside an epoch"""
    out = []
    for u in case['units']:
        if u['kind'] != 'tp':
            continue
        tid = u['id']
        added = bool(info[tid]['tb']) or bool(info[tid]['add'])
        for task in task_ids(u):
            b = info[tid]['tb'].get(task, [])
            e = info[tid]['te'].get(task, [])
            if not b and not e and not added:
                continue
            if len(b) > 1 or len(e) > 1:
                out.append('task %d of taskpool %d ran %d times' % (task, tid, max(len(b), len(e))))
                continue
            if len(b) == 1 and len(e) == 1:
                if not b[0] < e[0]:
                    out.append('task %d of taskpool %d ended before it began' % (task, tid))
                for p in preds(u, task):
                    pe = info[tid]['te'].get(p, [])
                    if not pe or pe[0] > b[0]:
                        out.append('task %d of taskpool %d started before its predecessor %d ended' % (task, tid, p))
        for k in list(info[tid]['tb'].keys()) + list(info[tid]['te'].keys()):
            if k not in task_ids(u):
                out.append('taskpool %d ran a task %d outside its execution space' % (tid, k))
    # tasks only inside an epoch (between a successful start and the next wait return)
    inside = False
    for (k, t, a, b) in ev:
        if k == 'startcall':
            inside = True
        elif k == 'waitret' and a == 0:
            inside = False
        elif k in ('tb', 'te', 'cb') and not inside and not (k == 'cb' and info[a]['u']['kind'] == 'comp'):
            out.append('%s of taskpool %d outside any epoch' % (k, a))
    return out


def runtime_ops(case, ev):
    """ops for pv_Runtime (generic dataflow machine): one graph per taskpool that ran"""
    ops = []
    for u in case['units']:
        if u['kind'] != 'tp':
            continue
        ids = task_ids(u)
        pos = {t: i for i, t in enumerate(ids)}
        evs = [(k, b) for (k, t, a, b) in ev if a == u['id'] and k in ('tb', 'te')]
        if not evs:
            continue
        edges = []
        for t in ids:
            for p in preds(u, t):
                edges += [pos[p], pos[t]]
        ops.append(('graph %d | %s' % (len(ids), ' '.join(map(str, edges))), 'ok'))
        for k, b in evs:
            if b in pos:
                ops.append(('ev %s %d' % ('s' if k == 'tb' else 'e', pos[b]), 'ok'))
        ops.append(('done', 'quiescent'))
    return ops


# ------------------------------------------------------------------ property oracles (from the property statements)
KEY_COMPOUND_EARLY = 'compound-taskpool-completes-when-added'
KEY_TPWAIT_COMPOUND = 'taskpool_wait-on-compound-returns-before-its-taskpools-ran'
KEY_TPWAIT_FIRST = 'taskpool_wait-before-first-context_wait-crashes'
KEY_COMPOUND_HANG = 'compound-added-inside-an-epoch-can-deadlock-parsec_context_wait'
WARMUP = {'units': [], 'program': ['start', 'wait']}
TPWAIT_FIRST = {'units': [{'kind': 'tp', 'id': 0, 'shape': 'chain', 'n': 2, 'delay': 0, 'cb': True, 'adder': ('master',)}],
                'program': [('add', 0), 'start', ('tpwait', 0), 'wait', 'active']}


def oracle_C06(case, ev, info):
    """-> list of (key, text).  Statement: context_wait returns only after every task of every taskpool added (also
    those added while it runs) completed; taskpool_wait returns only after that taskpool terminated; each completion
    callback runs exactly once, after the last task; every epoch behaves the same."""
    out = []
    units = {uid: inf['u'] for uid, inf in info.items()}
    for uid, inf in info.items():
        if inf['u'].get('foreign'):
            out.append(('foreign-event', 'events of a taskpool %d that does not belong to this case (left over from an earlier one)' % uid))
    member_of = {m: u['id'] for u in case['units'] if u['kind'] == 'comp' for m in u['members']}
    for i, (k, t, a, b) in enumerate(ev):
        if k == 'waitret' and a == 0:
            # every taskpool added before the return ...
            for uid, inf in info.items():
                if uid in member_of:
                    continue
                if any(p < i for p in inf['add']):
                    for tp in members_closure(case, uid):
                        if not all_done_before(info, tp, i):
                            out.append(('wait-returned-early', 'parsec_context_wait returned (event %d) before every task of taskpool %d (added as %d) completed' % (i, tp, uid)))
                    if units[uid].get('cb') and not any(p < i for p in inf['cbe']):
                        out.append(('wait-returned-early', 'parsec_context_wait returned (event %d) before the completion callback of %d had run to its end' % (i, uid)))
            # ... and nothing runs after the return until the next start
            for j in range(i + 1, len(ev)):
                if ev[j][0] == 'startcall':
                    break
                if ev[j][0] in ('tb', 'te'):
                    out.append(('wait-returned-early', 'task event %s after parsec_context_wait returned (event %d)' % (ev[j], i)))
                    break
        if k == 'tpwaitret' and b == 0:
            uid = a
            for tp in members_closure(case, uid):
                if not all_done_before(info, tp, i):
                    key = KEY_TPWAIT_COMPOUND if units[uid]['kind'] == 'comp' else 'taskpool_wait-returned-early'
                    out.append((key, 'parsec_taskpool_wait(%d) returned (event %d) before every task of taskpool %d completed' % (uid, i, tp)))
                    break
            if units[uid].get('cb') and not any(p < i for p in info[uid]['cbe']):
                out.append(('taskpool_wait-returned-early', 'parsec_taskpool_wait(%d) returned (event %d) before its completion callback had run to its end (callback begin at %s)' % (uid, i, info[uid]['cb'][:1])))
        if k == 'active' and i > 0 and ev[i - 1][0] == 'waitret' and ev[i - 1][2] == 0 and a != 0:
            out.append(('counter-not-zero-after-wait', 'active_taskpools = %d right after parsec_context_wait returned' % a))
    for uid, inf in info.items():
        u = units[uid]
        if u['kind'] != 'tp':
            continue
        ran = bool(inf['tb']) or bool(inf['add'])
        if u.get('cb'):
            if ran and len(inf['cb']) != 1:
                out.append(('callback-not-once', 'completion callback of taskpool %d ran %d times' % (uid, len(inf['cb']))))
            if inf['cb']:
                c = inf['cb'][0]
                if not all_done_before(info, uid, c):
                    out.append(('callback-before-last-task', 'completion callback of taskpool %d ran before all its tasks ended' % uid))
                if any(p > c for l in list(inf['tb'].values()) + list(inf['te'].values()) for p in l):
                    out.append(('callback-before-last-task', 'a task of taskpool %d ran after its completion callback' % uid))
    for x in oracle_tasks(case, ev, info):
        out.append(('task-execution', x))
    return out


def oracle_C15(case, ev, info):
    """Statement: composed taskpools run in composition order (no task of a later one starts before every task of the
    earlier ones completed) and the compound completes exactly once, after the last one.  The composition order of a
    tree of parsec_compose calls is the in-order sequence of its leaf taskpools: a nested compound runs as a whole at
    its member position."""
    out = []
    comps = comp_members(case)
    byid = {u['id']: u for u in case['units']}
    for cid in roots_of(comps):
        u = byid[cid]
        ls = leaves_of(comps, cid)
        if not info[cid]['add'] and not any(info[m]['tb'] for m in ls):
            continue
        for a in range(len(ls)):
            for b in range(a + 1, len(ls)):
                fb = first_tb(info, ls[b])
                if fb is not None and not all_done_before(info, ls[a], fb):
                    out.append(('composition-order', 'compound %d (leaves in composition order %s): a task of leaf #%d (taskpool %d) started at event %d before every task of leaf #%d (taskpool %d) completed' % (cid, ls, b, ls[b], fb, a, ls[a])))
        # one member completion callback per member, for the root and for every nested compound
        for c in nodes_of(comps, cid):
            if c not in comps:
                continue
            nm = len([1 for (k, t, x, y) in ev if k == 'mcb' and x == c])
            if nm != len(comps[c]):
                out.append(('member-callbacks', 'compound %d%s: %d member completion callbacks for %d members' % (c, '' if c == cid else ' (nested in %d)' % cid, nm, len(comps[c]))))
            if c != cid and info[c]['cb']:
                out.append(('nested-compound-callback', 'compound %d is a member of another compound but a test callback ran for it' % c))
        if u.get('cb'):
            cbs = info[cid]['cb']
            if len(cbs) != 1:
                out.append(('compound-callback-not-once', 'compound %d: completion callback ran %d times' % (cid, len(cbs))))
            elif not all(all_done_before(info, m, cbs[0]) for m in ls):
                out.append((KEY_COMPOUND_EARLY, 'compound %d (leaves %s): its completion callback ran at event %d, before the tasks of its taskpools completed (first task of the first one at event %s)' % (cid, ls, cbs[0], first_tb(info, ls[0]))))
    for x in oracle_tasks(case, ev, info):
        out.append(('task-execution', x))
    return out


# ------------------------------------------------------------------ the common run
def load_corpus(prop):
    d = os.path.join(pv.ROOT, 'corpus', prop)
    out = []
    if os.path.isdir(d):
        for f in sorted(os.listdir(d)):
            if f.endswith('.case'):
                out.append((f, norm(json.load(open(os.path.join(d, f))))))
    return out


def case_key(case):
    return json.dumps(case, sort_keys=True)


def evaluate(case, tcase, dis, oracle):
    """-> (violations [(key, text)], disagreements)"""
    ev = events_of(tcase)
    info = index_events(case, ev)
    v = oracle(case, ev, info)
    if not ended_quiescent(tcase):
        v.append(('not-quiescent', 'case did not end quiescent: %s' % (tcase['impl'][-1] if tcase['impl'] else 'no output')))
    return v, dis


def run_one(exe, case, K, sched, keep, oracle):
    rc, out, err = run_process(exe, [render(case)], K, sched, keep, timeout=90, wd=20)
    tcs, stats, viols = split_transcript(out)
    if not tcs:
        return [('harness-died', 'no transcript, rc=%d %s' % (rc, err[-300:]))], []
    dis = accept(tcs)[0]
    v, dis = evaluate(case, tcs[0], dis, oracle)
    v += [('hang' if x.startswith('hang') else 'harness', x) for x in viols]
    if rc != 0 and not viols:
        v.append(('harness-exit-%d' % rc, err[-300:]))
    return v, dis


def shrink(exe, case, K, sched, keep, oracle, key, is_dis, budget=25):
    cur = case
    tries = 0
    progress = True
    while progress and tries < budget:
        progress = False
        for u in list(cur['units']):
            if tries >= budget:
                break
            c2 = drop_unit(cur, u['id'])
            if c2 is None or len(c2['units']) >= len(cur['units']):
                continue
            tries += 1
            v, d = run_one(exe, c2, K, sched, keep, oracle)
            if (is_dis and d) or (not is_dis and any(k == key for k, _ in v)):
                cur = c2
                progress = True
                break
    return cur


def run_common(ctx, res, prop, oracle, known_keys, want_compound, lines_override=None):
    exe, why = build_harness(ctx)
    if exe is None:
        res.infra_errors.append(why)
        return
    rng = pv.Rng(ctx.seed)
    quick = ctx.quick
    jobs = []       # (label, cases, K, sched, keep)
    corpus = load_corpus(prop)
    if lines_override is not None:
        jobs.append(('replay', lines_override, 2, 'lfq', 1))
    else:
        plain = [c for f, c in corpus]
        if plain:
            jobs.append(('corpus', plain, 2, 'lfq', 0))
            jobs.append(('corpus', plain, 4, 'ltq', 0))
            jobs.append(('corpus', plain, 6, 'ap', 1))
        nproc = 10 if quick else 66
        ncase = 9 if quick else 24
        for j in range(nproc):
            K = [1, 2, 3, 4, 2, 6, 3, 8, 2, 4, 5][j % 11]
            sched = SCHEDS[j % len(SCHEDS)] if j >= 3 else ['lfq', 'ap', 'rnd'][j]
            keep = 0 if (j % 3) != 1 else 1
            r = rng.fork(j)
            cases = []
            for k in range(ncase):
                cases.append(gen_case(r.fork(1000 + k), big=(k % 4 == 3) and want_compound is True,
                                      want_compound=(True if (want_compound is True and k % 5 != 4) else None)))
            jobs.append(('gen', cases, K, sched, keep))
    if lines_override is None and prop == 'C06':
        # parsec_taskpool_wait as the very first wait of a process (crashed before the repair of __parsec_taskpool_wait)
        jobs.append(('tpwait-first', [TPWAIT_FIRST], 1, 'lfq', 1))
        jobs.append(('tpwait-first', [TPWAIT_FIRST], 3, 'ap', 0))
    outs = run_parallel([(exe, [render(c) for c in cs], K, sched, keep, 300 if quick else 900, 25) for (lab, cs, K, sched, keep) in jobs],
                        maxpar=5 if quick else 6)
    dist = {'histories': 0, 'events': 0, 'epochs': 0, 'threads': {}, 'schedulers': {}, 'taskpools': 0, 'compounds': 0,
            'compound_sizes': {}, 'root_compounds': 0, 'compose_calls': 0, 'compose_folds': {}, 'compose_leaves': {}, 'max_nesting_depth': 0,
            'compose_arg_kinds': {'plain/plain': 0, 'comp/plain': 0, 'plain/comp': 0, 'comp/comp': 0}, 'adds_by_master': 0, 'adds_by_task': 0, 'adds_by_callback': 0, 'taskpool_waits': 0,
            'refused_calls': 0, 'tasks': 0, 'stalls_hit': 0, 'tpwait_entered_during_callback': 0, 'runtime_traces': 0}
    rt_ops = []
    seen_v = set()
    for (label, cs, K, sched, keep), (rc, out, err) in zip(jobs, outs):
        tcs, stats, hviols = split_transcript(out)
        if label == 'tpwait-first' and rc != 0:
            res.evaluations += 1
            res.violations.append({'key': KEY_TPWAIT_FIRST, 'what': 'parsec_init; add_taskpool; parsec_context_start; parsec_taskpool_wait(tp) with no earlier parsec_context_wait in the process: harness exit %d: %s' % (rc, err[-400:]),
                                   'case': TPWAIT_FIRST, 'script': render(TPWAIT_FIRST), 'threads': K, 'sched': sched, 'keep': keep})
            continue
        dist['stalls_hit'] += stats.get('stalls', 0)
        dist['tpwait_entered_during_callback'] += stats.get('tpwait_entered_during_callback', 0)
        dist['tasks'] += stats.get('tasks', 0)
        dis_all = accept(tcs) if ctx.driver_ok else [[] for _ in tcs]
        if not ctx.driver_ok and 'model driver unavailable' not in ' '.join(res.notes):
            res.notes.append('model driver unavailable: correspondence not run, oracle only')
        for x in hviols:
            k = 'hang' if x.startswith('hang') else 'harness'
            idx = len(tcs) - 1
            hcase = cs[idx] if 0 <= idx < len(cs) else None
            if k == 'hang' and hcase is not None and any(u['kind'] == 'comp' and tuple(u.get('adder', ('master',)))[0] != 'master' for u in hcase['units']):
                if KEY_COMPOUND_HANG not in seen_v:
                    seen_v.add(KEY_COMPOUND_HANG)
                    res.violations.append({'key': KEY_COMPOUND_HANG, 'what': x + ' — all other threads left the loop at the transient zero of active_taskpools and sit at the end-of-epoch barrier',
                                           'case': hcase, 'script': render(hcase), 'history': tcs[-1]['ops'][-40:], 'threads': K, 'sched': sched, 'keep': keep})
                continue
            res.violations.append({'key': '%s K=%d sched=%s' % (k, K, sched), 'what': x, 'case': hcase, 'script': render(hcase) if hcase else None,
                                   'history': tcs[-1]['ops'][-60:] if tcs else [], 'threads': K, 'sched': sched, 'keep': keep})
        if rc != 0 and not hviols:
            res.violations.append({'key': 'harness-exit-%d K=%d sched=%s' % (rc, K, sched), 'what': 'harness exited with %d after %d complete cases: %s' % (rc, len(tcs), err[-500:]),
                                   'case': cs[len(tcs) - 1] if 0 < len(tcs) <= len(cs) else None, 'threads': K, 'sched': sched, 'keep': keep})
        hung = any(x.startswith('hang') for x in hviols)
        for i, tc in enumerate(tcs):
            if i >= len(cs) or (hung and i == len(tcs) - 1):
                break
            case = cs[i]
            ev = events_of(tc)
            info = index_events(case, ev)
            v, dis = evaluate(case, tc, dis_all[i] if i < len(dis_all) else [], oracle)
            res.evaluations += 1
            res.traces_validated += 1 if ctx.driver_ok else 0
            dist['histories'] += 1
            dist['events'] += len(ev)
            dist['epochs'] += len([1 for e in ev if e[0] == 'waitret' and e[2] == 0])
            dist['threads'][str(K)] = dist['threads'].get(str(K), 0) + 1
            dist['schedulers'][sched] = dist['schedulers'].get(sched, 0) + 1
            dist['taskpools'] += len([1 for u in case['units'] if u['kind'] == 'tp'])
            ncase = norm(case)
            cm = comp_members(ncase)
            dist['compose_calls'] += len(ncase['compose'])
            for kk, vv in arg_kinds(ncase['compose']).items():
                dist['compose_arg_kinds'][kk] += vv
            for c in roots_of(cm):
                dist['root_compounds'] += 1
                fold = [u for u in case['units'] if u['id'] == c][0].get('fold', 'left')
                dist['compose_folds'][fold] = dist['compose_folds'].get(fold, 0) + 1
                nl = str(len(leaves_of(cm, c)))
                dist['compose_leaves'][nl] = dist['compose_leaves'].get(nl, 0) + 1
                dist['max_nesting_depth'] = max(dist['max_nesting_depth'], nesting_depth(cm, c))
            for u in case['units']:
                if u['kind'] == 'comp':
                    dist['compounds'] += 1
                    n = str(len(u['members']))
                    dist['compound_sizes'][n] = dist['compound_sizes'].get(n, 0) + 1
                ad = u.get('adder', ('none',))[0]
                if ad in ('master', 'task', 'cb'):
                    dist['adds_by_' + {'master': 'master', 'task': 'task', 'cb': 'callback'}[ad]] += 1
            dist['taskpool_waits'] += len([1 for e in ev if e[0] == 'tpwaitret'])
            dist['refused_calls'] += len([1 for e in ev if (e[0] == 'waitret' and e[2] < 0) or (e[0] == 'start' and e[2] != 0) or (e[0] == 'tpwaitret' and e[3] < 0)])
            if len(ev) > 12 and len(case['units']) > 1:
                res.nontrivial(case_key(case) + '|%d|%s' % (K, sched))
            rt_ops += runtime_ops(case, ev)
            if len(res.samples) < 3 and label == 'gen' and i == 1:
                res.samples.append({'threads': K, 'sched': sched, 'case': render(case), 'events': len(ev), 'first_events': tc['ops'][:12]})
            if dis:
                small = shrink(exe, case, K, sched, keep, oracle, None, True) if len(res.disagreements) < 2 else case
                res.disagreements.append({'threads': K, 'sched': sched, 'keep': keep, 'first': dis[0], 'case': small, 'script': render(small)})
            for key, text in v:
                if key in known_keys:
                    if key not in seen_v:
                        seen_v.add(key)
                        res.violations.append({'key': key, 'what': text, 'case': case, 'script': render(case), 'threads': K, 'sched': sched, 'keep': keep})
                    continue
                if (key, i, K, sched) in seen_v:
                    continue
                seen_v.add((key, i, K, sched))
                small = shrink(exe, case, K, sched, keep, oracle, key, False) if len([x for x in res.violations if x['key'] not in known_keys]) < 3 else case
                res.violations.append({'key': '%s: %s' % (key, text), 'what': text, 'case': small, 'script': render(small), 'threads': K, 'sched': sched, 'keep': keep})
    # the tasks of every taskpool form an accepted, complete run of the generic dataflow machine (Props/Runtime.lean)
    if rt_ops and os.path.exists(pv.driver('pv_Runtime')):
        rcd, model, derr = pv.run_driver('pv_Runtime', [o for o, _ in rt_ops], timeout=600)
        bad = [(o, e, m) for (o, e), m in zip(rt_ops, model) if e != m]
        dist['runtime_traces'] = len([1 for o, _ in rt_ops if o.startswith('graph')])
        for o, e, m in bad[:5]:
            res.disagreements.append({'op': o, 'impl': e, 'model': m, 'what': 'dataflow machine rejected the task events of a taskpool'})
    res.extra['input_distribution'] = dist
    res.extra['inconclusive'] = 0
    return dist
