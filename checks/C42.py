"""C42 — profiling traces read back exactly as written."""
import os, json, concurrent.futures, pv
PROP = 'C42'
LEAN_MODULE = 'ParsecVerif.Props.C42'
DRIVERS = ['pv_C42']
BUILD_CFG = 'verif-prof'
BUILD_TARGETS = ('parsec', 'parsec-dbp2xml', 'parsec-dbpinfos')
THEOREMS = ['ParsecVerif.C42.C42_roundtrip', 'ParsecVerif.C42.C42_decode_any_placement', 'ParsecVerif.C42.C42_stream_order',
            'ParsecVerif.C42.C42_encode_injective', 'ParsecVerif.C42.C42_layoutAtB_sound', 'ParsecVerif.C42.C42_checked_file_decodes',
            'ParsecVerif.C42.C42_roundtrip_all', 'ParsecVerif.C42.C42_merge_dict_sound', 'ParsecVerif.C42.C42_name_truncated']
IMPL = 'parsec/profiling.c (writer), parsec/parsec_binary_profile.h (layout), tools/profiling/dbpreader.c (reader)'
ENGINE = 'lean-seq'
LEVEL = 'proof'
LEVEL_TEXT = ('Lean 4 theorems about a byte-level model of the binary profile format (header, dictionary chain, thread chain with stream infos, per-stream chains of fixed-size '
              'event buffers, greedy packing of event records with payloads of the declared length): for EVERY well-formed trace (any dictionary, any number of streams, any event '
              'sequence, any payload bytes, any buffer size) decode (encode t) = some t, i.e. same dictionary, same streams, per stream the same events in the same order with the same '
              'payloads (C42_roundtrip, C42_stream_order, C42_encode_injective); moreover the model reader returns t from EVERY placement of the model writer\'s buffers in the file '
              '(C42_decode_any_placement: allocation order of concurrently tracing threads and helper-thread timing do not matter); lists of processes (C42_roundtrip_all) and the reader\'s '
              'merged dictionary (C42_merge_dict_sound). Tie, on every run, in a profiling-enabled build: random multi-stream, multi-thread, multi-process event streams are written by the '
              'real parsec_profiling_* API; the files are read by the real dbpreader (compiled from tools/profiling/dbpreader.c, assertions on) AND by the compiled Lean reader on the same '
              'bytes; both must agree line by line, both must equal what the harness wrote (independent Python oracle), and the executable placement check layoutAtB (proved sound: '
              'C42_layoutAtB_sound, C42_checked_file_decodes) must hold on the real bytes, i.e. the real writer\'s buffers are byte-identical to the model writer\'s up to their placement.')
LEVEL_NOTE = ('The theorems are about the model pair encode/decode and about every placement of the model writer\'s buffers; the real writer\'s bytes are tied to the model writer per run by layoutAtB '
              '(sampled, not proved). Not modelled: global key/value infos (checked on the real reader by the oracle only, including values spanning buffers), timestamps as times (only '
              'their per-stream monotonicity is checked; values are carried through), start/end event matching, the malloc (non-mmap) back-end, big-endian hosts, OTF2. Preconditions '
              '(WellFormed): names <= 63 bytes, attributes/ids <= 127 bytes, records fit one buffer, flags bit 0 is owned by the library, file size < 2^63; events traced after '
              'parsec_profiling_start and before dbp_dump. Each stream is written by one thread (API contract); concurrency is between streams (buffer allocation, helper thread). '
              'Trusted: Lean kernel, propext/Classical.choice/Quot.sound, the harness, the differential tie.')
TECHNIQUE = 'Lean 4 proof (encoder/decoder round trip through an abstract placement relation, by induction over chains and greedy packing) + differential tie of the real writer and the real reader to the model on the same bytes'
ASSUMPTIONS = ['x86-64 little endian, PARSEC_PROFILING_USE_MMAP (buffers are zero pages), PARSEC_PROFILING_USE_HELPER_THREAD',
               'one writer thread per profiling stream (API contract)',
               'dictionary attributes longer than 6 characters (assertion of the reader)']

F1 = 'C42-F1 dbp_dump never returns when the infos of a stream do not fit in one profiling buffer'
F2 = 'C42-F2 dbpreader crashes on a profile that contains no stream'
F3 = 'C42-F3 a second profile written by the same process is unreadable (file offsets not reset)'


def hx(s):
    return s.encode().hex() if s else '-'


def rand_name(rng, lo, hi, alphabet='abcdefghijklmnopqrstuvwxyzABCDEFGHIJKLMNOPQRSTUVWXYZ0123456789_:()-> ,'):
    return ''.join(alphabet[rng.below(len(alphabet))] for _ in range(rng.range(lo, hi)))


def rand_bytes(rng, n):
    out = bytearray()
    while len(out) < n:
        v = rng.next()
        out += v.to_bytes(8, 'little')
    b = bytes(out[:n])
    if n and rng.chance(1, 4):
        b = bytes([0] * n) if rng.chance(1, 2) else bytes([255] * n)
    return b


def gen_case(rng, quick):
    """Writer part of a case (list of op lines)."""
    ops = []
    nproc = rng.choice([1, 1, 1, 2, 2, 3])
    pages = rng.choice([1, 1, 1, 1, 2, 4])
    app = rand_name(rng, 1, 30)
    ranks = []
    big = rng.chance(1, 6)
    for pi in range(nproc):
        r = rng.range(0, 40)
        while r in ranks:
            r = rng.range(0, 40)
        ranks.append(r)
        pg, hr = pages, app
        if pi > 0 and rng.chance(1, 12):
            hr = app + 'x'
        if pi > 0 and rng.chance(1, 15):
            pg = pages + 1
        ops.append('open %d %d %s' % (r, pg, hx(hr)))
        avail = pg * 4096 - 25
        # dictionary
        nk = rng.choice([1, 2, 3, 5, 8]) if not rng.chance(1, 8) else rng.range(20, 45)
        names = []
        lens = [0]
        for _ in range(nk):
            if names and rng.chance(1, 10):
                nm = rng.choice(names)
            else:
                nm = rand_name(rng, 1, 20) if not rng.chance(1, 10) else rand_name(rng, 60, 63)
            at = 'fill:#%06X' % rng.below(1 << 24) if not rng.chance(1, 6) else rand_name(rng, 7, 127)
            il = rng.choice([0, 0, 1, 4, 8, 13, 24, 64, 200]) if not rng.chance(1, 10) else rng.choice([1000, 3000, avail - 25, avail - 24])
            cv = 'null' if rng.chance(1, 3) else hx(rand_name(rng, 0, 60) if not rng.chance(1, 12) else rand_name(rng, 1500, min(3800, avail - 204)))
            ops.append('key %s %s %d %s' % (hx(nm), hx(at), il, cv))
            if nm not in names:
                names.append(nm)
                lens.append(il)
        for _ in range(rng.choice([0, 0, 1, 2])):
            ops.append('ginfo %s %s' % (hx(rand_name(rng, 1, 12)), hx(rand_name(rng, 0, 40) if not rng.chance(1, 4) else rand_name(rng, 4000, 9000))))
        # streams
        ns = rng.choice([1, 2, 3, 4, 6]) if not rng.chance(1, 8) else rng.range(12, 40)
        if pg >= 4:
            ns = min(ns, 6)      # every stream maps >= 3 buffers: keep the files (and the list-based Lean reader) small
        elif pg >= 2:
            ns = min(ns, 16)
        for si in range(ns):
            ops.append('stream %s' % hx(rand_name(rng, 1, 24) if not rng.chance(1, 10) else rand_name(rng, 120, 127)))
            used = 156
            for _ in range(rng.choice([0, 0, 1, 2, 3])):
                k, v = rand_name(rng, 1, 10), rand_name(rng, 0, 30) if not rng.chance(1, 5) else rand_name(rng, 300, 1500)
                if rng.chance(1, 20):
                    v = rand_name(rng, avail - used - 11 - len(k) - 2, avail - used - 11 - len(k) + 1)   # around the limit: rejected or accepted
                ops.append('sinfo %d %s %s' % (si, hx(k), hx(v)))
                if used + 11 + len(k) + len(v) < avail:
                    used += 11 + len(k) + len(v)
        # events
        nkeys = len(names) + 1
        budget = (60 if quick else 220) * 4071      # bytes of event records per process
        for si in range(ns):
            mode = rng.below(10)
            if mode == 0:
                ne = 0
            elif mode < 5:
                ne = rng.range(1, 12)
            elif mode < 9:
                ne = rng.range(20, 250 if quick else 600)
            else:
                ne = rng.range(300, 900 if quick else 4000) if big else rng.range(100, 300)
            for _ in range(ne):
                if budget <= 0:
                    break
                key = rng.range(2, 2 * nkeys - 1)
                fl = rng.choice([0, 0, 0, 2, 4, 8, 10, 6, 14]) if not rng.chance(1, 20) else rng.below(32768) * 2
                tp = rng.choice([0, 1, 7, 4294967295, rng.below(1 << 32)])
                eid = rng.choice([0, 1, 18446744073709551615, rng.below(1 << 64), rng.below(1000)])
                il = lens[key // 2]
                if rng.chance(2, 5) or 24 + il >= avail:
                    pl = '-'
                else:
                    pl = rand_bytes(rng, il).hex() if il else 'e'
                if rng.chance(1, 200):   # outside the precondition: must be rejected by both sides
                    bad = rng.below(4)
                    if bad == 0:
                        key = rng.choice([0, 1, 2 * nkeys, 2 * nkeys + 5])
                    elif bad == 1:
                        pl = (rand_bytes(rng, il + 1).hex())
                    elif bad == 2:
                        fl = fl | 1
                    else:
                        si2 = ns + rng.below(3)
                        ops.append('ev %d %d %d %d %d %s' % (si2, key, fl, tp, eid, pl))
                        continue
                ops.append('ev %d %d %d %d %d %s' % (si, key, fl, tp, eid, pl))
                budget -= 24 + (0 if pl in ('-', 'e') else len(pl) // 2)
        if not rng.chance(1, 25):
            ops.append('write %d' % rng.choice([1, 2, 3, 4, 6, 8]))
        ops.append('close')
    return ops


def simulate(ops):
    """What the script asks the library to write, from the op lines only (independent of the model)."""
    procs = []
    cur = None
    for o in ops:
        w = o.split()
        if w[0] == 'open':
            if cur is not None:
                continue
            cur = {'rank': int(w[1]), 'pages': int(w[2]), 'hrid': bytes.fromhex(w[3]) if w[3] != '-' else b'', 'keys': [(b'N/A', b'fill:#000000', 0, b'')], 'ginfos': [],
                   'streams': [], 'started': False}
            cur['avail'] = cur['pages'] * 4096 - 25
        elif cur is None:
            continue
        elif w[0] == 'key':
            nm = bytes.fromhex(w[1]) if w[1] != '-' else b''
            at = bytes.fromhex(w[2]) if w[2] != '-' else b''
            cv = b'' if w[4] in ('null', '-') else bytes.fromhex(w[4])
            il = int(w[3])
            if 203 + len(cv) >= cur['avail'] or il < 0 or il >= 2 ** 31 or len(cur['keys']) >= 127:
                continue
            if nm not in [k[0] for k in cur['keys']]:
                cur['keys'].append((nm, at, il, cv))
        elif w[0] == 'ginfo':
            cur['ginfos'].append((bytes.fromhex(w[1]) if w[1] != '-' else b'', bytes.fromhex(w[2]) if w[2] != '-' else b''))
        elif w[0] == 'stream':
            if len(cur['streams']) < 64:
                cur['streams'].append({'hrid': bytes.fromhex(w[1]) if w[1] != '-' else b'', 'infos': [], 'events': [], 'used': 156})
        elif w[0] in ('sinfo', 'sinfo!'):
            s = int(w[1])
            if 0 <= s < len(cur['streams']):
                k = bytes.fromhex(w[2]) if w[2] != '-' else b''
                v = bytes.fromhex(w[3]) if w[3] != '-' else b''
                st = cur['streams'][s]
                if w[0] == 'sinfo!' or st['used'] + 11 + len(k) + len(v) < cur['avail']:
                    st['used'] += 11 + len(k) + len(v)
                    st['infos'].append((k, v))
        elif w[0] == 'ev':
            s, key, fl, tp, eid = int(w[1]), int(w[2]), int(w[3]), int(w[4]), int(w[5])
            if cur['started'] or not (0 <= s < len(cur['streams'])) or key < 2 or key >= 2 * len(cur['keys']) or fl < 0 or fl > 65535 or fl & 1 or not (0 <= tp < 2 ** 32):
                continue
            il = cur['keys'][key // 2][2]
            has = w[6] != '-'
            pl = b'' if w[6] in ('-', 'e') else bytes.fromhex(w[6])
            if has and len(pl) != il:
                continue
            if 24 + (il if has else 0) >= cur['avail']:
                continue
            cur['streams'][s]['events'].append((key, fl | (1 if has else 0), tp, eid, pl if has else None))
        elif w[0] == 'write':
            if not cur['started'] and 1 <= int(w[1]) <= 16:
                cur['started'] = True
        elif w[0] == 'close':
            if not cur['started']:
                for st in cur['streams']:
                    st['events'] = []
            procs.append(cur)
            cur = None
    return procs


def reader_ops(ops):
    procs = simulate(ops)
    out = ['read']
    ok = []
    for i, p in enumerate(procs):
        good = i == 0 or (p['hrid'][:127] == procs[0]['hrid'][:127] and p['pages'] == procs[0]['pages'])
        ok.append(good)
        out.append('rfile %d' % i)
        if good:
            out += ['rdict %d' % i, 'rthreads %d' % i]
            nt = len([s for s in p['streams'] if s['events']])
            out += ['revents %d %d' % (i, t) for t in range(nt)]
            out.append('revents %d %d' % (i, nt))     # one past the end: rejected
            out.append('check %d' % i)
    out.append('endread')
    return out, procs, ok


def show_ev(e):
    key, fl, tp, eid, pl = e
    return '%d.%d.%d.%d.%s' % (key, fl, tp, eid, '-' if pl is None else (pl.hex() if pl else 'e'))


def oracle(ops, lines):
    """The property statement evaluated on what the real reader returned.  `lines`: list of (op, impl result) of the
    whole case plus '#ginfo' records.  Returns a list of failure texts."""
    fails = []
    _, procs, ok = reader_ops(ops)
    res = {}
    ginfos = {}
    for o, r in lines:
        if o.startswith('#ginfo'):
            w = o.split()
            ginfos.setdefault(int(w[1]), []).append((w[2], w[3]))
        else:
            res[o] = r
    for o, r in lines:
        if o.startswith('write ') and r != 'rejected' and not r.endswith('errors=0'):
            fails.append('%s: tracing calls failed: %s' % (o, r))
        if o == 'close' and r not in ('ok 0 0', 'rejected'):
            fails.append('close: %s' % r)
        if r in ('crash', 'hang'):
            fails.append('%s: the real code %s' % (o.split()[0], 'crashed' if r == 'crash' else 'did not return within 60 s'))
    if fails:
        return fails
    want_errs = ','.join('0' if g else ('-5' if p['hrid'][:127] != procs[0]['hrid'][:127] else '-6') for p, g in zip(procs, ok))
    r = res.get('read', '')
    if not r.startswith('nfiles=%d errs=%s ' % (len(procs), want_errs)):
        fails.append('read: reader reports %s, expected nfiles=%d errs=%s' % (r, len(procs), want_errs))
        return fails
    for i, p in enumerate(procs):
        if not ok[i]:
            continue
        live = [s for s in p['streams'] if s['events']]
        want = 'rank=%d hrid=%s nthreads=%d ndict=%d' % (p['rank'], p['hrid'][:127].hex() or '-', len(live), len(p['keys']))
        if res.get('rfile %d' % i) != want:
            fails.append('rfile %d: %s, written: %s' % (i, res.get('rfile %d' % i), want))
        # dictionary: name, info length, convertor (and the colour suffix of the attributes)
        got = res.get('rdict %d' % i, '')[1:-1].split()
        if len(got) != len(p['keys']):
            fails.append('rdict %d: %d entries read, %d written' % (i, len(got), len(p['keys'])))
        else:
            for d, (g, k) in enumerate(zip(got, p['keys'])):
                f = g.split(':')
                wantk = [k[0][:63].hex() or '-', (k[1][:127][-6:]).hex() or '-', str(k[2]), k[3].hex() or '-']
                if f[1:] != wantk:
                    fails.append('rdict %d entry %d: read %s, written %s' % (i, d, f[1:], wantk))
        want = '[' + ' '.join('%s:%d:%s' % (s['hrid'][:127].hex() or '-', len(s['events']),
                                                ','.join('%s=%s' % (k.hex() or '-', v.hex() or '-') for k, v in reversed(s['infos']))) for s in live) + ']'
        if res.get('rthreads %d' % i) != want:
            fails.append('rthreads %d: read %s, written %s' % (i, res.get('rthreads %d' % i, '')[:300], want[:300]))
        for t, s in enumerate(live):
            want = '[' + ' '.join(show_ev(e) for e in s['events']) + '] n=%d mono=1' % len(s['events'])
            g = res.get('revents %d %d' % (i, t), '')
            if g != want:
                ge, we = g[1:].split(']')[0].split(), want[1:].split(']')[0].split()
                j = next((j for j in range(min(len(ge), len(we))) if ge[j] != we[j]), min(len(ge), len(we)))
                fails.append('revents %d %d: stream %s: event #%d read back as %s, written %s; tail read "%s" expected "%s"' % (
                    i, t, s['hrid'][:20], j, ge[j] if j < len(ge) else '<missing>', we[j] if j < len(we) else '<none>', g[-24:], want[-24:]))
        # global infos: the user's entries come first (newest first), then cwd and hostname
        want = [(k.hex() or '-', v.hex() or '-') if len(v) <= 20000 else (k.hex(), 'long:%d' % len(v)) for k, v in reversed(p['ginfos'])]
        gi = ginfos.get(i, [])
        if gi[:len(want)] != want or len(gi) != len(want) + 2:
            fails.append('global infos of file %d: read %s..., written %s...' % (i, str(gi[:3])[:200], str(want[:3])[:200]))
    return fails


def run_batch(exe, basepath, cases, use_driver, timeout=3600, args=(), env=None):
    """cases: list of writer-op lists.  Returns per case dict(ops, lines[(op, impl, model)], extra, crashed)."""
    script = []
    for k, c in enumerate(cases):
        script.append('case %d' % k)
        if k == 0:
            script.append('layout')
        script += c + reader_ops(c)[0]
    rc, out, err = pv.sh([exe, basepath] + list(args), input='\n'.join(script) + '\n', timeout=timeout, env=env)
    recs = []      # (op, impl) incl. comment records
    ops = []
    for ln in out.splitlines():
        if ln.startswith('#ginfo'):
            recs.append((ln, None))
        elif ln.startswith('#') or not ln.strip():
            continue
        elif ' => ' in ln:
            a, b = ln.split(' => ', 1)
            recs.append((a.strip(), b.strip()))
            ops.append(a.strip())
        else:
            recs.append((ln.strip(), '<no-result>'))
            ops.append(ln.strip())
    model = []
    if use_driver and ops:
        rcd, model, derr = pv.run_driver('pv_C42', ops, timeout=timeout)
    stats = pv.parse_transcript('\n'.join(l for l in out.splitlines() if l.startswith('#stat')))[2]
    results = []
    cur = None
    mi = 0
    for o, r in recs:
        if o.startswith('case '):
            cur = {'lines': [], 'dis': []}
            results.append(cur)
        if cur is None:
            continue
        if r is None:
            cur['lines'].append((o, ''))
            continue
        m = model[mi] if mi < len(model) else '<missing>'
        mi += 1
        cur['lines'].append((o, r))
        if use_driver and m != r:
            cur['dis'].append({'op': o[:200], 'impl': r[:300], 'model': m[:300]})
    for k, c in enumerate(cases):
        if k < len(results):
            results[k]['ops'] = c
        else:
            results.append({'ops': c, 'lines': [], 'dis': [], 'missing': True})
    return results, stats, err, rc


def load_corpus(sub=''):
    cs = []
    d = os.path.join(pv.ROOT, 'corpus', PROP)
    if os.path.isdir(d):
        for f in sorted(os.listdir(d)):
            if f.endswith('.case') and (f.startswith('9') == (sub == 'probe')):
                cs.append((f, [l.strip() for l in open(os.path.join(d, f)) if l.strip() and not l.startswith('#')]))
    return cs


def writer_only(ops):
    return [o for o in ops if o.split()[0] in ('open', 'key', 'ginfo', 'stream', 'sinfo', 'sinfo!', 'ev', 'write', 'close')]


def shrink(exe, basepath, ops, pred):
    """ddmin over the event / info / key lines; the structure (open/stream/write/close) is kept."""
    fixed = [i for i, o in enumerate(ops) if o.split()[0] in ('open', 'stream', 'write', 'close')]
    var = [i for i, o in enumerate(ops) if i not in fixed]

    def build(sub):
        keep = set(fixed) | set(sub)
        return [o for i, o in enumerate(ops) if i in keep]

    def failing(sub):
        rs, _, _, _ = run_batch(exe, basepath, [build(sub)], True, timeout=120)
        return pred(rs[0])
    small = pv.ddmin(var, failing, max_tests=60)
    return build(small)


def run(ctx, res, cases=None):
    exe = ctx.path('C42')
    extra = ['-I' + os.path.join(pv.REPO, 'tools', 'profiling'), os.path.join(pv.REPO, 'tools', 'profiling', 'dbpreader.c')]
    ok, log = pv.cc_harness(os.path.join(pv.ROOT, 'harness', 'C42.c'), exe, ctx.build, extra=extra)
    if not ok:
        res.infra_errors.append('harness compile failed: ' + log[-1500:]); return
    rng = pv.Rng(ctx.seed)
    corpus = load_corpus()
    if cases is None:
        n = 28 if ctx.quick else 160
        cases = [writer_only(c) for _, c in corpus] + [gen_case(rng.fork(k), ctx.quick) for k in range(n)]
        ncorpus = len(corpus)
    else:
        ncorpus = 0
    # batches, a few in parallel (the harness itself runs up to 8 writer threads)
    bs = 6
    batches = [cases[i:i + bs] for i in range(0, len(cases), bs)]
    results = []
    stats = {}
    with concurrent.futures.ThreadPoolExecutor(max_workers=4) as ex:
        futs = [ex.submit(run_batch, exe, ctx.path('b%d' % i), b, ctx.driver_ok) for i, b in enumerate(batches)]
        for i, f in enumerate(futs):
            rs, st, err, rc = f.result()
            results += rs
            for k, v in st.items():
                stats[k] = stats.get(k, 0) + v
            if rc != 0:
                res.violations.append({'key': 'harness-exit-%d' % rc, 'what': 'harness exited with %d in batch %d: %s' % (rc, i, err[-500:]), 'case': batches[i][0][:50]})
    # a crash of the real code ends the harness process: cases behind it in the batch are rerun alone
    redo = [k for k, r in enumerate(results) if r.get('missing')][:12]
    for k in redo:
        rs, st, err, rc = run_batch(exe, ctx.path('redo'), [results[k]['ops']], ctx.driver_ok, timeout=300)
        results[k] = rs[0]
    hist = {}
    nev = 0
    multi = {'multi_buffer_event_chains': 0, 'multi_buffer_dictionaries': 0, 'multi_buffer_thread_chains': 0, 'multi_process_cases': 0, 'rejected_calls': 0,
             'files_rejected_by_reader': 0, 'streams': 0, 'empty_streams': 0}
    for k, r in enumerate(results):
        res.evaluations += 1
        ops = r['ops']
        if r.get('missing'):
            res.violations.append({'key': 'no-output:' + ' ; '.join(ops[:6]), 'what': 'the harness produced no transcript for this case (died earlier)', 'case': ops})
            continue
        for o in ops:
            hist[o.split()[0]] = hist.get(o.split()[0], 0) + 1
        lines = [(o, i) for o, i in r['lines']]
        fails = oracle(ops, lines)
        procs = simulate(ops)
        if fails:
            cat = fails[0].split(':')[0].split()[0]
            pred = lambda rr: any(f.split(':')[0].split()[0] == cat for f in oracle(rr['ops'], rr['lines']))
            small = shrink(exe, ctx.path('shrink'), ops, pred) if len(ops) < 4000 else ops
            rs, _, _, _ = run_batch(exe, ctx.path('shrink'), [small], False, timeout=120)
            sf = oracle(small, rs[0]['lines']) or fails
            key = ' ; '.join(small) if len(small) <= 12 else 'roundtrip:' + sf[0][:120]
            res.violations.append({'key': key, 'what': sf[0], 'case': small + reader_ops(small)[0], 'all_failures': sf[:5]})
        if r['dis']:
            d0 = r['dis'][0]
            pred = lambda rr: bool(rr['dis'])
            small = shrink(exe, ctx.path('shrink'), ops, pred) if len(ops) < 4000 else ops
            rs, _, _, _ = run_batch(exe, ctx.path('shrink'), [small], True, timeout=120)
            res.disagreements.append({'case': (small + reader_ops(small)[0])[:400], 'first': (rs[0]['dis'] or [d0])[0], 'count': len(r['dis'])})
        # distribution
        nev_case = sum(len(s['events']) for p in procs for s in p['streams'])
        nev += nev_case
        for p in procs:
            for s in p['streams']:
                multi['streams'] += 1
                if not s['events']:
                    multi['empty_streams'] += 1
                if sum(24 + (len(e[4]) if e[4] is not None else 0) for e in s['events']) > p['avail']:
                    multi['multi_buffer_event_chains'] += 1
            if sum(203 + len(kk[3]) for kk in p['keys']) >= p['avail']:
                multi['multi_buffer_dictionaries'] += 1
            if sum(s['used'] for s in p['streams'] if s['events']) >= p['avail']:
                multi['multi_buffer_thread_chains'] += 1
        multi['multi_process_cases'] += 1 if len(procs) > 1 else 0
        multi['rejected_calls'] += sum(1 for o, i in r['lines'] if i == 'rejected')
        multi['files_rejected_by_reader'] += sum(1 for o, i in r['lines'] if o == 'read' and ' errs=' in i for e in i.split()[1][5:].split(',') if e != '0')
        if nev_case > 0 and any(o.startswith('revents') and i not in ('rejected',) and 'n=0 ' not in i for o, i in r['lines']):
            res.nontrivial(' ; '.join(ops)[:100000])
        if len(res.violations) + len(res.disagreements) >= 4:
            break
    res.traces_validated = len(results)
    # probes of the known limits / findings (harness only)
    for fname, c in load_corpus('probe'):
        rs, _, err, rc = run_batch(exe, ctx.path('probe'), [writer_only(c)], False, timeout=200, env={'PVC42_ALARM': '12'},
                                   args=('samepid',) if fname.startswith('902') else ())
        lines = rs[0]['lines']
        res.evaluations += 1
        hung = [o for o, i in lines if i == 'hang']
        crashed = [o for o, i in lines if i == 'crash']
        if fname.startswith('900') and hung:
            res.violations.append({'key': F1, 'what': 'parsec_profiling_dbp_dump did not return within 60 s (infinite loop in dump_thread) for ' + fname, 'case': c})
        elif fname.startswith('901') and crashed:
            res.violations.append({'key': F2, 'what': 'dbp_reader_open_files crashed (NULL buffer in read_threads) for ' + fname, 'case': c})
        elif fname.startswith('902') and any(o == 'read' and 'errs=0,0' not in i for o, i in lines):
            res.violations.append({'key': F3, 'what': 'second profile written by the same process (init/dbp_start/dump/fini twice) is unreadable: ' +
                                   [i for o, i in lines if o == 'read'][0], 'case': c})
        elif hung or crashed:
            res.violations.append({'key': 'probe:' + fname, 'what': 'probe %s: %s' % (fname, 'hang' if hung else 'crash'), 'case': c})
        else:
            fails = oracle(writer_only(c), lines)
            if fails and not fname.startswith('91'):
                res.violations.append({'key': 'probe:' + fname, 'what': fails[0], 'case': c})
            res.notes.append('probe %s: %s' % (fname, 'reads back as written' if not fails else 'differs as documented: ' + fails[0][:160]))
    res.rule = ('corpus cases first, then random cases: 1-3 processes (distinct ranks; occasionally a different application id or buffer size, which the reader must reject), 1-4 pages per buffer, '
                '1-45 dictionary keys (duplicate names, 63-byte names, info lengths 0..buffer limit, convertors up to 3.8 kB), 1-40 streams with 0-3 infos (sizes around the buffer limit), '
                '0-900 (quick) / 0-4000 (thorough) events per stream with random keys, flags, ids, payload bytes, written by 1-8 concurrent threads; some calls outside the precondition '
                '(must be rejected on both sides). Every file is read by the real dbpreader and by the Lean reader on the same bytes. distinct = distinct writer script; non-trivial = at least one '
                'non-empty stream was read back')
    good = [r for r in results[ncorpus:] if r.get('lines')]
    res.samples = [{'ops': [o[:120] for o in r['ops'][:10]], 'impl': [(o[:60], i[:160]) for o, i in r['lines'] if o.split()[0] in ('read', 'rfile', 'rthreads', 'revents', 'check')][:6]} for r in good[:3]]
    multi.update({'events_written': nev, 'corpus_cases': ncorpus, 'op_histogram': hist})
    multi.update({k: v for k, v in stats.items()})
    res.extra['input_distribution'] = multi


def replay(ctx, res, data):
    cases = [writer_only(v['case']) for v in data.get('violations', []) if 'case' in v and not v.get('key', '').startswith('C42-F')]
    cases += [writer_only(d['case']) for d in data.get('disagreements', []) if 'case' in d]
    run(ctx, res, cases=cases or None)
