"""C38 — runtime (MCA) parameters resolve by documented precedence."""
import os, re, json, time, pv
PROP = 'C38'
LEAN_MODULE = 'ParsecVerif.Props.C38'
DRIVERS = ['pv_C38']
THEOREMS = ['ParsecVerif.C38.override_wins', 'ParsecVerif.C38.env_over_file', 'ParsecVerif.C38.synonym_order',
            'ParsecVerif.C38.file_over_default', 'ParsecVerif.C38.default_last', 'ParsecVerif.C38.readonly_default',
            'ParsecVerif.C38.precedence', 'ParsecVerif.C38.lookup_spec', 'ParsecVerif.C38.lookup_stable',
            'ParsecVerif.C38.set_then_lookup', 'ParsecVerif.C38.unset_then_lookup',
            'ParsecVerif.C38.join', 'ParsecVerif.C38.cmdline_to_env', 'ParsecVerif.C38.cmdline_end_to_end', 'ParsecVerif.C38.parse_mca_argv', 'ParsecVerif.C38.repeated_mca_joined',
            'ParsecVerif.C38.mca_over_gmca', 'ParsecVerif.C38.file_list_first_wins', 'ParsecVerif.C38.save_value_last_wins',
            'ParsecVerif.C38.parse_decimal', 'ParsecVerif.C38.parse_decimal_neg', 'ParsecVerif.C38.parse_saturates',
            'ParsecVerif.C38.parse_sizet_decimal', 'ParsecVerif.C38.file_synonym_order_is_file_order']
IMPL = 'parsec/utils/mca_param.c, mca_param_cmd_line.c, cmd_line.c, mca_parse_paramfile.c, parsec/parsec.c (parsec_init argument handling)'
ENGINE = 'lean-seq'
LEVEL = 'proof'
LEVEL_TEXT = ('Lean 4 theorems, for every parameter (int, size_t, string; any default, any synonyms), every environment, every list of file values and every command line: '
              'an override set by parsec_mca_param_set_* wins over everything; otherwise the first of PARSEC_MCA_<name>, PARSEC_MCA_<synonym 1>, ... that is set wins over file values and '
              'the default; otherwise the cached file value or the first file-list entry carrying one of the names wins over the default; otherwise the default is returned; '
              'a read-only parameter always yields its default; the source reported by lookup_source is the one used (theorem `precedence` is the complete characterisation). '
              'Repeated --mca/--gmca options for one parameter reach the environment as the comma-joined list of their values in command-line order, --mca wins over --gmca and both '
              'overwrite a pre-existing variable, and a following lookup returns that joined text converted at the parameter type. File lists: the leftmost file that names a parameter '
              'wins, inside one file the last line wins. Text conversion is (int)strtol(s,0,0) / (size_t)strtoll(s,0,0): decimal round-trip and saturation are theorems. '
              'The model mirrors mca_param.c / mca_param_cmd_line.c / cmd_line.c / mca_parse_paramfile.c branch by branch (file-value cache, read-only short circuit, ~/ expansion) and is '
              'tied to the current source on every run: systematic (all 2^5 source combinations x 3 types x read-only) and random op scripts run on the real library under ASan/UBSan and are compared '
              'line by line with the compiled Lean model; a few cases go through the real parsec_init; an independent oracle written from the property text is evaluated on the implementation outputs.')
LEVEL_NOTE = ('Sequential use only (the registry has no locking). The parameter-file lexer (keyval_lex.l) is exercised but not modelled: generated files use `name = value` lines without comments or '
              'quoting; the model starts from the (name,value) pairs. Deprecation warnings, parsec_mca_param_deregister/find/dump/build_env and component-level registration (reg_int with a component) are not modelled. '
              'The harness repeats the 15-line environment copy loop of parsec_init with the library functions; real parsec_init runs cover it end to end for a few cases per run. '
              'Paths longer than MAXPATHLEN and a $HOME containing "~" are outside the ~/ expansion theorems. Trusted: Lean kernel, propext/Classical.choice/Quot.sound, the harness, differential testing as tie.')
TECHNIQUE = 'Lean 4 proof (decision logic characterised for all inputs; list inductions for the command line and the file list) on a hand-written model, tied by differential correspondence with the real library'
ASSUMPTIONS = ['single-threaded use of the MCA parameter registry',
               'LP64: long = long long = 64 bits, int = 32 bits, (int) cast keeps the low 32 bits (gcc), C locale isspace',
               'parameter indices passed to the API are valid (the code tests index > size instead of >=) and string overrides are non-NULL (lookup_override strdup()s the pointer)',
               'one harness process runs all scripted cases (registry finalized and re-initialised between cases); finding F1 (fixed by a69806a) is guarded by corpus case 900']


# ------------------------------------------------------------------ independent conversions (written from the C standard, not from the model)
_num = re.compile(r'[ \t\n\v\f\r]*([+-]?)(0[xX][0-9a-fA-F]+|0[0-7]*|[1-9][0-9]*)?')


def c_strtol(s):
    m = _num.match(s)
    sign, digits = m.group(1), m.group(2)
    if not digits:
        return 0
    if digits[:2] in ('0x', '0X'):
        v = int(digits[2:], 16)
    elif digits[0] == '0':
        v = int(digits, 8)
    else:
        v = int(digits, 10)
    if sign == '-':
        v = -v
    return max(-2 ** 63, min(2 ** 63 - 1, v))


def conv(ty, text):
    if ty == 'i':
        v = (c_strtol(text) if text is not None else 0) & 0xffffffff
        return str(v - 2 ** 32 if v >= 2 ** 31 else v)
    if ty == 'z':
        return str((c_strtol(text) if text is not None else 0) & (2 ** 64 - 1))
    return text


def expand(s, home):
    if s is None:
        return None
    if s.startswith('~/'):
        rest = s[2:]
        if home is None:
            s = rest
        else:
            s = (home if home.startswith('/') else '/' + home) + (rest if rest.startswith('/') else '/' + rest)
    n = 0
    while ':~/' in s and n < 100:
        s = s.replace(':~/', ':' + (home or '') + '/', 1)
        n += 1
    return s


def dec(tok):
    if tok == 'null':
        return None
    return tok[1:].replace('^', ' ').replace('|', '\t')


def enc(s):
    return 'null' if s is None else '=' + s.replace(' ', '^').replace('\t', '|')


def full(tn, pn):
    return pn if tn in ('-', '') else tn + '_' + pn


# ------------------------------------------------------------------ property oracle
class Oracle:
    """Bookkeeping of which sources are present, from the ops alone; judges the implementation's answers against the
    property text: override > environment (name or synonym) > parameter file > default; repeated --mca joined by commas."""

    def __init__(self):
        self.env, self.files, self.loaded = {}, {}, {}
        self.exact, self.reads = {}, 0      # name -> value by the documented file order; valid while files were read once
        self.params, self.inited, self.unsure = [], False, False
        self.home_env, self.home = '/hm', None
        self.combos = {}

    def read_files(self):
        self.home = self.home_env
        p0 = self.params[0] if self.params else None
        lst = self.env.get('mca_param_files')
        if lst is None or (p0 and p0['ov'] is not None):
            if p0 and p0['ov'] is not None:
                lst = p0['ov']
            else:
                # the list may then come from a file value or the default: too indirect for this oracle
                if 'mca_param_files' in self.loaded:
                    self.unsure = True
                lst = ''
        lst = expand(lst, self.home)
        self.reads += 1
        seen = set()
        for f in [x for x in lst.split(':') if x]:
            here = {}
            for n, v in self.files.get(f, []):
                self.loaded.setdefault(n, []).append(v)
                here[n] = v                      # "the last line of a file wins"
                if n == 'mca_param_files':
                    self.unsure = True
            for n, v in here.items():
                if n not in seen:                # "the entries farthest to the left get precedence" (read_files)
                    seen.add(n)
                    self.exact[n] = v

    def ensure_init(self):
        if not self.inited:
            self.inited = True
            self.params = [{'ty': 's', 'names': ['mca_param_files'], 'ro': False, 'dflt': 'DEFAULTFILES', 'ov': None}]
            self.loaded, self.exact, self.reads = {}, {}, 0
            self.read_files()

    def expect(self, p):
        """(source, set of acceptable printed values or None when the text does not determine it)"""
        ty = p['ty']
        post = (lambda v: enc(expand(v, self.home))) if ty == 's' else (lambda v: v)
        envs = [self.env[n] for n in p['names'] if n in self.env]
        fvals = [v for n in p['names'] for v in self.loaded.get(n, [])]
        present = (p['ov'] is not None, bool(envs), bool(fvals))
        if p['ro']:
            return 'default', {post(p['dflt'])}, present
        if p['ov'] is not None:
            return 'override', {post(p['ov'])}, present
        if envs:
            return 'env', {post(conv(ty, e)) for e in envs}, present
        if fvals:
            named = [n for n in p['names'] if n in self.loaded]
            if self.reads == 1 and len(named) == 1:
                return 'file', {post(conv(ty, self.exact[named[0]]))}, present
            return 'file', {post(conv(ty, v)) for v in fvals}, present
        return 'default', {post(p['dflt'])}, present

    def cmdline(self, argv):
        """property text: every `--mca name value` reaches the parameter; repeated ones are joined with commas."""
        if argv and (argv[0] == '--' or not argv[0].startswith('-')):
            argv = argv[1:]
        got = {'mca': {}, 'gmca': {}}
        i = 0
        while i < len(argv):
            t = argv[i]
            if t == '--' or not t.startswith('-'):
                break
            name = t[2:] if t.startswith('--') else t[1:]
            need = {'mca': 2, 'gmca': 2, 'am': 1, 'parsec-help': 0, 'parsec-version': 0}.get(name)
            if need is None or len(argv) - i - 1 < need:
                break
            if name in got:
                got[name].setdefault(argv[i + 1], []).append(argv[i + 2])
            elif name == 'am':
                self.env['parsec_mca_param_file_prefix'] = argv[i + 1]
            i += 1 + need
        for k in ('gmca', 'mca'):
            for n, vs in got[k].items():
                self.env[n] = ','.join(vs)

    def step(self, op, out):
        """returns a failure text or None"""
        w = op.split(' ')
        if out in ('rejected', 'bad-op', '<no-result>', '<missing>'):
            return None
        k = w[0]
        if k == 'home':
            self.home_env = dec(w[1])
        elif k == 'file':
            self.files['F' + w[1]] = [(e.split('=', 1)[0], dec('=' + e.split('=', 1)[1]) or None) for e in w[2:]]
        elif k == 'rmfile':
            self.files.pop('F' + w[1], None)
        elif k == 'env':
            self.env[w[1]] = dec(w[2])
        elif k == 'unenv':
            self.env.pop(w[1], None)
        elif k == 'init':
            self.ensure_init()
        elif k == 'recache':
            self.read_files()
        elif k == 'reg':
            self.ensure_init()
            r = out.split(' ')
            idx = int(r[0])
            if idx < 0:
                return None
            ty = w[1]
            d = dec(w[5]) if ty == 's' else w[5]
            if idx == len(self.params):
                self.params.append({'ty': ty, 'names': [full(w[2], w[3])], 'ro': w[4] != '0', 'dflt': d, 'ov': None})
            elif idx < len(self.params):
                self.params[idx]['dflt'] = d
            else:
                return 'registration returned index %d but only %d parameters exist' % (idx, len(self.params))
            if len(r) > 1:
                return self.judge(self.params[idx], None, r[1], op)
        elif k == 'syn':
            if out == '0':
                self.params[int(w[1])]['names'].append(full(w[2], w[3]))
        elif k == 'set':
            p = self.params[int(w[1])]
            p['ov'] = dec(w[2]) if p['ty'] == 's' else w[2]
        elif k == 'unset':
            self.params[int(w[1])]['ov'] = None
        elif k == 'args':
            self.cmdline([dec(t) for t in w[1:]])
        elif k == 'genv':
            want = enc(self.env[w[1]]) if w[1] in self.env else 'unset'
            if out != want:
                return '%s: environment holds %s, the command line / setenv history gives %s' % (op, out, want)
        elif k == 'get':
            r = out.split(' ')
            if r[0] != '0':
                return '%s: lookup of a registered parameter failed (%s)' % (op, out)
            return self.judge(self.params[int(w[1])], r[1], r[2], op)
        return None

    def judge(self, p, src, val, op):
        esrc, evals, present = self.expect(p)
        key = (p['ty'], p['ro'], len(p['names']) > 1) + present
        self.combos[key] = self.combos.get(key, 0) + 1
        if self.unsure:
            return None
        if src is not None and src != esrc:
            return '%s: value taken from `%s`, but by precedence (override,env,file present = %s, read-only = %s) it must come from `%s`' % (op, src, present, p['ro'], esrc)
        if val not in evals:
            return '%s: value %s, but the %s source gives %s' % (op, val, esrc, sorted(evals))
        return None


def oracle(ops, impl):
    o = Oracle()
    fails = []
    for op, out in zip(ops, impl):
        try:
            f = o.step(op, out)
        except (IndexError, ValueError, KeyError) as ex:
            f = '%s: unparsable answer %r (%s)' % (op, out, ex)
        if f:
            fails.append(f)
    return fails, o


# ------------------------------------------------------------------ generators
INT_TEXT = ['0', '1', '7', '42', '-3', '+9', '^12', '|5', '0x1F', '0X10', '-0x10', '017', '08', '0x', '0', '12abc', 'abc', '', '-', '2147483647', '2147483648',
            '-2147483649', '4294967296', '9223372036854775807', '9223372036854775808', '-9223372036854775809', '99999999999999999999', '1,2', '3,4,5', '0x7fffffff', '0xffffffff', '-0']
STR_TEXT = ['a', 'hello', 'x,y', 'a^b', '~/conf', '~/', '~//x', 'p:~/q', ':~/a:~/b', 'a:~/', '~', '/abs/path', '', 'v1.2-rc', '0x10', 'k:l:m', '~/a:~/b:~/c']


def int_text(rng):
    if rng.chance(1, 3):
        return str(rng.range(-2 ** 33, 2 ** 33)) if rng.chance(1, 2) else str(rng.range(-50, 1000))
    return rng.choice(INT_TEXT)


def text_for(rng, ty, forfile=False):
    t = int_text(rng) if ty != 's' else rng.choice(STR_TEXT)
    if forfile and (t[:1] in ('^', '|') or t[-1:] in ('^', '|')):
        t = t.strip('^|') or '1'
    return t


def dflt_for(rng, ty):
    if ty == 'i':
        return str(rng.choice([0, 1, -1, 5, 2 ** 31 - 1, -2 ** 31, rng.range(-1000, 1000)]))
    if ty == 'z':
        return str(rng.choice([0, 1, 4096, 2 ** 64 - 1, 2 ** 63, rng.range(0, 10 ** 6)]))
    return rng.choice(['null', '=dflt', '=~/d', '=', '=a:~/b'])


def ovr_for(rng, ty):
    if ty == 'i':
        return str(rng.choice([0, -7, 99, 2 ** 31 - 1, -2 ** 31, rng.range(-10 ** 6, 10 ** 6)]))
    if ty == 'z':
        return str(rng.choice([0, 3, 2 ** 64 - 1, rng.range(0, 2 ** 40)]))
    return '=' + rng.choice([t for t in STR_TEXT])


def systematic(rng):
    """all combinations override / env(primary) / env(synonym) / file(primary) / file(synonym) x type x read-only"""
    cfgs = [(ty, ro, m) for ty in 'izs' for ro in (0, 1) for m in range(32)]
    cases = []
    for g in range(0, len(cfgs), 8):
        grp = cfgs[g:g + 8]
        ops, fents, pre, mid = [], [], [], []
        for j, (ty, ro, m) in enumerate(grp):
            idx = j + 1
            tn = ['pv', '-', 'x.y'][j % 3]
            pn, sn = 'p%d' % j, 'q%d' % j
            O, E, S, Fp, Fs = (m >> 4) & 1, (m >> 3) & 1, (m >> 2) & 1, (m >> 1) & 1, m & 1
            if Fs and (j % 2 == 0):
                fents.append('%s=%s' % (full('alt', sn), text_for(rng, ty, True)))
            if Fp:
                fents.append('%s=%s' % (full(tn, pn), text_for(rng, ty, True)))
            if Fs and (j % 2 == 1):
                fents.append('%s=%s' % (full('alt', sn), text_for(rng, ty, True)))
            if E and j % 2 == 0:
                pre.append('env %s =%s' % (full(tn, pn), text_for(rng, ty)))
            mid.append('reg %s %s %s %d %s %d' % (ty, tn, pn, ro, dflt_for(rng, ty), (j // 2) % 2 if ty == 's' else 1))
            mid.append('syn %d alt %s %d' % (idx, sn, j % 2))
            if E and j % 2 == 1:
                mid.append('env %s =%s' % (full(tn, pn), text_for(rng, ty)))
            if S:
                mid.append('env %s =%s' % (full('alt', sn), text_for(rng, ty)))
            if O:
                mid.append('set %d %s' % (idx, ovr_for(rng, ty)))
            mid.append('get %d' % idx)
        ops.append('file 0 ' + ' '.join(fents) if fents else 'rmfile 0')
        ops.append('env mca_param_files =F0')
        ops += pre + ['init'] + mid
        ops += ['get %d' % (j + 1) for j in range(len(grp))]
        # peel the sources off again, highest first
        for j, (ty, ro, m) in enumerate(grp):
            if (m >> 4) & 1:
                ops += ['unset %d' % (j + 1), 'get %d' % (j + 1)]
        cases.append(ops)
    return cases


def gen_args(rng, names, tys):
    toks = []
    if rng.chance(1, 6):
        toks.append(rng.choice(['--', 'prog', 'a.out']))
    n = rng.range(1, 6)
    for _ in range(n):
        r = rng.below(100)
        k = rng.below(len(names)) if names else 0
        nm = names[k] if names and rng.chance(9, 10) else 'pv_unknown'
        ty = tys[k] if names else 'i'
        if r < 55:
            toks += [rng.choice(['--mca', '--mca', '-mca']), nm, text_for(rng, ty).replace('=', '')]
        elif r < 75:
            toks += [rng.choice(['--gmca', '-gmca']), nm, text_for(rng, ty)]
        elif r < 80:
            toks += [rng.choice(['-am', '--am']), 'prefix%d' % rng.below(3)]
        elif r < 86:
            toks += [rng.choice(['--parsec-help', '--parsec-version', '-parsec-help'])]
        elif r < 90:
            toks += [rng.choice(['--', 'stray', '--unknown', '-x', '-', '---mca'])]
        elif r < 95:
            toks += ['--mca', nm]          # not enough parameters (when last)
        else:
            toks += ['--mca', '--mca', 'v']
    toks = [t for t in toks if '=' not in t][:40]
    return 'args ' + ' '.join('=' + t for t in toks)


def gen_case(rng, length):
    ops = []
    P = rng.range(1, 5)
    params = []
    for j in range(P):
        ty = rng.choice('izs')
        tn = rng.choice(['pv', 'pv', '-', 'x.y', 'mca'])
        syns = [('alt' if rng.chance(2, 3) else '-', 'q%d_%d' % (j, s)) for s in range(rng.below(3))]
        params.append({'ty': ty, 'tn': tn, 'pn': 'p%d' % j, 'ro': 1 if rng.chance(1, 6) else 0, 'syns': syns, 'reg': False, 'nsyn': 0})
    allnames = lambda p: [full(p['tn'], p['pn'])] + [full(a, b) for a, b in p['syns']]

    def file_op(i):
        ents = []
        for p in params:
            for n in allnames(p):
                if rng.chance(1, 2):
                    ents.append('%s=%s' % (n, text_for(rng, p['ty'], True)))
                    if rng.chance(1, 8):
                        ents.append('%s=%s' % (n, text_for(rng, p['ty'], True)))
        if rng.chance(1, 6):
            ents.append('pv_other=1')
        if rng.chance(1, 25):
            ents.append('mca_param_files=F%d' % rng.below(4))
        # shuffle
        for a in range(len(ents) - 1, 0, -1):
            b = rng.below(a + 1)
            ents[a], ents[b] = ents[b], ents[a]
        return 'file %d %s' % (i, ' '.join(ents)) if ents else 'file %d pv_other=0' % i

    def files_env():
        k = rng.choice([0, 1, 1, 2, 2, 3])
        fl = [['F0', 'F1', 'F2', 'F0', 'F1', 'F3'][rng.below(6)] for _ in range(k)]
        if rng.chance(1, 8):
            fl.insert(rng.below(len(fl) + 1), rng.choice(['', '~/nofile', 'nofile']))
        return 'env mca_param_files =' + ':'.join(fl)

    if rng.chance(1, 6):
        ops.append('home ' + rng.choice(['null', '=/hm', '=hm', '=/hm/', '=/home/u', '=']))
    for i in range(rng.choice([0, 1, 2, 2, 3, 3])):
        ops.append(file_op(i))
    if rng.chance(5, 6):
        ops.append(files_env())
    for p in params:
        for n in allnames(p):
            if rng.chance(1, 7):
                ops.append('env %s =%s' % (n, text_for(rng, p['ty'])))
    if rng.chance(1, 2):
        ops.append('init')
    nreg = [0]

    def idx_of(p):
        return p['idx']

    for _ in range(length):
        r = rng.below(100)
        p = rng.choice(params)
        if not p['reg'] or r < 6:
            ty = p['ty'] if (p['reg'] is False or rng.chance(5, 6)) else rng.choice('izs')
            ops.append('reg %s %s %s %d %s %d' % (ty, p['tn'], p['pn'], p['ro'], dflt_for(rng, ty), 0 if (ty == 's' and rng.chance(1, 3)) else 1))
            if not p['reg']:
                nreg[0] += 1
                p['idx'] = nreg[0]
                p['reg'] = True
        elif r < 18:
            if p['nsyn'] < len(p['syns']):
                a, b = p['syns'][p['nsyn']]
                p['nsyn'] += 1
                ops.append('syn %d %s %s %d' % (p['idx'], a, b, rng.below(2)))
            else:
                ops.append('get %d' % p['idx'])
        elif r < 24:
            ops.append('set %d %s' % (p['idx'], ovr_for(rng, p['ty'])))
        elif r < 30:
            ops.append('unset %d' % p['idx'])
        elif r < 38:
            ops.append('env %s =%s' % (rng.choice(allnames(p)), text_for(rng, p['ty'])))
        elif r < 47:
            ops.append('unenv %s' % rng.choice(allnames(p)))
        elif r < 54:
            regd = [q for q in params if q['reg']]
            ops.append(gen_args(rng, [n for q in regd for n in allnames(q)], [q['ty'] for q in regd for n in allnames(q)]))
            ops.append('genv %s' % rng.choice(allnames(p)))
        elif r < 58:
            ops.append(file_op(rng.below(4)))
        elif r < 61:
            ops.append(files_env())
        elif r < 66:
            ops.append('recache')
        elif r < 69:
            ops.append(rng.choice(['get 0', 'genv parsec_mca_param_file_prefix', 'rmfile %d' % rng.below(4), 'init', 'get 7', 'syn 0 - zz 0', 'set %d null' % p['idx'],
                                   'unset 9', 'home =/other', 'set %d x' % p['idx']]))
        else:
            ops.append('get %d' % p['idx'])
    for p in params:
        if p['reg']:
            ops.append('get %d' % p['idx'])
    return ops


def gen_e2e(rng):
    """scripts for the real parsec_init: sources set up before, registration and lookups after"""
    ops = ['file 0 pv_f=%s pv_b=%s alt_s=%s' % (int_text(rng).strip('^|') or '1', int_text(rng).strip('^|') or '2', rng.choice(['x', '~/y', 'a,b'])),
           'env mca_param_files =F0', 'env pv_e =%s' % int_text(rng), 'env pv_b =%s' % int_text(rng)]
    toks = []
    if rng.chance(1, 2):
        toks.append(rng.choice(['prog', '--']))
    for _ in range(rng.range(1, 4)):
        toks += [rng.choice(['--mca', '-mca', '--gmca']), rng.choice(['pv_c', 'pv_c', 'pv_b', 'alt_s', 'pv_z']), rng.choice(['1', '2', '0x10', 'q', '-5'])]
    toks += ['--mca', 'pv_e', rng.choice(['21', '0x21', '-21'])]
    if rng.chance(1, 3):
        toks += ['--', '--mca', 'pv_e', '77']
    ops.append('pinit ' + ' '.join('=' + t for t in toks))
    ops += ['reg i pv c 0 %d 1' % rng.range(-5, 5), 'reg i pv e 0 3 1', 'reg i pv f 0 4 1', 'reg z pv b 0 5 1', 'reg s pv s 0 =d 1', 'syn 5 alt s 0',
            'reg z pv z 0 9 1', 'reg i pv d 0 11 1', 'set 3 %d' % rng.range(-9, 9)]
    ops += ['get %d' % i for i in range(1, 8)] + ['genv pv_c', 'genv pv_b', 'genv pv_e']
    return ops


def load_corpus():
    """corpus files; a `case k` line inside a file starts a further case"""
    cs = []
    d = os.path.join(pv.ROOT, 'corpus', PROP)
    if os.path.isdir(d):
        for f in sorted(os.listdir(d)):
            if f.endswith('.case'):
                cur = []
                for l in open(os.path.join(d, f)):
                    l = l.strip()
                    if not l or l.startswith('#'):
                        continue
                    if l.startswith('case '):
                        if cur:
                            cs.append((f, cur))
                        cur = []
                    else:
                        cur.append(l)
                if cur:
                    cs.append((f, cur))
    return cs


# ------------------------------------------------------------------ run
def run_e2e(exe, wd, ops, env):
    """one process per case: the harness runs the real parsec_init for `pinit`; the model gets `init` + `args`."""
    mops = []
    for o in ops:
        if o.startswith('pinit'):
            mops += ['init', 'args' + o[5:]]
        else:
            mops.append(o)
    rc, out, err = pv.sh([exe, wd, 'e2e'], input='case 0\n' + '\n'.join(ops) + '\n', timeout=120, env=env)
    _, impl, _, _ = pv.parse_transcript(out)
    impl = impl[1:]
    rcd, model, derr = pv.run_driver('pv_C38', ['case 0'] + mops)
    model = model[1:]
    merged, i = [], 0
    for o in ops:
        if o.startswith('pinit'):
            merged.append(model[i + 1] if i + 1 < len(model) else '<missing>')   # result of `args` (0 / -1) ~ parsec_init succeeded (0)
            i += 2
        else:
            merged.append(model[i] if i < len(model) else '<missing>')
            i += 1
    return rc, impl, merged, err


def run(ctx, res, cases=None):
    tm, t0 = {}, time.time()
    src = os.path.join(pv.ROOT, 'harness', 'C38.c')
    exe = ctx.path('C38')
    ok, log = pv.cc_harness(src, exe, ctx.build, sanitize=True)
    if not ok:
        res.infra_errors.append('harness compile failed: ' + log[-1500:]); return
    tm['compile'] = round(time.time() - t0, 1); t0 = time.time()
    env = {'ASAN_OPTIONS': 'detect_leaks=0', 'HOME': '/hm'}
    env.update(pv.MPI_ENV)
    env['OMPI_MCA_ess_singleton_isolated'] = '1'      # parsec_init cases are MPI singletons: no orted daemon
    wd = ctx.path('wd')
    os.makedirs(wd, exist_ok=True)
    rng = pv.Rng(ctx.seed)
    corpus = load_corpus()

    corpus_cases = [c for f, c in corpus]

    if cases is None:
        n = 400 if ctx.quick else 30000
        cases = corpus_cases + systematic(rng.fork(7)) + [gen_case(rng.fork(100 + k), rng.range(8, 40 if ctx.quick else 90)) for k in range(n)]
        ne2e = 4 if ctx.quick else 40
    else:
        ne2e = 0
    tm['gen'] = round(time.time() - t0, 1); t0 = time.time()
    results, stats, viols, (rc, err) = pv.run_script(exe, 'pv_C38', cases, env=env, use_driver=ctx.driver_ok, harness_args=[wd], timeout=1500)
    tm['scripts'] = round(time.time() - t0, 1); t0 = time.time()

    def impl_of(ops):
        return pv.run_script(exe, 'pv_C38', [ops], env=env, use_driver=False, harness_args=[wd], timeout=60)[0][0]['impl']

    def disagrees(ops):
        r = pv.run_script(exe, 'pv_C38', [ops], env=env, harness_args=[wd], timeout=60)[0][0]
        return r['crashed'] or r['impl'] != r['model'][:len(r['impl'])] or len(r['impl']) != len(r['ops'])

    hist, combos, srcs = {}, {}, {}
    for k, r in enumerate(results):
        res.evaluations += 1
        for o in r['ops']:
            hist[o.split()[0]] = hist.get(o.split()[0], 0) + 1
        if r['crashed']:
            res.violations.append({'key': 'crash:' + ' ; '.join(r['ops'][:len(r['impl']) + 1]),
                                   'what': 'real code crashed / sanitizer abort (rc=%s) in case %d after %d ops: %s' % (r.get('rc'), k, len(r['impl']), r.get('stderr', '')[-400:]), 'case': r['ops']})
            break
        fails, o = oracle(r['ops'], r['impl'])
        for ck, cv in o.combos.items():
            combos[ck] = combos.get(ck, 0) + cv
        if fails:
            small = pv.ddmin(r['ops'], lambda ops: bool(oracle(ops, impl_of(ops))[0]))
            sf = oracle(small, impl_of(small))[0] or fails
            res.violations.append({'key': ' ; '.join(small), 'what': sf[0], 'case': small, 'all_failures': sf[:5]})
        if ctx.driver_ok and r['impl'] != r['model']:
            small = pv.ddmin(r['ops'], disagrees)
            rs = pv.run_script(exe, 'pv_C38', [small], env=env, harness_args=[wd], timeout=60)[0][0]
            res.disagreements.append({'case': small, 'impl': rs['impl'], 'model': rs['model']})
        nd = 0
        for op, out in zip(r['ops'], r['impl']):
            if op.startswith('get ') and out.startswith('0 '):
                s = out.split(' ')[1]
                srcs[s] = srcs.get(s, 0) + 1
                nd += s != 'default'
        if nd:
            res.nontrivial(' ; '.join(r['ops']))
        if len(res.violations) + len(res.disagreements) >= 6:
            break
    res.traces_validated = len(results)

    tm['oracle'] = round(time.time() - t0, 1); t0 = time.time()
    # end to end through the real parsec_init (one process per case, a few at a time)
    e2e_done = 0
    e2e_ops = [gen_e2e(rng.fork(5000 + k)) for k in range(ne2e)]

    def one(k):
        d = ctx.path('wd_e2e_%d' % k)
        os.makedirs(d, exist_ok=True)
        return run_e2e(exe, d, e2e_ops[k], env)
    if e2e_ops:
        import concurrent.futures
        with concurrent.futures.ThreadPoolExecutor(max_workers=4) as ex:
            e2e_res = list(ex.map(one, range(len(e2e_ops))))
    else:
        e2e_res = []
    for ops, (rc2, impl, model, err2) in zip(e2e_ops, e2e_res):
        res.evaluations += 1
        e2e_done += 1
        if rc2 != 0 or len(impl) != len(ops):
            res.violations.append({'key': 'crash-e2e:' + ' ; '.join(ops[:len(impl) + 1]), 'what': 'parsec_init based case exited with %s after %d ops: %s' % (rc2, len(impl), err2[-400:]), 'case': ops, 'e2e': True})
            break
        eops = []
        for o in ops:
            eops += (['init', 'args' + o[5:]] if o.startswith('pinit') else [o])
        eimpl = []
        for o, x in zip(ops, impl):
            eimpl += (['ok', x] if o.startswith('pinit') else [x])
        fails, o2 = oracle(eops, eimpl)
        if fails:
            res.violations.append({'key': 'e2e:' + ' ; '.join(ops), 'what': fails[0], 'case': ops, 'e2e': True})
        if ctx.driver_ok and impl != model:
            res.disagreements.append({'case': ops, 'impl': impl, 'model': model, 'e2e': True})
        else:
            res.nontrivial('e2e ' + ' ; '.join(ops))
    res.traces_validated += e2e_done
    tm['parsec_init_cases'] = round(time.time() - t0, 1)
    res.extra['phase_seconds'] = tm

    full_combos = sum(1 for ty in 'izs' for ro in (False, True) for pr in range(8) if any(k[0] == ty and k[1] == ro and k[3:] == ((pr >> 2) & 1 == 1, (pr >> 1) & 1 == 1, pr & 1 == 1) for k in combos))
    res.rule = ('corpus cases first; then 24 systematic cases covering override x env(primary) x env(synonym) x file(primary) x file(synonym) x {int,size_t,string} x read-only with seeded values; '
                'then random op scripts (1-4 parameters with 0-2 synonyms, 0-3 parameter files, environment, overrides, command lines with repeated/malformed --mca/--gmca/-am options, re-registration, recache) on the real '
                'library under ASan+UBSan; then scripts through the real parsec_init. distinct = distinct op script; non-trivial = at least one lookup answered from a non-default source')
    res.samples = [{'ops': r['ops'][:14], 'impl': r['impl'][:14]} for r in results[len(corpus_cases) + 24:len(corpus_cases) + 26]] + \
                  [{'ops': r['ops'][:10], 'impl': r['impl'][:10]} for r in results[len(corpus_cases):len(corpus_cases) + 1]]
    res.extra['input_distribution'] = {'op_histogram': hist, 'lookup_sources': srcs, 'corpus_cases': len(corpus),
                                       'type_readonly_presence_combinations_seen_of_48': full_combos,
                                       'distinct_lookup_situations': len(combos), 'parsec_init_cases': e2e_done,
                                       'rejected_calls': sum(r['impl'].count('rejected') for r in results)}


def replay(ctx, res, data):
    cases = [v['case'] for v in data.get('violations', []) if 'case' in v and not v.get('e2e')] + \
            [d['case'] for d in data.get('disagreements', []) if 'case' in d and not d.get('e2e')]
    run(ctx, res, cases=cases or None)
